"""(schema, value) case generation and observation of the real validators; shared by the
checks of C02, C03, C08 (and reused by others)."""
import collections

from niltype import Nil

import absn
import gen
from absn import Unmodelled


class Case:
    __slots__ = ("ssrc", "schema", "value", "origin", "mode", "obs_kind", "errors", "exc",
                 "term", "unmodelled")

    def vsrc(self):
        return gen.vsrc(self.value)

    def replay_dict(self):
        return {"kind": "input", "schema": self.ssrc, "value": self.vsrc(), "mode": self.mode,
                "origin": self.origin}


def schema_depth(s, d=0):
    from d42.declaration import Schema
    best = d
    for name in s.props:
        v = s.props.get(name)
        items = []
        if isinstance(v, Schema):
            items = [v]
        elif isinstance(v, (list, tuple)):
            items = [x for x in v if isinstance(x, Schema)]
        elif isinstance(v, dict):
            items = [x[0] for x in v.values() if isinstance(x, tuple) and isinstance(x[0], Schema)]
        for x in items:
            best = max(best, schema_depth(x, d + 1))
    return best


def make_cases(ctx, n_schemas, depth, zoo_rate=0.3, perturb=10, modes=("Plain",), opts=None):
    """Generate cases: for each schema conforming values, their one-step perturbations at
    every depth, zoo injections at random positions, unrelated values."""
    r = ctx.rng
    cases = []
    directed = [(src, gen.build(src)) for src in gen.FALSY_SCHEMAS] if not (opts or {}).get("no_directed") else []
    for j in range(n_schemas + len(directed)):
        ssrc, s = directed[j] if j < len(directed) else gen.gen_schema(r, r.randint(0, depth), opts)
        vals = []
        for _ in range(2):
            try:
                v = gen.conform(r, s)
            except Exception:
                continue
            vals.append(("conform", v))
            ps = gen.perturbations(r, v, limit=perturb)
            vals += [("perturb", p) for p in ps]
            if r.random() < zoo_rate:
                pos = list(gen.positions(v))
                for _ in range(2):
                    z = r.choice(gen.ZOO)[1]
                    vals.append(("zoo", gen.replace_at(v, r.choice(pos), z)))
        vals.append(("unrelated", r.choice(gen.UNRELATED)))
        if r.random() < zoo_rate:
            vals.append(("zoo", r.choice(gen.ZOO)[1]))
        for origin, v in vals:
            for m in modes:
                c = Case()
                c.ssrc, c.schema, c.value, c.origin, c.mode = ssrc, s, v, origin, m
                c.unmodelled = None
                cases.append(c)
    if not (opts or {}).get("no_directed"):
        for ssrc, vtext in gen.VTWINS:
            for m in modes:
                c = Case()
                c.ssrc, c.schema, c.value, c.origin, c.mode = ssrc, gen.build(ssrc), eval(vtext, dict(gen.NS)), "twins", m
                c.unmodelled = None
                cases.append(c)
    return cases


def observe(c):
    """Run the real validator; fill obs_kind ('ok' | 'raise'), errors / exc and the Coq term."""
    from d42.validation import Validator
    from d42.substitution import SubstitutorValidator
    validator = _VALIDATORS.setdefault(c.mode, Validator() if c.mode == "Plain" else SubstitutorValidator())
    kt = absn.KeyTable()
    try:
        res = c.schema.__accept__(validator, value=c.value)
        c.errors = list(res.get_errors())
        c.obs_kind, c.exc = "ok", None
    except Exception as e:  # noqa
        c.obs_kind, c.exc, c.errors = "raise", e, None
    try:
        st = absn.cschema(c.schema, kt)
        vt = absn.cvalue(c.value, kt)
        if c.obs_kind == "ok":
            obs = "(Ok " + absn.clist([absn.cerror(e, kt) for e in c.errors]) + ")"
        else:
            obs = f"(Raise {absn.cexn(c.exc)})"
        c.term = f"({c.mode}, {st}, {vt}, {obs})"
    except Unmodelled as u:
        c.unmodelled = str(u)
        c.term = None
    return c


_VALIDATORS = {}


def distribution(cases):
    d = collections.Counter()
    kinds = collections.Counter()
    for c in cases:
        d["origin:" + c.origin] += 1
        d["schema:" + type(c.schema).__name__] += 1
        if c.obs_kind == "ok":
            d["accept" if not c.errors else "reject"] += 1
            for e in c.errors:
                kinds[type(e).__name__.replace("ValidationError", "")] += 1
        else:
            d["raise"] += 1
        if c.unmodelled:
            d["unmodelled"] += 1
    return dict(d), dict(kinds)


def distinct_nontrivial(cases):
    """distinct (schema, value) pairs whose observation is a rejection, a raise, or an
    acceptance of a value at nesting depth >= 1 (i.e. not a bare scalar accept)."""
    seen = set()
    for c in cases:
        if c.term is None:
            continue
        nontrivial = c.obs_kind != "ok" or bool(c.errors) or isinstance(c.value, (list, dict))
        if nontrivial:
            seen.add(c.term)
    return len(seen)
