"""Running the real generator under a scripted tape and a fixed world (uuid4, utcnow, today,
order of character sets), shared by the checks of C01, C17 (and C04/C12/C16 where they generate)."""
import datetime
import sys
import uuid

import absn
import tape
from absn import Unmodelled

W_UUID = uuid.UUID("886313e1-3b8a-4372-9b90-0c9aee199e5d")
W_NOW = datetime.datetime(2024, 2, 29, 12, 30, 15, 123456)
W_TODAY = datetime.date(2024, 2, 29)


class _DT(datetime.datetime):
    @classmethod
    def utcnow(cls):
        return W_NOW


class _D(datetime.date):
    @classmethod
    def today(cls):
        return W_TODAY


def make_generator(sorted_sets=True):
    """A Generator built through the public constructors, with a Random whose set-difference
    site is order-normalised (the model instance uses sort by code point)."""
    from d42.generation import Generator, Random, RegexGenerator

    class SortedSetRandom(Random):
        def random_choice(self, sequence):
            if isinstance(sequence, str) and sys._getframe(1).f_code.co_name == "_generate_not_in":
                sequence = "".join(sorted(sequence))
            return super().random_choice(sequence)

    rnd = SortedSetRandom() if sorted_sets else Random()
    return Generator(rnd, RegexGenerator(rnd))


class fixed_world:
    """patches the names the generator module resolves uuid4 / datetime / date through"""

    def __enter__(self):
        import uuid as _uuid_mod
        import d42.generation  # noqa
        g = sys.modules["d42.generation._generator"]
        self.g = g
        # whichever of these names the module binds (a refactoring may import them differently); the
        # uuid module's own uuid4 is fixed too, so `uuid.uuid4()` spelled any way reads the world
        self.saved = {n: getattr(g, n) for n in ("uuid4", "datetime", "date") if hasattr(g, n)}
        for n, repl in (("uuid4", lambda: W_UUID), ("datetime", _DT), ("date", _D)):
            if n in self.saved:
                setattr(g, n, repl)
        self.saved_uuid4 = _uuid_mod.uuid4
        _uuid_mod.uuid4 = lambda: W_UUID
        return self

    def __exit__(self, *a):
        import uuid as _uuid_mod
        for n, v in self.saved.items():
            setattr(self.g, n, v)
        _uuid_mod.uuid4 = self.saved_uuid4


def run(schema, t, generator=None):
    """('ok', value) | ('raise', exc), tape entries consumed in t.used"""
    generator = generator or make_generator()
    with fixed_world(), tape.scripted(t):
        try:
            return "ok", schema.__accept__(generator)
        except RecursionError:
            raise
        except Exception as e:  # noqa
            return "raise", e


def world_term():
    a, us = absn.cdatetime_pair(W_NOW)
    return f"{absn.cN(W_UUID.int)}, {absn.cZ(us)}, {absn.cZ(W_TODAY.toordinal())}"


def case_term(schema, used, outcome, res, kt=None):
    """Coq gencase term; raises Unmodelled"""
    kt = kt or absn.KeyTable()
    st = absn.cschema(schema, kt)
    if outcome == "ok":
        obs = f"(Ok {absn.cvalue(res, kt)})"
    else:
        from d42.declaration import DeclarationError
        from d42.substitution.errors import SubstitutionError
        if isinstance(res, DeclarationError):
            obs = "(Err DeclErr)"
        elif isinstance(res, SubstitutionError):
            obs = "(Err SubstErr)"
        else:
            obs = f"(Raise {absn.cexn(res)})"
    return f"({world_term()}, {st}, {tape.ctape(used)}, {obs}, {absn.cnat(len(used))})"
