"""Abstraction function: Python / d42 objects -> Coq terms of the model (text).

Fail-closed: anything the model has no constructor for raises Unmodelled; callers count
those cases in the evidence, they are never silently dropped from totals.

Case files open N_scope; every Z numeral is written with %Z, every nat with %nat.
"""
import re as _re
import datetime as _dt
import math
import sys
import uuid as _uuid

from niltype import Nil

import d42
from d42.declaration.types import (
    AnySchema, BoolSchema, BytesSchema, DateSchema, DateTimeSchema, DictSchema, FloatSchema,
    GenericTypeAliasSchema, IntSchema, ListSchema, NoneSchema, StrSchema, UUID4Schema,
)
from d42.custom_type import CustomSchema
from d42.declaration import Schema

if sys.version_info >= (3, 11):
    import re._parser as sre
    import re._constants as src
else:  # pragma: no cover
    import sre_parse as sre
    import sre_constants as src


class Unmodelled(Exception):
    pass


# ---------------------------------------------------------------- scalars
def cZ(n):
    n = int(n)
    a = abs(n)
    txt = str(a) if a < 10 ** 40 else hex(a)
    return f"{txt}%Z" if n >= 0 else f"(-{txt})%Z"


def cN(n):
    n = int(n)
    if n < 0:
        raise Unmodelled("negative N")
    return str(n) if n < 10 ** 40 else hex(n)


def cnat(n):
    return f"{int(n)}%nat"


def cbool(b):
    return "true" if b else "false"


def cstr(s):
    return "[" + ";".join(str(ord(c)) for c in s) + "]"


def cbytes(b):
    return "[" + ";".join(str(x) for x in b) + "]"


def cfloat(x):
    x = float(x)
    if x != x:
        return "fnan"
    if x == math.inf:
        return "finf"
    if x == -math.inf:
        return "fninf"
    if x == 0:
        return "fnzero" if math.copysign(1, x) < 0 else "fzero"
    m, e = math.frexp(abs(x))
    mi = int(m * (1 << 53))
    ee = e - 53
    while mi % 2 == 0:
        mi //= 2
        ee += 1
    return f"(mkf {cbool(x < 0)} {cZ(mi)} {cZ(ee)})"


def copt(x, f):
    return "None" if (x is Nil or x is None) else f"(Some {f(x)})"


def cintv(i):
    if isinstance(i, bool):
        return f"(IBool {cbool(i)})"
    if isinstance(i, int):
        return f"(IInt {cZ(i)})"
    raise Unmodelled(f"intv {type(i)}")


def clist(items):
    return "[" + "; ".join(items) + "]"


# ---------------------------------------------------------------- keys / values
class KeyTable:
    """Opaque hashable keys get small ids, one id per Python key-equality class."""

    def __init__(self):
        self.items = []

    def id_of(self, k):
        for i, x in enumerate(self.items):
            try:
                if x == k and hash(x) == hash(k):
                    return i
            except Exception:
                pass
        self.items.append(k)
        return len(self.items) - 1


_EPOCH_NAIVE = _dt.datetime(1970, 1, 1)
_EPOCH_AWARE = _dt.datetime(1970, 1, 1, tzinfo=_dt.timezone.utc)
_US = _dt.timedelta(microseconds=1)


def ckey(k, kt):
    if k is ...:
        return "KEll"
    if k is None:
        return "KNone"
    if isinstance(k, bool):
        return f"(KInt {cZ(int(k))})"
    if isinstance(k, int):
        return f"(KInt {cZ(k)})"
    if isinstance(k, float):
        if k == k and abs(k) != math.inf and k == int(k):
            return f"(KInt {cZ(int(k))})"
        return f"(KOpaque {kt.id_of(k)})"
    if isinstance(k, str):
        return f"(KStr {cstr(k)})"
    if isinstance(k, bytes):
        return f"(KBytes {cbytes(k)})"
    return f"(KOpaque {kt.id_of(k)})"


_OTHER_TAGS = {}


def other_tag(v):
    name = type(v).__module__ + "." + type(v).__qualname__
    if name not in _OTHER_TAGS:
        _OTHER_TAGS[name] = len(_OTHER_TAGS) + 1
    return _OTHER_TAGS[name]


def cdatetime_pair(v):
    if v.tzinfo is not None and v.utcoffset() is not None:
        return True, (v - _EPOCH_AWARE) // _US
    return False, (v.replace(tzinfo=None) - _EPOCH_NAIVE) // _US


def _regex_scope(kt, category=False, text=""):
    """Regex.v reads the categories \\d \\w (and the boundary \\b) as ASCII; Python's are Unicode-aware for str.  A case that
    puts a category pattern next to non-ASCII text is outside what the model states (the direct oracles still see it)."""
    if kt is None:
        return
    if category:
        kt.category_pattern = True
    if any(ord(c) > 127 for c in text):
        kt.non_ascii_text = True
    if getattr(kt, "category_pattern", False) and getattr(kt, "non_ascii_text", False):
        raise Unmodelled("category pattern (ASCII in Regex.v) with non-ASCII text")


def cvalue(v, kt=None, depth=0):
    if kt is None:
        kt = KeyTable()
    if depth > 40:
        raise Unmodelled("too deep")
    if v is None:
        return "VNone"
    if v is ...:
        return "VEllipsis"
    if v is Nil:
        return "VNil"
    if isinstance(v, bool):
        return f"(VBool {cbool(v)})"
    if isinstance(v, int):
        return f"(VInt {cZ(v)})"
    if isinstance(v, float):
        return f"(VFloat {cfloat(v)})"
    if isinstance(v, str):
        _regex_scope(kt, text=v)
        return f"(VStr {cstr(v)})"
    if isinstance(v, bytes):
        return f"(VBytes {cbytes(v)})"
    if isinstance(v, _uuid.UUID):
        return f"(VUuid {cN(v.int)})"
    if isinstance(v, _dt.datetime):
        a, us = cdatetime_pair(v)
        return f"(VDatetime {cbool(a)} {cZ(us)})"
    if isinstance(v, _dt.date):
        return f"(VDate {cZ(v.toordinal())})"
    if isinstance(v, list):
        return "(VList " + clist([cvalue(x, kt, depth + 1) for x in v]) + ")"
    if isinstance(v, dict):
        return "(VDict " + clist([f"({ckey(k, kt)}, {cvalue(x, kt, depth + 1)})"
                                  for k, x in v.items()]) + ")"
    if isinstance(v, Schema):
        raise Unmodelled("schema as value")
    return f"(VOther {other_tag(v)})"


def cpath(path, kt):
    items = []
    for op in path:
        if type(op).__name__ != "ItemAccessor":
            raise Unmodelled("attribute accessor in path")
        items.append(ckey(op.operand, kt))
    return clist(items)


# ---------------------------------------------------------------- regular expressions
_AT = {
    src.AT_BEGINNING: "AtBeg", src.AT_BEGINNING_STRING: "AtBegString",
    src.AT_END: "AtEnd", src.AT_END_STRING: "AtEndString",
}


def _ccat(code):
    if code == src.CATEGORY_DIGIT:
        return "CDigit"
    if code == src.CATEGORY_WORD:
        return "CWord"
    return f"(COtherCat {int(code)})"


def _citem(op, av):
    if op == src.LITERAL:
        return f"(CLit {int(av)})"
    if op == src.RANGE:
        return f"(CRange {int(av[0])} {int(av[1])})"
    if op == src.CATEGORY:
        return f"(CCat {_ccat(av)})"
    raise Unmodelled(f"class item {op}")


def _cre_seq(sub):
    return clist([_cre(op, av) for op, av in sub])


def _cre(op, av):
    if op == src.LITERAL:
        return f"(RLit {int(av)})"
    if op == src.NOT_LITERAL:
        return f"(RNotLit {int(av)})"
    if op == src.ANY:
        return "RAny"
    if op == src.IN:
        items = list(av)
        neg = False
        if items and items[0][0] == src.NEGATE:
            neg = True
            items = items[1:]
        return f"(RIn {cbool(neg)} {clist([_citem(o, a) for o, a in items])})"
    if op == src.BRANCH:
        return "(RBranch " + clist([_cre_seq(alt) for alt in av[1]]) + ")"
    if op == src.SUBPATTERN:
        group, add_flags, del_flags, sub = av
        if add_flags or del_flags:
            raise Unmodelled("inline flags")
        return f"(RGroup {_cre_seq(sub)})"
    if op in (src.MAX_REPEAT, src.MIN_REPEAT):
        mn, mx, sub = av
        mxs = "None" if mx == src.MAXREPEAT else f"(Some {int(mx)})"
        return f"(RRepeat {cbool(op == src.MIN_REPEAT)} {int(mn)} {mxs} {_cre_seq(sub)})"
    if op == src.AT:
        return f"(RAt {_AT[av]})" if av in _AT else f"(RAt (AtOther {int(av)}))"
    return f"(RUnsupported {int(op)})"


def cre(pattern):
    """sre.parse tree of a pattern string as a Coq [list re]."""
    parsed = sre.parse(pattern)
    if parsed.state.flags & ~src.SRE_FLAG_UNICODE:
        raise Unmodelled("global flags")
    return _cre_seq(parsed)


# ---------------------------------------------------------------- schemas
def _props(s, allowed):
    out = {}
    for name in s.props:
        if name not in allowed:
            raise Unmodelled(f"unknown prop {name!r} on {type(s).__name__}")
        out[name] = s.props.get(name)
    return out


def _g(p, name):
    return p.get(name, Nil)


class Fwd:
    """Marker mixin: harness-defined forwarding custom schema (see harness/custom.py)."""


def cschema(s, kt=None, depth=0):
    """Coq term of a built schema.  Fail closed: a prop of an unexpected type (which only a broken
    implementation produces) is Unmodelled, never a crash of the harness."""
    try:
        return _cschema(s, kt, depth)
    except Unmodelled:
        raise
    except RecursionError:
        raise
    except Exception as e:  # noqa
        raise Unmodelled(f"schema with an ill-typed prop ({type(e).__name__}: {e})")


def _cschema(s, kt=None, depth=0):
    if kt is None:
        kt = KeyTable()
    if depth > 40:
        raise Unmodelled("too deep")
    rec = lambda x: cschema(x, kt, depth + 1)
    if isinstance(s, CustomSchema):
        if isinstance(s, Fwd):
            return f"(SCustom {rec(s.props.get('inner'))})"
        raise Unmodelled("foreign custom schema")
    t = type(s)
    if t is NoneSchema:
        _props(s, ())
        return "SNone"
    if t is BoolSchema:
        p = _props(s, ("value",))
        v = _g(p, "value")
        if v is not Nil and not isinstance(v, bool):
            raise Unmodelled("bool value type")
        return f"(SBool {copt(v, cbool)})"
    if t is IntSchema:
        p = _props(s, ("value", "min", "max"))
        return f"(SInt {copt(_g(p,'value'), cintv)} {copt(_g(p,'min'), cintv)} {copt(_g(p,'max'), cintv)})"
    if t is FloatSchema:
        p = _props(s, ("value", "min", "max", "precision"))
        for n in ("value", "min", "max"):
            if _g(p, n) is not Nil and not isinstance(_g(p, n), float):
                raise Unmodelled("float prop type")
        return (f"(SFloat {copt(_g(p,'value'), cfloat)} {copt(_g(p,'min'), cfloat)} "
                f"{copt(_g(p,'max'), cfloat)} {copt(_g(p,'precision'), cintv)})")
    if t is StrSchema:
        p = _props(s, ("value", "len", "min_len", "max_len", "alphabet", "substr", "pattern"))
        for n in ("value", "alphabet", "substr", "pattern"):
            if _g(p, n) is not Nil and not isinstance(_g(p, n), str):
                raise Unmodelled("str prop type")
        pat = _g(p, "pattern")
        pats = "None" if pat is Nil else f"(Some ({cstr(pat)}, {cre(pat)}))"
        if pat is not Nil:
            _regex_scope(kt, category=bool(_re.search(r"\\[dDwWsSbB]", pat)), text=pat + (_g(p, "value") if _g(p, "value") is not Nil else ""))
        return (f"(SStr {copt(_g(p,'value'), cstr)} {copt(_g(p,'len'), cintv)} "
                f"{copt(_g(p,'min_len'), cintv)} {copt(_g(p,'max_len'), cintv)} "
                f"{copt(_g(p,'alphabet'), cstr)} {copt(_g(p,'substr'), cstr)} {pats})")
    if t is ListSchema:
        p = _props(s, ("elements", "type", "len", "min_len", "max_len"))
        es = _g(p, "elements")
        if es is Nil:
            ess = "None"
        else:
            if not isinstance(es, list):
                raise Unmodelled("elements not a list")
            items = []
            for e in es:
                if e is ...:
                    items.append("None")
                elif isinstance(e, Schema):
                    items.append(f"(Some {rec(e)})")
                else:
                    raise Unmodelled("element type")
            ess = f"(Some {clist(items)})"
        ty = _g(p, "type")
        tys = "None" if ty is Nil else f"(Some {rec(ty)})"
        return (f"(SList {ess} {tys} {copt(_g(p,'len'), cintv)} "
                f"{copt(_g(p,'min_len'), cintv)} {copt(_g(p,'max_len'), cintv)})")
    if t is DictSchema:
        p = _props(s, ("keys",))
        ks = _g(p, "keys")
        if ks is Nil:
            return "(SDict None)"
        if not isinstance(ks, dict):
            raise Unmodelled("keys not a dict")
        items = []
        for k, pair in ks.items():
            if not (isinstance(pair, tuple) and len(pair) == 2 and isinstance(pair[1], bool)):
                raise Unmodelled("keys entry shape")
            val, opt = pair
            if val is ...:
                vs = "None"
            elif isinstance(val, Schema):
                vs = f"(Some {rec(val)})"
            else:
                raise Unmodelled("keys entry value")
            items.append(f"({ckey(k, kt)}, {vs}, {cbool(opt)})")
        return f"(SDict (Some {clist(items)}))"
    if t is AnySchema:
        p = _props(s, ("types",))
        ts = _g(p, "types")
        if ts is Nil:
            return "(SAny None)"
        if not isinstance(ts, tuple):
            raise Unmodelled("types not a tuple")
        return f"(SAny (Some {clist([rec(x) for x in ts])}))"
    if t is BytesSchema:
        p = _props(s, ("value",))
        return f"(SBytes {copt(_g(p,'value'), cbytes)})"
    if t is UUID4Schema:
        p = _props(s, ("value",))
        return f"(SUuid {copt(_g(p,'value'), lambda u: cN(u.int))})"
    if t is DateTimeSchema:
        p = _props(s, ("value",))
        v = _g(p, "value")
        if v is Nil:
            return "(SDatetime None)"
        a, us = cdatetime_pair(v)
        return f"(SDatetime (Some ({cbool(a)}, {cZ(us)})))"
    if t is DateSchema:
        p = _props(s, ("value",))
        return f"(SDate {copt(_g(p,'value'), lambda x: cvalue(x, kt))})"
    if isinstance(s, GenericTypeAliasSchema):
        p = _props(s, ("name", "type"))
        nm = _g(p, "name")
        if nm is not Nil and not isinstance(nm, str):
            raise Unmodelled("alias name")
        return f"(SAlias {copt(nm, cstr)} {rec(s.props.type)})"
    raise Unmodelled(f"schema class {t.__name__}")


# ---------------------------------------------------------------- validation errors
_PYTYPES = {
    type(None): "TNone", bool: "TBool", int: "TInt", float: "TFloat", str: "TStr",
    list: "TList", dict: "TDict", bytes: "TBytes", _uuid.UUID: "TUuid",
    _dt.datetime: "TDatetime", _dt.date: "TDate",
}


def cerror(e, kt):
    n = type(e).__name__
    if n == "TypeValidationError":
        k = f"(EType {_PYTYPES[e.expected_type]})"
    elif n == "ValueValidationError":
        k = f"(EValue {cvalue(e.expected_value, kt)})"
    elif n == "MinValueValidationError":
        k = f"(EMin {cvalue(e.min_value, kt)})"
    elif n == "MaxValueValidationError":
        k = f"(EMax {cvalue(e.max_value, kt)})"
    elif n == "LengthValidationError":
        k = f"(ELen {cintv(e.length)})"
    elif n == "MinLengthValidationError":
        k = f"(EMinLen {cintv(e.min_length)})"
    elif n == "MaxLengthValidationError":
        k = f"(EMaxLen {cintv(e.max_length)})"
    elif n == "AlphabetValidationError":
        k = f"(EAlphabet {cstr(e.alphabet)})"
    elif n == "SubstrValidationError":
        k = f"(ESubstr {cstr(e.substr)})"
    elif n == "RegexValidationError":
        k = f"(ERegex ({cstr(e.pattern)}, {cre(e.pattern)}))"
    elif n == "MissingElementValidationError":
        k = f"(EMissingElement {cZ(e.index)})"
    elif n == "ExtraElementValidationError":
        k = f"(EExtraElement {cZ(e.index)})"
    elif n == "MissingKeyValidationError":
        k = f"(EMissingKey {ckey(e.missing_key, kt)})"
    elif n == "ExtraKeyValidationError":
        k = f"(EExtraKey {ckey(e.extra_key, kt)})"
    elif n == "SchemaMismatchValidationError":
        k = "(EMismatch " + clist([cschema(t, kt) for t in e.expected_schemas]) + ")"
    elif n == "InvalidUUIDVersionValidationError":
        k = f"(EUuidVersion {copt(e.actual_version, cN)})"
    else:
        raise Unmodelled(f"error class {n}")
    return f"(VE {k} {cpath(e.path, kt)} {cvalue(e.actual_value, kt)})"


_EXN = {
    "ValueError": "ValueError", "IndexError": "IndexError", "OverflowError": "OverflowError",
    "AttributeError": "AttributeError", "TypeError": "TypeError", "KeyError": "KeyError",
    "error": "ReError", "NameError": "NameError",
}


def cexn(exc):
    return _EXN.get(type(exc).__name__, "OtherExn")


def cresult(fn, okf):
    """Run fn(); abstract its outcome as a Coq [result]."""
    from d42.declaration import DeclarationError
    from d42.substitution.errors import SubstitutionError
    try:
        r = fn()
    except DeclarationError:
        return "(Err DeclErr)"
    except SubstitutionError:
        return "(Err SubstErr)"
    except Unmodelled:
        raise
    except Exception as e:  # noqa
        return f"(Raise {cexn(e)})"
    return f"(Ok {okf(r)})"
