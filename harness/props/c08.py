"""C08 - validation is total; failing is reporting."""
import common
import gen
import vsuite

import sys


def _has_huge_int(v, depth=0):
    """an int too large for CPython's int -> str conversion (sys.get_int_max_str_digits())"""
    lim = sys.get_int_max_str_digits()
    if type(v) is int or (isinstance(v, int) and not isinstance(v, bool)):
        return lim > 0 and abs(int(v)) >= 10 ** lim
    if depth > 8:
        return False
    if isinstance(v, (list, tuple)):
        return any(_has_huge_int(x, depth + 1) for x in v)
    if isinstance(v, dict):
        return any(_has_huge_int(k, depth + 1) or _has_huge_int(x, depth + 1) for k, x in v.items())
    return False


def probe_unusual_declared_keys(ctx):
    """"unusual dict keys and opaque objects ... nested anywhere": a schema that DECLARES such a key and a value that
    has it, with errors at and below the key (the key then is part of the error's path): validate returns, every
    error renders to a non-empty message (the path is part of the message), validate_or_fail / format_result carry
    one line per error.  Keys: ints beyond the int -> str digit limit (F40), objects that cannot be deep-copied
    (memoryview, lock: F35), objects hashing by identity, NaN, nested tuples, enum members."""
    import decimal
    import threading
    from d42 import schema, validate, validate_or_fail
    from d42.validation import ValidationException, Formatter, format_result

    class K:
        pass

    keys = [("10**5000", 10 ** 5000), ("-(7**6000)", -(7 ** 6000)), ("memoryview(b'k')", memoryview(b"k")),
            ("threading.Lock()", threading.Lock()), ("object()", object()), ("K()", K()), ("float('nan')", float("nan")),
            ("Decimal('NaN')", decimal.Decimal("NaN")), ("(1, (2, 10**5000))", (1, (2, 10 ** 5000))), ("frozenset({1})", frozenset({1})),
            ("b'k'", b"k"), ("1.5", 1.5), ("None", None), ("True", True), ("_Color.RED", gen._Color.RED), ("''", ""), ("(...,)", (...,))]
    def _same_repr(k):
        """a distinct, unequal key object whose repr() is that of k (None if there is none)"""
        if isinstance(k, float) and k != k:
            return float("nan")
        if isinstance(k, decimal.Decimal) and k != k:
            return decimal.Decimal("NaN")
        if type(k) is K or type(k) is object:
            return None          # their repr holds the address
        return None

    class R:
        def __repr__(self):
            return "R()"
    keys.append(("R()  [all instances print alike]", R()))
    same = _same_repr
    _same_repr = lambda k: R() if type(k) is R else same(k)      # noqa: E731

    fmt = Formatter()
    n = 0
    for ksrc, k in keys:
        shapes = [
            ("schema.dict({k: schema.dict({'a': schema.int, 'b': schema.str})})", lambda: schema.dict({k: schema.dict({"a": schema.int, "b": schema.str})}),
             [{k: {"a": "x"}}, {k: {"a": 1, "b": "s", "c": 2}}, {k: 5}, {}], [2, 1, 1, 1]),
            ("schema.dict({k: schema.list([schema.int, schema.str])})", lambda: schema.dict({k: schema.list([schema.int, schema.str])}),
             [{k: [1]}, {k: ["x", 1, 2]}, {k: [None, None]}], [1, 3, 2]),
            ("schema.list(schema.dict({k: schema.dict({'a': schema.int})}))", lambda: schema.list(schema.dict({k: schema.dict({"a": schema.int})})),
             [[{k: {"a": None}}, {k: {}}], [{k: {"a": 1}}, {}]], [2, 1]),
            ("schema.dict({'o': schema.dict({k: schema.int, 'z': schema.int})})", lambda: schema.dict({"o": schema.dict({k: schema.int, "z": schema.int})}),
             [{"o": {k: "x"}}, {"o": {"z": 1}}, {"o": {k: 1, "z": 1, "y": 1}}], [2, 1, 1]),
            ("schema.dict({'a': schema.int})", lambda: schema.dict({"a": schema.int}), [{"a": 1, k: 2}, {k: {k: 1}}], [1, 2]),
            ("schema.dict({k: schema.dict({k: schema.dict({k: schema.none})})})", lambda: schema.dict({k: schema.dict({k: schema.dict({k: schema.none})})}),
             [{k: {k: {k: 0}}}, {k: {k: {}}}], [1, 1]),
            # two errors that render to the SAME line (two distinct keys with one repr) are still two errors / two lines
            ("schema.dict({'a': schema.int})  [second key: a distinct object with the same repr]", lambda: schema.dict({"a": schema.int}),
             [{"a": 1, k: 2, _same_repr(k): 3}] if _same_repr(k) is not None else [], [2]),
            ("schema.any(schema.dict({k: schema.list(schema.int)}), schema.none)", lambda: schema.any(schema.dict({k: schema.list(schema.int)}), schema.none),
             [{k: [1, "x"]}], [1]),
        ]
        for ssrc, mk, values, counts in shapes:
            s = mk()
            for v, want in zip(values, counts):
                n += 1
                rp = {"kind": "input", "schema": ssrc, "where": f"k = {ksrc}", "value": common.srepr(v)[:200]}
                try:
                    errors = validate(s, v).get_errors()
                except Exception as e:  # noqa
                    rp.update(observed=f"validate raised {type(e).__name__}: {str(e)[:120]}", expected="a ValidationResult")
                    ctx.violation(f"validate raised {type(e).__name__} (a dict key declared by the schema: {ksrc})", rp)
                    continue
                if len(errors) != want:
                    rp.update(observed=f"{len(errors)} errors", expected=f"{want} errors")
                    ctx.violation("number of errors for a value with an unusual declared key", rp)
                    continue
                try:
                    msgs = [e.format(fmt) for e in errors]
                    bad = [m for m in msgs if not isinstance(m, str) or not m.strip()]
                    fr = format_result(validate(s, v))
                    try:
                        validate_or_fail(s, v)
                        text = None
                    except ValidationException as e:
                        text = str(e)
                    ok = not bad and len(fr) == len(msgs) + 1 and text is not None and text.count("\n - ") == len(msgs)
                    why = f"messages={len(msgs)} empty={len(bad)} format_result={len(fr)} lines"
                except Exception as e:  # noqa
                    ok, why = False, f"rendering raised {type(e).__name__}: {str(e)[:120]}"
                if not ok:
                    rp.update(observed=why, expected="one non-empty line per error from format / format_result / validate_or_fail")
                    ctx.violation(f"errors located at or below an unusual declared key do not render ({ksrc})", rp)
    return n


PROPS_FILE = "props/C08.v"
MODEL_FILES = ["theories/Validate.v"]


def run(ctx):
    from d42 import validate_or_fail
    from d42.validation import ValidationException, Formatter, format_result, validate
    n = ctx.scale(220, 4000)
    depth = ctx.scale(3, 5)
    cases = vsuite.make_cases(ctx, n, depth, zoo_rate=0.9, perturb=ctx.scale(6, 10))
    # every zoo member at top level against every leaf type, plus injected at every position
    r = ctx.rng
    for _ in range(ctx.scale(60, 600)):
        ssrc, s = gen.gen_schema(r, r.randint(1, depth))
        try:
            v = gen.conform(r, s)
        except Exception:
            continue
        for pos in gen.positions(v):
            zs, z = r.choice(gen.ZOO)
            c = vsuite.Case()
            c.ssrc, c.schema, c.value, c.origin, c.mode, c.unmodelled = ssrc, s, gen.replace_at(v, pos, z), "zoo", "Plain", None
            cases.append(c)
    # exhaustive grid: every leaf schema x every zoo member (alone, in a list, as a dict value)
    for ssrc in gen.LEAF_SCHEMAS:
        s = gen.build(ssrc)
        for zs, z in gen.ZOO:
            for wrap in (0, 1, 2):
                if wrap and not ctx.thorough() and r.random() < 0.8:
                    continue
                c = vsuite.Case()
                val = z if wrap == 0 else ([z] if wrap == 1 else {"a": z})
                c.ssrc, c.schema, c.value, c.origin, c.mode, c.unmodelled = ssrc, s, val, "grid", "Plain", None
                cases.append(c)
    # "any Python value" includes d42's own objects and the extreme members of the accepted types: schemas passed
    # as VALUES (alone, in a list, as a dict value; the schema itself among them) and aware datetimes whose UTC
    # instant lies outside year 1..9999, against every leaf schema
    import datetime as _dt
    edge = [_dt.datetime.min.replace(tzinfo=_dt.timezone(_dt.timedelta(hours=5))),
            _dt.datetime.max.replace(tzinfo=_dt.timezone(_dt.timedelta(hours=-5))),
            _dt.datetime.min.replace(tzinfo=_dt.timezone.utc), _dt.datetime.max.replace(tzinfo=_dt.timezone.utc),
            _dt.datetime.min, _dt.datetime.max, _dt.date.min, _dt.date.max]
    as_values = ["schema.int", "schema.str('a')", "schema.none", "schema.any", "schema.dict({'id': schema.int})",
                 "schema.list([schema.int, ...])"]
    for ssrc in gen.LEAF_SCHEMAS:
        s = gen.build(ssrc)
        extra = [gen.build(x) for x in as_values] + [s, gen.build(ssrc)] + edge
        for z in extra:
            for wrap in (0, 1, 2):
                if wrap and not ctx.thorough() and r.random() < 0.7:
                    continue
                c = vsuite.Case()
                val = z if wrap == 0 else ([z] if wrap == 1 else {"a": z})
                c.ssrc, c.schema, c.value, c.origin, c.mode, c.unmodelled = ssrc, s, val, "own-objects", "Plain", None
                cases.append(c)
    fmt = Formatter()
    oracle = 0
    for c in cases:
        vsuite.observe(c)
        oracle += 1
        if c.obs_kind == "raise":
            rp = c.replay_dict()
            rp.update(observed=f"validate raised {type(c.exc).__name__}: {c.exc}", expected="a ValidationResult")
            ctx.violation(f"validate raised {type(c.exc).__name__}", rp)
            continue
        msgs = []
        try:
            msgs = [e.format(fmt) for e in c.errors]
        except Exception as e:  # noqa
            if isinstance(e, ValueError) and _has_huge_int(c.value) and \
                    ctx.known_finding("F28", f"validate_or_fail({c.ssrc}, <int with more than {sys.get_int_max_str_digits()} digits>)"):
                continue
            rp = c.replay_dict()
            rp.update(observed=f"error.format raised {type(e).__name__}: {e}", expected="a non-empty message")
            ctx.violation("formatting an error raised", rp)
            continue
        if any((not isinstance(m, str)) or (not m.strip()) for m in msgs):
            rp = c.replay_dict()
            rp.update(observed="empty message", expected="a non-empty message")
            ctx.violation("an error rendered to an empty message", rp)
        # validate_or_fail / format_result
        try:
            out = validate_or_fail(c.schema, c.value)
            vof = ("true", out)
        except ValidationException as e:
            vof = ("exc", str(e))
        except Exception as e:  # noqa
            vof = ("crash", e)
        okv = True
        if not c.errors:
            okv = vof[0] == "true" and vof[1] is True
        else:
            okv = vof[0] == "exc" and all(m in vof[1] for m in msgs) and vof[1].count("\n - ") >= len(msgs) \
                and vof[1].startswith("\n - ")
        fr = format_result(validate(c.schema, c.value))
        if not c.errors:
            okv = okv and fr == []
        else:
            okv = okv and len(fr) == len(msgs) + 1 and all(x.startswith("- ") for x in fr[1:])
        if not okv:
            rp = c.replay_dict()
            rp.update(observed=f"validate_or_fail -> {vof[0]}; format_result -> {len(fr)} lines; errors={len(c.errors)}",
                      expected="True iff no errors, else ValidationException with one bullet per error")
            ctx.violation("validate_or_fail / format_result disagree with the error list", rp)
    key_probes = probe_unusual_declared_keys(ctx)
    modelled = [c for c in cases if c.term is not None]
    bad = common.eval_cases(ctx.workdir, "c08", [c.term for c in modelled], "vcase", "total_case_ok")
    dist, kinds = vsuite.distribution(cases)
    # the theorems' hypothesis `wf s`, decided inside Coq for the schema of every case
    not_wf = common.eval_cases(ctx.workdir, "c08wf", [c.term for c in modelled], "vcase", "wf_case_ok")
    dist["hypothesis_wf_holds"] = len(modelled) - len(not_wf)
    dist["hypothesis_wf_fails"] = len(not_wf)
    dist["unusual_declared_key_probes"] = key_probes
    ctx.coverage.update(
        evaluations=len(cases),
        distinct_nontrivial=vsuite.distinct_nontrivial(cases),
        rule="(schema, value) pairs with the hostile zoo (%d members: non-finite floats, huge ints, Decimal/Fraction/"
             "complex, tuples, sets, bytearray, memoryview, subclasses of built-ins, enums, non-v4 UUIDs, unusual dict "
             "keys, opaque objects) alone and injected at every position of a conforming value; non-trivial = "
             "rejected/raised/container value; distinct by canonical Coq term. Oracle on the implementation: no "
             "exception, every error formats non-empty, validate_or_fail/format_result match the error list. "
             "Correspondence: returns-vs-raises and error count vs validateR." % len(gen.ZOO),
        samples=[{"schema": c.ssrc, "value": c.vsrc(), "errors": [type(e).__name__ for e in (c.errors or [])]}
                 for c in cases[:2] + cases[-4:]],
        correspondence={"suite": "validateR totality", "cases": len(modelled), "mismatches": len(bad),
                        "unmodelled": len(cases) - len(modelled)},
        oracle_cases=oracle, distribution=dist, error_kinds=kinds,
    )
    for i in bad[:10]:
        c = modelled[i]
        if c.obs_kind == "raise":
            continue  # already reported by the oracle
        rp = c.replay_dict()
        rp.update(observed=f"{len(c.errors)} errors", expected="model predicts a different number of errors / a raise",
                  theorem_or_suite="C08 correspondence validateR (theorem validate_total)")
        ctx.violation("model and implementation disagree on raise/number of errors", rp, failing_input=False)


def replay(data):
    s = gen.build(data["schema"])
    v = eval(data["value"], dict(gen.NS))
    from d42 import validate
    try:
        print("errors:", validate(s, v).get_errors())
    except Exception as e:  # noqa
        print("validate raised", repr(e))
    print("expected:", data.get("expected"))
    return 0
