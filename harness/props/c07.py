"""C07 - schemas are immutable values and all operations on them are pure.

Detection is by operation HISTORIES over a shared pool of schemas and caller-owned values:

  * every list / dict ever handed to d42 is kept by the harness and mutated later
    (caller_mutates); containers returned by d42 (generated values, get_errors()) are mutated too;
  * after every step every pooled schema is snapshotted (repr, structural dump of props,
    verdicts on a probe set fixed when the schema entered the pool, value generated under a
    fixed tape) and compared with its snapshot at entry;
  * around every operation: structural dump and container identities of all arguments;
  * replay determinism (a) in process: an earlier operation is re-run on clones of its
    recorded inputs, (b) in a PRISTINE process (forked before the first history): the whole
    history, and dependency slices of single operations, must give the same outcomes as in
    the long-running process -- this is what sees caches / singletons that accumulate state;
  * correspondence: each history is abstracted to the operations of coq/theories/Store.v
    and the model (flags sites_repo) predicts per step pool size, changed schemas (none) and
    the identity of schemas returned by indexing; a designated history is additionally
    evaluated with the pre-F16 flags, where the model must predict a change;
  * a failing history is shrunk in pristine processes before the replay is written.

Only public API is used on d42 objects (s.props iteration / get for the dump is read-only).
"""
import copy
import json
import os
import pickle
import random
import struct
import subprocess
import sys
import time
import zlib

from niltype import Nil

import absn
import common
import gen
import tape as tapemod
from d42 import fake, optional, represent, schema, substitute, validate, validate_or_fail
from d42.declaration import Schema
from d42.declaration.types import (
    AnySchema, BoolSchema, DictSchema, FloatSchema, IntSchema, ListSchema, NoneSchema, StrSchema,
)
from d42.utils import from_native, make_required

PROPS_FILE = "props/C07.v"
MODEL_FILES = ["theories/Store.v"]
EXTRA_TRUSTED = [
    "C07: the store model (theories/Store.v) abstracts contents to trees of atoms; that /repo's storing sites "
    "copy (sites_repo) and that d42 keeps no state outside schemas is VALIDATED by operation histories "
    "(snapshots, argument dumps, in-process and pristine-process replays), not proved from the Python source",
    "C07: CPython aliasing outside the modelled containers (class attributes, default arguments, module "
    "singletons, functools caches) is observed only through the histories",
    "C07: harness mirror of the model's cell numbering (props/c07.py Abstractor); a slip makes the model "
    "answer RInvalid, which is reported as a correspondence mismatch",
]

FAKE_TAPE = [3, 1, 4, 1, 5, 9, 2, 6, 5, 3, 5, 8, 9, 7, 9, 3, 2, 3, 8, 4, 6, 2, 6, 4]
NS = dict(gen.NS)
NS.update(from_native=from_native, make_required=make_required, validate=validate, fake=fake,
          substitute=substitute, represent=represent, validate_or_fail=validate_or_fail)


# ------------------------------------------------------------------ structural dump (read-only)
def dump(x, depth=0):
    if depth > 60:
        return ("deep",)
    if isinstance(x, Schema):
        return ("S", type(x).__name__, tuple((n, dump(x.props.get(n), depth + 1)) for n in x.props))
    t = type(x)
    if t is list:
        return ("L", tuple(dump(y, depth + 1) for y in x))
    if t is tuple:
        return ("T", tuple(dump(y, depth + 1) for y in x))
    if t is dict:
        return ("D", tuple((dump(k, depth + 1), dump(v, depth + 1)) for k, v in x.items()))
    if t is set or t is frozenset:
        return ("Set", tuple(sorted(repr(y) for y in x)))
    if isinstance(x, optional):
        return ("O", dump(x.key, depth + 1))
    if x is ...:
        return ("E",)
    if x is Nil:
        return ("Nil",)
    if t.__module__.startswith("d42.validation"):
        # error objects keep a reference to the validated value (actual_value aliases the argument):
        # compare class and path only, the value is compared where it is an argument
        return ("Err", t.__name__, repr(getattr(x, "path", None)))
    if t is float:
        return ("f", x.hex() if x == x and abs(x) != float("inf") else repr(x))
    return (t.__name__, repr(x))


def container_ids(x, out=None, depth=0):
    """identities of x and of the lists / dicts nested in it (not looking into schemas)"""
    if out is None:
        out = []
    if depth > 60:
        return out
    if type(x) is list:
        out.append(id(x))
        for y in x:
            container_ids(y, out, depth + 1)
    elif type(x) is dict:
        out.append(id(x))
        for y in x.values():
            container_ids(y, out, depth + 1)
    return out


def dump_generated(x, depth=0):
    """dump of a generated value: datetime / date / UUID leaves come from the clock and from
    os.urandom (Generator.visit_datetime / visit_date / visit_uuid4 read them directly, they do not go
    through the random tape), so only their type is compared"""
    import datetime as _dt
    import uuid as _uuid
    if type(x) is list:
        return ("L", tuple(dump_generated(y, depth + 1) for y in x))
    if type(x) is dict:
        return ("D", tuple((dump(k), dump_generated(v, depth + 1)) for k, v in x.items()))
    if isinstance(x, (_dt.date, _uuid.UUID)):
        return ("clock-or-entropy", type(x).__name__)
    return dump(x)


_PINNED = None


def pin(x, depth=0):
    """Generator.visit_datetime / visit_date / visit_uuid4 read the clock and os.urandom directly
    (not the random tape).  A generated value flows into later operations as an argument, so those
    leaves are overwritten IN PLACE (a caller mutation of the returned container) by constants of
    the same type; otherwise two runs of one history would not have equal inputs."""
    global _PINNED
    import datetime as _dt
    import uuid as _uuid
    if _PINNED is None:
        _PINNED = {_dt.datetime: _dt.datetime(2020, 1, 2, 3, 4, 5), _dt.date: _dt.date(2020, 1, 2),
                   _uuid.UUID: _uuid.UUID("886313e1-3b8a-4372-9b90-0c9aee199e5d")}
    if depth > 60:
        return x
    if type(x) is list:
        for i in range(len(x)):
            x[i] = pin(x[i], depth + 1)
        return x
    if type(x) is dict:
        for k in list(x):
            x[k] = pin(x[k], depth + 1)
        return x
    return _PINNED.get(type(x), x)


def clone(x):
    """fresh lists / dicts, everything else (schemas, scalars) shared"""
    if type(x) is list:
        return [clone(y) for y in x]
    if type(x) is dict:
        return {k: clone(v) for k, v in x.items()}
    return x


def err_fp(errors):
    return tuple((type(e).__name__, repr(e.path)) for e in errors)


QUIET = [False]      # True: fingerprints do not print schemas (second observation schedule)


def fingerprint(status, r, generated=False):
    """outcome of an operation as plain comparable data"""
    if status != "ok":
        return ("exc", status)
    if generated:
        return ("ok", "generated", dump_generated(r))
    if isinstance(r, Schema):
        if QUIET[0]:
            return ("ok", "schema", dump(r))
        return ("ok", "schema") + snapshot_cheap(r)
    if type(r).__name__ == "ValidationResult":
        return ("ok", "result", err_fp(r.get_errors()))
    return ("ok", "value", dump(r))


# ------------------------------------------------------------------ executing operation records
def _item(spec, env):
    kind, x = spec
    if kind in ("s", "c"):
        return env[x]
    return eval(x, NS)


def _walk(root, path):
    t = root
    for p in path:
        t = t[eval(p, NS)]
    return t


def uses_of(op):
    """variables an operation reads"""
    out = []
    for k in ("s", "t", "c"):
        if k in op:
            out.append(op[k])
    for k in ("v", "arg", "keys"):
        if k in op and op[k] is not None and op[k][0] in ("s", "c"):
            out.append(op[k][1])
    for it in op.get("items", []):
        spec = it[1] if op["op"] == "new_sdict" else it
        if spec[0] in ("s", "c"):
            out.append(spec[1])
    return out


def execute(op, env):
    """-> (status, result).  status 'ok' or the exception class name.  Never lets anything
    escape; the caller decides what to do with the result."""
    k = op["op"]
    try:
        if k == "leaf":
            r = eval(op["src"], NS)
        elif k == "new_slist":
            r = [_item(it, env) for it in op["items"]]
        elif k == "new_sdict":
            r = {eval(ks, NS): _item(it, env) for ks, it in op["items"]}
        elif k == "new_value":
            r = eval(op["src"], NS)
        elif k == "mutate":
            r = _mutate(op, env)
        elif k == "decl_list":
            r = schema.list(env[op["c"]])
        elif k == "decl_dict":
            r = schema.dict(env[op["c"]])
        elif k == "decl_any":
            r = schema.any(*env[op["c"]])
        elif k == "decl_list_type":
            r = schema.list(env[op["s"]])
        elif k == "refine":
            r = eval("_s" + op["call"], dict(NS, _s=env[op["s"]]))
        elif k == "add":
            r = env[op["s"]] + env[op["t"]]
        elif k == "or":
            r = env[op["s"]] | env[op["t"]]
        elif k == "subst":
            r = env[op["s"]] % _item(op["v"], env)
        elif k == "from_native":
            r = from_native(_item(op["v"], env))
        elif k == "make_required":
            r = make_required(env[op["s"]]) if op["keys"] is None else make_required(env[op["s"]], _item(op["keys"], env))
        elif k == "validate":
            r = validate(env[op["s"]], _item(op["v"], env))
        elif k == "errors":
            r = validate(env[op["s"]], _item(op["v"], env)).get_errors()
        elif k == "validate_or_fail":
            r = validate_or_fail(env[op["s"]], _item(op["v"], env))
        elif k == "repr":
            r = repr(env[op["s"]])
        elif k == "represent":
            r = represent(env[op["s"]])
        elif k == "iter":
            r = [x for x in env[op["s"]]]
        elif k == "contains":
            r = eval(op["key"], NS) in env[op["s"]]
        elif k == "getitem":
            r = env[op["s"]][eval(op["key"], NS)]
        elif k == "eq":
            r = env[op["s"]] == _item(op["v"], env)
        elif k == "fake":
            with tapemod.scripted(tapemod.Tape(FAKE_TAPE)):
                r = pin(fake(env[op["s"]]))
        else:
            raise RuntimeError(f"unknown op {k}")
    except RecursionError:
        return "RecursionError", None
    except Exception as e:  # noqa
        return type(e).__name__, e
    return "ok", r


def _mutate(op, env):
    t = _walk(env[op["c"]], op["path"])
    how = op["how"]
    a = _item(op["arg"], env) if op.get("arg") is not None else None
    if how == "append":
        t.append(a)
    elif how == "insert0":
        t.insert(0, a)
    elif how == "pop":
        t.pop()
    elif how == "popitem":
        t.popitem()
    elif how == "set":
        t[eval(op["key"], NS)] = a
    elif how == "del":
        del t[eval(op["key"], NS)]
    elif how == "clear":
        t.clear()
    elif how == "reverse":
        if type(t) is list:
            t.reverse()
        else:
            items = list(t.items())
            t.clear()
            t.update(reversed(items))
    elif how == "sort":
        t.sort(key=repr)
    elif how == "extend":
        t.extend([a, a])
    elif how == "nest":
        t.append([a])
    elif how == "nestd":
        t[eval(op["key"], NS)] = {"n": a}
    else:
        raise RuntimeError(how)
    return None


# ------------------------------------------------------------------ python source of a history
def _spec_src(spec):
    return spec[1]


def op_source(op):
    k = op["op"]
    o = op.get("out")
    if k == "leaf":
        e = op["src"]
    elif k == "new_slist":
        e = "[" + ", ".join(_spec_src(it) for it in op["items"]) + "]"
    elif k == "new_sdict":
        e = "{" + ", ".join(f"{ks}: {_spec_src(it)}" for ks, it in op["items"]) + "}"
    elif k == "new_value":
        e = op["src"]
    elif k == "mutate":
        tgt = op["c"] + "".join(f"[{p}]" for p in op["path"])
        how, a = op["how"], (_spec_src(op["arg"]) if op.get("arg") is not None else None)
        e = {"append": f"{tgt}.append({a})", "insert0": f"{tgt}.insert(0, {a})", "pop": f"{tgt}.pop()",
             "popitem": f"{tgt}.popitem()", "set": f"{tgt}.__setitem__({op.get('key')}, {a})",
             "del": f"{tgt}.__delitem__({op.get('key')})", "clear": f"{tgt}.clear()",
             "reverse": f"_reverse({tgt})", "sort": f"{tgt}.sort(key=repr)", "extend": f"{tgt}.extend([{a}, {a}])",
             "nest": f"{tgt}.append([{a}])", "nestd": f"{tgt}.__setitem__({op.get('key')}, {{'n': {a}}})"}[how]
    elif k == "decl_list":
        e = f"schema.list({op['c']})"
    elif k == "decl_dict":
        e = f"schema.dict({op['c']})"
    elif k == "decl_any":
        e = f"schema.any(*{op['c']})"
    elif k == "decl_list_type":
        e = f"schema.list({op['s']})"
    elif k == "refine":
        e = f"{op['s']}{op['call']}"
    elif k == "add":
        e = f"{op['s']} + {op['t']}"
    elif k == "or":
        e = f"{op['s']} | {op['t']}"
    elif k == "subst":
        e = f"{op['s']} % {_spec_src(op['v'])}"
    elif k == "from_native":
        e = f"from_native({_spec_src(op['v'])})"
    elif k == "make_required":
        e = f"make_required({op['s']})" if op["keys"] is None else f"make_required({op['s']}, {_spec_src(op['keys'])})"
    elif k == "validate":
        e = f"validate({op['s']}, {_spec_src(op['v'])})"
    elif k == "errors":
        e = f"validate({op['s']}, {_spec_src(op['v'])}).get_errors()"
    elif k == "validate_or_fail":
        e = f"validate_or_fail({op['s']}, {_spec_src(op['v'])})"
    elif k == "repr":
        e = f"repr({op['s']})"
    elif k == "represent":
        e = f"represent({op['s']})"
    elif k == "iter":
        e = f"[x for x in {op['s']}]"
    elif k == "contains":
        e = f"{op['key']} in {op['s']}"
    elif k == "getitem":
        e = f"{op['s']}[{op['key']}]"
    elif k == "eq":
        e = f"{op['s']} == {_spec_src(op['v'])}"
    elif k == "fake":
        e = f"_fake({op['s']})"
    else:
        e = f"None  # {k}"
    return f"{o} = _try(lambda: {e})" if o else f"_try(lambda: {e})"


SOURCE_HEADER = '''import sys
sys.path.insert(0, %r)
import gen, tape
from gen import *          # schema, optional, UUID, datetime, ...
from d42 import fake, represent, schema, optional, substitute, validate, validate_or_fail
from d42.utils import from_native, make_required
def _try(f):
    try:
        return f()
    except Exception as e:
        print("   raised", type(e).__name__)
def _fake(s):
    from props.c07 import pin       # clock / os.urandom leaves -> constants (in place)
    with tape.scripted(tape.Tape(%r)):
        return pin(fake(s))
def _reverse(t):
    if type(t) is list: t.reverse()
    else:
        items = list(t.items()); t.clear(); t.update(reversed(items))
'''


def program_source(ops, watch=None, tail=""):
    lines = [SOURCE_HEADER % (os.path.join(common.VERIF, "harness"), FAKE_TAPE)]
    for op in ops:
        lines.append(op_source(op))
        if watch and op.get("out") == watch:
            lines.append(f"print('{watch} at entry :', repr({watch}))")
    if watch:
        lines.append(f"print('{watch} afterwards:', repr(globals().get('{watch}')))")
    if tail:
        lines.append(tail)
    return "\n".join(lines) + "\n"


# ------------------------------------------------------------------ the checked runner
_CUR_STEP = [0]


class Failure(Exception):
    def __init__(self, kind, step, detail):
        super().__init__(kind)
        self.kind, self.step, self.detail = kind, step, detail


def _has_marker_key(x, depth=0):
    if depth > 30:
        return False
    if type(x) is dict:
        return any((k is ... and v is not ...) or _has_marker_key(v, depth + 1) for k, v in x.items())
    if type(x) is list:
        return any(_has_marker_key(y, depth + 1) for y in x)
    return False


def probes_for(name, s):
    """probe values of a schema, a deterministic function of the variable name and the schema"""
    r = random.Random(zlib.crc32(name.encode()))
    vals = []
    for _ in range(3):
        try:
            vals.append(gen.conform(r, s))
        except Exception:  # noqa
            pass
    pert = []
    for v in vals[:2]:
        try:
            pert += gen.perturbations(r, v, limit=8)
        except Exception:  # noqa
            pass
    r.shuffle(pert)
    vals += pert[:6]
    vals += r.sample(gen.UNRELATED, 3)
    return vals[:12]


def snapshot_cheap(s):
    """(repr, structural dump incl. key order).  The dump is taken BEFORE repr() is called, so that a
    repr() which itself changes the schema shows up as a difference at the next snapshot."""
    d = dump(s)
    try:
        rp = repr(s)
    except Exception as e:  # noqa
        rp = "!" + type(e).__name__
    d2 = dump(s)
    if d2 != d:
        raise Failure("schema-changed", _CUR_STEP[0],
                      {"what": "repr() of a schema changed the schema itself (key order included)",
                       "before": repr(d)[:400], "after": repr(d2)[:400], "repr": rp[:200]})
    return (rp, d)


def snapshot_full(s, probes):
    verdicts = []
    for v in probes:
        try:
            verdicts.append(err_fp(validate(s, v).get_errors()))
        except RecursionError:
            verdicts.append("!RecursionError")
        except Exception as e:  # noqa
            verdicts.append("!" + type(e).__name__)
    try:
        with tapemod.scripted(tapemod.Tape(FAKE_TAPE)):
            g = dump_generated(fake(s))
    except RecursionError:
        g = "!RecursionError"
    except Exception as e:  # noqa
        g = "!" + type(e).__name__
    return (tuple(verdicts), g)


class Runner:
    """Executes operation records with all C07 checks.  Deterministic given the records, so a
    pristine process can re-run a history (or a shrunk one) and reach the same verdict."""

    def __init__(self, checks=True, full_all=True, replay_rate=0.12):
        self.env = {}
        self.pool = []            # names of pooled schemas, in order of entry
        self.meta = {}            # name -> dict(probes, pdump, cheap, full, step)
        self.checks = checks
        self.full_all = full_all
        self.replay_rate = replay_rate
        self.step_no = 0
        self.log = []             # (op, {var: clone}, fingerprint) of replayable operations
        self.fps = []             # fingerprint per executed record
        self.stats = {"snapshots": 0, "replays": 0, "arg_checks": 0, "raised": 0}

    # --- pool
    def admit(self, name, s):
        self.env[name] = s
        self.pool.append(name)
        if not self.checks:
            return
        pr = probes_for(name, s)
        self.meta[name] = {"probes": pr, "pdump": dump(pr), "cheap": snapshot_cheap(s),
                           "full": snapshot_full(s, pr), "step": self.step_no}
        if dump(s) != self.meta[name]["cheap"][1]:
            raise Failure("schema-changed", self.step_no,
                          {"schema": name, "what": "repr() / validate / fake of a schema changed the schema itself (key order included)",
                           "before": repr(self.meta[name]["cheap"][1])[:400], "after": repr(dump(s))[:400], "entered_at": self.step_no})

    def check_pool(self, touched=()):
        if not self.checks:
            return
        n = len(self.pool)
        if self.full_all or self.step_no % 20 == 0:
            full = set(self.pool)
        else:
            full = set(touched)
            for k in range(4):
                if n:
                    full.add(self.pool[(self.step_no * 4 + k) % n])
        for name in self.pool:
            m = self.meta[name]
            s = self.env[name]
            self.stats["snapshots"] += 1
            if snapshot_cheap(s) != m["cheap"]:
                raise Failure("schema-changed", self.step_no,
                              {"schema": name, "what": "repr / props", "before": m["cheap"][0],
                               "after": snapshot_cheap(s)[0], "entered_at": m["step"]})
            if name in full:
                now = snapshot_full(s, m["probes"])
                if now != m["full"]:
                    which = "generated value under the fixed tape" if now[0] == m["full"][0] else "verdicts on the probe set"
                    raise Failure("schema-changed", self.step_no,
                                  {"schema": name, "what": which, "before": repr(m["full"])[:400],
                                   "after": repr(now)[:400], "entered_at": m["step"]})
                if dump(m["probes"]) != m["pdump"]:
                    raise Failure("arg-mutated", self.step_no, {"what": "a probe value was changed by validate", "schema": name})

    # --- one record
    def step(self, op):
        self.step_no += 1
        _CUR_STEP[0] = self.step_no
        used = uses_of(op)
        is_mut = op["op"] == "mutate"
        before = None
        if self.checks and not is_mut:
            before = {u: (dump(self.env[u]), container_ids(self.env[u])) for u in used if u in self.env}
        clones = None
        if self.checks and op["op"] not in ("mutate", "new_slist", "new_sdict", "new_value"):
            clones = {u: clone(self.env[u]) for u in used if u in self.env}
        if any(u not in self.env for u in used):
            status, r = "Undefined", None      # (only in shrunk programs)
        else:
            status, r = execute(op, self.env)
        fp = fingerprint(status, r, op["op"] == "fake")
        self.fps.append(fp)
        if status != "ok":
            self.stats["raised"] += 1
        if before is not None:
            self.stats["arg_checks"] += 1
            for u, (d0, ids0) in before.items():
                if dump(self.env[u]) != d0:
                    raise Failure("arg-mutated", self.step_no, {"arg": u, "what": "contents of an argument changed"})
                if container_ids(self.env[u]) != ids0:
                    raise Failure("arg-mutated", self.step_no, {"arg": u, "what": "identity of a nested container changed"})
        if clones is not None and any(type(v) in (list, dict) for v in clones.values()):
            # the same operation on equal inputs (clones taken before it ran): equal outcome
            self.stats["twins"] = self.stats.get("twins", 0) + 1
            env2 = dict(self.env)
            env2.update(clones)
            st2, r2 = execute(op, env2)
            fp2 = fingerprint(st2, r2, op["op"] == "fake")
            if fp2 != fp:
                raise Failure("replay-differs", self.step_no,
                              {"replayed": op_source(op), "what": "same operation on clones of its container arguments",
                               "first": repr(fp)[:400], "again": repr(fp2)[:400]})
            clones = {u: clone(v) for u, v in clones.items()}
        out = op.get("out")
        if status == "ok" and out:
            if isinstance(r, Schema) and op["op"] != "getitem":
                self.admit(out, r)
            elif type(r) in (list, dict) and op["op"] in ("new_slist", "new_sdict", "new_value", "fake", "errors", "iter"):
                self.env[out] = r
        if clones is not None:
            self.log.append((op, clones, fp))
        self.check_pool(touched=[u for u in used if u in self.meta])
        if self.checks and self.log:
            rr = random.Random(zlib.crc32(f"{out}:{self.step_no}".encode()))
            if rr.random() < self.replay_rate:
                self.replay_earlier(rr.randrange(len(self.log)))
        return status, r, fp

    def replay_earlier(self, j):
        """re-run an earlier operation on clones of its recorded inputs"""
        op, clones, fp0 = self.log[j]
        self.stats["replays"] += 1
        env2 = dict(self.env)
        env2.update({u: clone(v) for u, v in clones.items()})
        status, r = execute(op, env2)
        fp = fingerprint(status, r, op["op"] == "fake")
        if fp != fp0:
            raise Failure("replay-differs", self.step_no,
                          {"replayed": op_source(op), "first": repr(fp0)[:400], "again": repr(fp)[:400]})
        self.check_pool()


def run_records(ops, checks, full_all=True):
    """-> (failure or None, fingerprints)"""
    rn = Runner(checks=checks, full_all=full_all)
    try:
        for op in ops:
            rn.step(op)
    except Failure as f:
        return (f.kind, f.step, f.detail), rn.fps
    return None, rn.fps


# ------------------------------------------------------------------ pristine processes
def _send(fd, obj):
    data = pickle.dumps(obj, protocol=4)
    os.write(fd, struct.pack("<Q", len(data)))
    off = 0
    while off < len(data):
        off += os.write(fd, data[off:off + 65536])


def _recv(fd):
    head = b""
    while len(head) < 8:
        chunk = os.read(fd, 8 - len(head))
        if not chunk:
            raise EOFError
        head += chunk
    n = struct.unpack("<Q", head)[0]
    buf = bytearray()
    while len(buf) < n:
        chunk = os.read(fd, min(1 << 20, n - len(buf)))
        if not chunk:
            raise EOFError
        buf += chunk
    return pickle.loads(bytes(buf))


class Pristine:
    """A process forked before the first history was run.  Every request is served by a fresh
    fork of it, so each request sees d42 exactly as it is after import."""

    def __init__(self):
        r1, w1 = os.pipe()
        r2, w2 = os.pipe()
        sys.stdout.flush()
        pid = os.fork()
        if pid == 0:
            try:
                os.close(w1)
                os.close(r2)
                self._serve(r1, w2)
            finally:
                os._exit(0)
        os.close(r1)
        os.close(w2)
        self.w, self.r, self.pid = w1, r2, pid
        self.calls = 0

    @staticmethod
    def _serve(rfd, wfd):
        import signal
        while True:
            try:
                req = _recv(rfd)
            except EOFError:
                return
            if req is None:
                return
            pid = os.fork()
            if pid == 0:
                code = 1
                try:
                    signal.alarm(300)
                    ops, checks = req
                    _send(wfd, ("ok", run_records(ops, checks)))
                    code = 0
                except BaseException as e:  # noqa
                    try:
                        _send(wfd, ("error", repr(e)))
                        code = 0
                    except BaseException:  # noqa
                        pass
                finally:
                    os._exit(code)
            _, st = os.waitpid(pid, 0)
            if st != 0:
                _send(wfd, ("error", f"pristine child died with status {st}"))

    def run(self, ops, checks=False):
        self.calls += 1
        _send(self.w, (ops, checks))
        tag, val = _recv(self.r)
        if tag != "ok":
            raise common.CheckBroken(f"pristine process failed: {val}")
        return val

    def close(self):
        try:
            _send(self.w, None)
            os.close(self.w)
            os.close(self.r)
            os.waitpid(self.pid, 0)
        except OSError:
            pass


# ------------------------------------------------------------------ abstraction to the Coq model
class Abstractor:
    """History -> operations of theories/Store.v, with the observations the model must predict:
    per model operation (pool size afterwards, schemas whose snapshot changed, schema returned)."""
    FUEL = 12

    def __init__(self):
        self.terms = []
        self.seen = []
        self.atoms = {}
        self.ncells = 0
        self.npool = 0
        self.cell = {}        # id(container) -> cell index
        self.keep = []        # keeps the containers alive so that ids stay unique
        self.idx = {}         # id(schema) -> pool index
        self.tracked = {}     # pool index -> {key atom: pool index | None} the model's n_keys cell holds, or None
        self.unmodelled = 0

    # --- atoms
    def atom(self, x):
        key = dump(x)
        if key not in self.atoms:
            self.atoms[key] = 100 + len(self.atoms)
        return self.atoms[key]

    def name(self, text):
        return self.atom(("name", text))

    # --- emit
    def emit(self, term, ret=None):
        self.terms.append(term)
        rs = f"(Some {ret}%nat)" if ret is not None else "None"
        self.seen.append(f"({self.npool}%nat, [], {rs})")

    # --- containers
    def item(self, x):
        if type(x) in (list, dict):
            return f"(ICon {self.register(x)}%nat)"
        if isinstance(x, Schema):
            if id(x) in self.idx:
                return f"(ISch {self.idx[id(x)]}%nat)"
            return f"(IAtom {self.atom(('foreign schema', repr(x)))})"
        return f"(IAtom {self.atom(x)})"

    def entries(self, c):
        if type(c) is list:
            return "[" + "; ".join(f"(0, {self.item(x)})" for x in c) + "]"
        out = []
        for k, v in c.items():
            kk = k.key if isinstance(k, optional) else k
            out.append(f"({self.atom(kk)}, {self.item(v)})")
        return "[" + "; ".join(out) + "]"

    def register(self, c, entries=None):
        if id(c) in self.cell:
            return self.cell[id(c)]
        e = self.entries(c) if entries is None else entries      # registers the children first
        self.cell[id(c)] = self.ncells
        self.keep.append(c)
        self.ncells += 1
        self.emit(f"(ONew {e})")
        return self.cell[id(c)]

    def arg(self, spec, env):
        kind, x = spec
        if kind == "c":
            return f"(ICon {self.register(env[x])}%nat)"
        if kind == "s":
            return f"(ISch {self.idx[id(env[x])]}%nat)"
        return f"(IAtom {self.atom(eval(x, NS))})"

    def new_schema(self, s, tracked=None):
        self.idx[id(s)] = self.npool
        self.keep.append(s)
        self.tracked[self.npool] = tracked
        self.npool += 1
        return self.npool - 1

    def derive(self, recv, cls, name, x, ok, result, cells, tracked=None):
        """cells = cells the model allocates when the operation succeeds"""
        r = f"(Some {recv}%nat)" if recv is not None else "None"
        if ok:
            self.ncells += cells + 1
            j = self.new_schema(result, tracked)
            self.emit(f"(ODerive {r} {cls} {name} {x} true)", j)
        else:
            self.emit(f"(ODerive {r} {cls} {name} {x} false)")

    # --- one executed record
    def record(self, op, status, r, env):
        k = op["op"]
        ok = status == "ok"
        sidx = lambda key: self.idx[id(env[op[key]])]
        if k == "leaf":
            if ok:
                self.ncells += 1
                j = self.new_schema(r)
                self.emit(f"(OLeaf {self.name(type(r).__name__)})", j)
        elif k in ("new_slist", "new_sdict", "new_value"):
            if ok:
                self.register(r)
        elif k == "mutate":
            t = env[op["c"]]
            try:
                t = _walk(t, op["path"])
            except Exception:  # noqa
                return
            if id(t) not in self.cell:
                self.register(t)
            else:
                e = self.entries(t)
                self.emit(f"(OMutate {self.cell[id(t)]}%nat (DReplace {e}))")
        elif k in ("decl_list", "decl_dict", "decl_any"):
            c = self.register(env[op["c"]])
            cls, nm, site = {"decl_list": ("cls_list", "n_elements", "SiteListCall"),
                             "decl_dict": ("cls_dict", "n_keys", "SiteDictCall"),
                             "decl_any": ("cls_any", "n_types", "SiteAnyCall")}[k]
            km = None
            if k == "decl_dict" and ok:
                km = {}
                for kk, v in env[op["c"]].items():
                    kk = kk.key if isinstance(kk, optional) else kk
                    km[self.atom(kk)] = self.idx.get(id(v)) if isinstance(v, Schema) else None
            self.derive(None, cls, nm, f"(XShallow {site} {c}%nat)", ok, r, 1, tracked=km)
        elif k == "decl_list_type":
            self.derive(None, "cls_list", "n_type", f"(XSch {sidx('s')}%nat)", ok, r, 0)
        elif k == "refine":
            s = sidx("s")
            self.derive(s, 0, self.name(op["call"].split("(")[0]), f"(XAtom {self.atom(op['call'])})", ok, r, 0,
                        tracked=self.tracked[s])
        elif k == "add":
            s, t = sidx("s"), sidx("t")
            # the model merges the receiver's n_keys cell (none: empty) with t's (none: empty)
            self.derive(s, 0, "n_keys", f"(XExtend SiteAdd (EFrom {t}%nat n_keys))", ok, r, 1,
                        tracked={**(self.tracked[s] or {}), **(self.tracked[t] or {})})
        elif k == "or":
            self.derive(None, "cls_any", "n_types", f"(XTuple [{sidx('s')}%nat; {sidx('t')}%nat])", ok, r, 1)
        elif k in ("subst", "from_native"):
            recv = sidx("s") if k == "subst" else None
            v = _item(op["v"], env)
            if type(v) in (list, dict):
                a = self.arg(op["v"], env)
                kind = "List" if type(v) is list else "Dict"
                site = ("SiteSubst" if k == "subst" else "SiteFromNative") + kind
                nm, cls = ("n_elements", "cls_list") if type(v) is list else ("n_keys", "cls_dict")
                x = f"(XDeep {site} {a} {self.FUEL}%nat)"
            elif isinstance(v, Schema):
                nm, cls, x = "n_value", "cls_scalar", f"(XSch {self.idx[id(v)]}%nat)"
            else:
                nm, cls, x = "n_value", "cls_scalar", f"(XAtom {self.atom(v)})"
            self.derive(recv, cls if recv is None else 0, nm, x, ok, r, 0)
        elif k == "make_required":
            s = sidx("s")
            a = self.arg(op["keys"], env) if op["keys"] is not None else f"(IAtom {self.atom(None)})"
            if ok and r is env[op["s"]]:
                # undeclared dict: the schema itself is returned (no new object)
                self.emit(f"(OObserve {self.name('make_required-identity')} [ISch {s}%nat; {a}])")
                return "same"
            self.derive(s, 0, "n_keys", f"(XExtend SiteMakeRequired (ESnap {a} {self.FUEL}%nat))", ok, r, 1,
                        tracked=dict(self.tracked[s] or {}))
        elif k in ("validate", "validate_or_fail", "eq", "errors"):
            tag = {"validate": "t_validate", "validate_or_fail": "t_validate", "eq": "t_eq", "errors": "t_validate"}[k]
            self.emit(f"(OObserve {tag} [ISch {sidx('s')}%nat; {self.arg(op['v'], env)}])")
            if k == "errors" and ok:
                self.register(r, "[" + "; ".join(f"(0, IAtom {self.atom(type(e).__name__)})" for e in r) + "]")
        elif k in ("repr", "represent"):
            self.emit(f"(OObserve t_represent [ISch {sidx('s')}%nat])")
        elif k == "iter":
            self.emit(f"(OObserve t_iter [ISch {sidx('s')}%nat])")
            if ok:
                self.register(r, "[" + "; ".join(f"(0, IAtom {self.atom(('iterated', repr(x)))})" for x in r) + "]")
        elif k == "contains":
            self.emit(f"(OObserve t_contains [ISch {sidx('s')}%nat; IAtom {self.atom(eval(op['key'], NS))}])")
        elif k == "getitem":
            s = sidx("s")
            key = eval(op["key"], NS)
            km = self.tracked[s]
            if ok and id(r) in self.idx and km is not None and km.get(self.atom(key)) is not None:
                # the model holds this key: it must return the very same pooled schema
                self.emit(f"(OGetItem {s}%nat n_keys {self.atom(key)})", self.idx[id(r)])
            else:
                self.emit(f"(OObserve t_getitem [ISch {s}%nat; IAtom {self.atom(key)}])")
        elif k == "fake":
            self.emit(f"(OFake {sidx('s')}%nat n_elements {self.FUEL}%nat)")
            c = self.ncells
            self.ncells += 1
            if ok and type(r) in (list, dict):
                self.cell[id(r)] = c
                self.keep.append(r)
        else:
            self.unmodelled += 1

    def case(self):
        return "(" + "[" + ";\n ".join(self.terms) + "],\n [" + "; ".join(self.seen) + "])"


# ------------------------------------------------------------------ history generator
KEY_SRC = ["'a'", "'b'", "'c'", "'id'", "1", "0", "None", "'é'", "''"]
SCALAR_SRC = ["None", "True", "False", "0", "1", "5", "-1", "1.0", "0.0", "-0.0", "1.5", "0.5", "'a'", "'ab'", "''",
              "b'ab'", "...", "2 ** 70", "float('nan')", "UUID('886313e1-3b8a-4372-9b90-0c9aee199e5d')",
              "datetime.datetime(2020, 1, 2, 3, 4, 5)", "datetime.date(2020, 1, 2)"]
REFINE = {
    IntSchema: ["(5)", "(True)", ".min(1)", ".max(9)", ".min(0).max(3)", "('x')", ".min('x')"],
    FloatSchema: ["(1.5)", "(1.0)", ".min(0.5)", ".max(9.5)", ".precision(2)", "(1)"],
    StrSchema: ["('ab')", ".len(2)", ".len(1, 3)", ".len(1, ...)", ".alphabet('ab')", ".contains('a')",
                ".regex('a+')", ".regex('(')", ".len('x')"],
    BoolSchema: ["(True)", "(False)", "(1)"],
    ListSchema: [".len(2)", ".len(1, ...)", ".len(..., 3)", ".len(0, 5)", ".len('x')", "([])", "([...])"],
    DictSchema: ["({})", "({...: ...})", "(5)"],
    AnySchema: ["(schema.int)", "(schema.int, schema.str)", "(5)"],
    NoneSchema: [".len(1)"],
}
GENERIC_REFINE = [".no_such_method(1)", "(object())"]


class HistoryGen:
    def __init__(self, rng, runner, hid, depth):
        self.r = rng
        self.rn = runner
        self.hid = hid
        self.depth = depth
        self.n = 0
        self.queue = []
        self.conts = []          # names of caller-owned containers (every one ever passed anywhere)
        self.passed = []         # names of containers that were handed to d42
        self.max_pool = 40

    def fresh(self, prefix):
        self.n += 1
        return f"{prefix}{self.hid}_{self.n}"

    # --- picking
    def pick_schema(self, *classes):
        names = [n for n in self.rn.pool if not classes or isinstance(self.rn.env[n], classes)]
        if not names:
            return None
        # recent schemas a little more often
        if self.r.random() < 0.4:
            return self.r.choice(names[-6:])
        return self.r.choice(names)

    def pick_cont(self, pred=None, prefer_passed=False):
        src = self.passed if (prefer_passed and self.passed and self.r.random() < 0.8) else self.conts
        names = [n for n in src if n in self.rn.env and (pred is None or pred(self.rn.env[n]))]
        return self.r.choice(names) if names else None

    def value_spec(self, v):
        """a value as an argument: containers become caller-owned containers first"""
        src = gen.vsrc(v)
        if "<unreplayable" in src:
            src = "None"
            v = None
        if type(v) in (list, dict):
            name = self.fresh("c")
            self.queue.append({"op": "new_value", "src": src, "out": name})
            self.conts.append(name)
            return ("c", name)
        return ("lit", src)

    def some_value(self, s=None):
        r = self.r
        c = r.random()
        if s is not None and c < 0.45:
            try:
                return self.value_spec(gen.conform(r, self.rn.env[s]))
            except Exception:  # noqa
                pass
        if s is not None and c < 0.6:
            try:
                v = gen.conform(r, self.rn.env[s])
                # (values with a `...` KEY whose member is not `...` are a shape the store model has no rule for; the
                # marker-argument probe and C08 cover them)
                p = [x for x in gen.perturbations(r, v, limit=6) if not _has_marker_key(x)]
                if p:
                    return self.value_spec(r.choice(p))
            except Exception:  # noqa
                pass
        if c < 0.8:
            name = self.pick_cont(lambda x: True, prefer_passed=True)
            if name:
                return ("c", name)
        if c < 0.9:
            return ("lit", r.choice(SCALAR_SRC))
        return self.value_spec(gen.gen_plain(r, self.depth))

    # --- one more operation (may enqueue preparatory records)
    def next_ops(self):
        self.queue = []
        op = None
        for _ in range(20):
            op = self.make()
            if op is not None:
                break
        if op is None:
            op = {"op": "leaf", "src": "schema.int", "out": self.fresh("s")}
        self.queue.append(op)
        for q in self.queue:
            for k in ("c",):
                if k in q and q["op"] != "mutate" and q[k] not in self.passed:
                    self.passed.append(q[k])
            for k in ("v", "keys"):
                if q.get(k) and q[k][0] == "c" and q[k][1] not in self.passed:
                    self.passed.append(q[k][1])
        return self.queue

    def make(self):
        r = self.r
        full = len(self.rn.pool) >= self.max_pool
        table = [("leaf", 8), ("new_slist", 5), ("new_sdict", 5), ("new_value", 5), ("decl_list", 7),
                 ("decl_dict", 7), ("decl_any", 3), ("decl_list_type", 2), ("refine", 8), ("add", 4), ("or", 3),
                 ("subst", 9), ("from_native", 6), ("make_required", 6), ("validate", 5), ("errors", 3),
                 ("validate_or_fail", 2), ("repr", 2), ("represent", 1), ("iter", 2), ("contains", 2),
                 ("getitem", 4), ("eq", 2), ("fake", 5), ("mutate", 30), ("again", 8)]
        if full:
            table = [(k, w if k in ("mutate", "validate", "errors", "repr", "iter", "contains", "getitem", "eq",
                                    "fake", "validate_or_fail", "represent", "new_value", "again") else max(1, w // 6))
                     for k, w in table]
        k = r.choices([t[0] for t in table], [t[1] for t in table])[0]
        return getattr(self, "mk_" + k)()

    def mk_again(self):
        """repeat an earlier operation on the same objects (mutations may have happened in between)"""
        cands = [op for op, _, _ in self.rn.log if op["op"] not in ("leaf",)]
        if not cands:
            return None
        withc = [op for op in cands if any(type(self.rn.env.get(u)) in (list, dict) for u in uses_of(op))]
        op = dict(self.r.choice(withc if withc and self.r.random() < 0.8 else cands))
        if op.get("out"):
            op["out"] = self.fresh(op["out"][0])
            if op["out"][0] == "c":
                self.conts.append(op["out"])
        return op

    def mk_leaf(self):
        src = gen.gen_schema_src(r := self.r, r.choice([0, 1, 1, self.depth]))
        if r.random() < 0.12:
            # patterns with inline flags / dots / negated classes / failing constructs: what one generation
            # does (or fails at) must not change what the shared generator does for the next schema
            src = r.choice(["schema.str.regex('(?s)a.b')", "schema.str.regex('(?i)ab+')", "schema.str.regex('^<.{6}>$')",
                            "schema.str.regex('[^x]{3}')", "schema.str.regex('(?s).{4}')", "schema.str.regex('a(\\\\s)+')",
                            "schema.list(schema.str.regex('(?s)x.')).len(2)", "schema.str.regex('\\\\w{3}-\\\\d{2}')"])
        return {"op": "leaf", "src": src, "out": self.fresh("s")}

    def _schema_items(self, lo, hi):
        r = self.r
        items = []
        for _ in range(r.randint(lo, hi)):
            s = self.pick_schema()
            if s is None or r.random() < 0.03:
                items.append(("lit", r.choice(["5", "'x'", "None", "[]", "schema"])))   # -> DeclarationError
            else:
                items.append(("s", s))
        return items

    def mk_new_slist(self):
        r = self.r
        items = self._schema_items(0, 4)
        c = r.random()
        if c < 0.15:
            items = items + [("lit", "...")]
        elif c < 0.3:
            items = [("lit", "...")] + items
        elif c < 0.36 and items:
            items = [("lit", "...")] + items + [("lit", "...")]
        elif c < 0.4 and len(items) > 1:
            items.insert(1, ("lit", "..."))      # `...` in the middle -> DeclarationError
        name = self.fresh("c")
        self.conts.append(name)
        return {"op": "new_slist", "items": items, "out": name}

    def mk_new_sdict(self):
        r = self.r
        keys = r.sample(KEY_SRC, r.randint(0, 4))
        items = []
        for ks, it in zip(keys, self._schema_items(len(keys), len(keys))):
            if r.random() < 0.3:
                ks = f"optional({ks})"
            items.append((ks, it))
        if r.random() < 0.25:
            items.insert(r.randint(0, len(items)), ("...", ("lit", "...")))
        name = self.fresh("c")
        self.conts.append(name)
        return {"op": "new_sdict", "items": items, "out": name}

    def mk_new_value(self):
        r = self.r
        v = gen.gen_plain(r, self.depth)
        if type(v) not in (list, dict):
            v = r.choice([[v], {"a": v}, [v, [v]], {"k": [v], "n": {"m": v}}, ["a", "b"], ["id"]])
        if type(v) is dict and r.random() < 0.3:
            v = dict(v)
            v[...] = ...                   # the "and anything else" marker of a partial value, owned by the caller
        elif type(v) is list and v and r.random() < 0.15:
            v = r.choice([[...] + v, v + [...]])
        src = gen.vsrc(v)
        if "<unreplayable" in src:
            return None
        name = self.fresh("c")
        self.conts.append(name)
        return {"op": "new_value", "src": src, "out": name}

    def _decl(self, kind, pred):
        c = self.pick_cont(pred) if self.r.random() < 0.9 else self.pick_cont()
        if c is None:
            return None
        return {"op": kind, "c": c, "out": self.fresh("s")}

    def mk_decl_list(self):
        return self._decl("decl_list", lambda x: type(x) is list and all(isinstance(y, Schema) or y is ... for y in x))

    def mk_decl_dict(self):
        return self._decl("decl_dict", lambda x: type(x) is dict and all(isinstance(y, Schema) or y is ... for y in x.values()))

    def mk_decl_any(self):
        return self._decl("decl_any", lambda x: type(x) is list and x and all(isinstance(y, Schema) for y in x))

    def mk_decl_list_type(self):
        s = self.pick_schema()
        return s and {"op": "decl_list_type", "s": s, "out": self.fresh("s")}

    def mk_refine(self):
        s = self.pick_schema()
        if s is None:
            return None
        calls = list(GENERIC_REFINE)
        for cls, cs in REFINE.items():
            if type(self.rn.env[s]) is cls:
                calls = cs * 3 + calls
        return {"op": "refine", "s": s, "call": self.r.choice(calls), "out": self.fresh("s")}

    def mk_add(self):
        s = self.pick_schema(DictSchema) if self.r.random() < 0.9 else self.pick_schema()
        t = self.pick_schema(DictSchema) if self.r.random() < 0.9 else self.pick_schema()
        return s and t and {"op": "add", "s": s, "t": t, "out": self.fresh("s")}

    def mk_or(self):
        s, t = self.pick_schema(), self.pick_schema()
        return s and t and {"op": "or", "s": s, "t": t, "out": self.fresh("s")}

    def mk_subst(self):
        s = self.pick_schema()
        if s is None:
            return None
        return {"op": "subst", "s": s, "v": self.some_value(s), "out": self.fresh("s")}

    def mk_from_native(self):
        r = self.r
        if r.random() < 0.6:
            c = self.pick_cont(lambda x: not any(isinstance(y, Schema) for y in (x.values() if type(x) is dict else x)),
                               prefer_passed=True)
            v = ("c", c) if c else ("lit", r.choice(SCALAR_SRC))
        elif r.random() < 0.5:
            v = ("lit", r.choice(SCALAR_SRC))
        else:
            v = self.value_spec(gen.gen_plain(r, self.depth))
        return {"op": "from_native", "v": v, "out": self.fresh("s")}

    def mk_make_required(self):
        r = self.r
        s = self.pick_schema(DictSchema) if r.random() < 0.9 else self.pick_schema()
        if s is None:
            return None
        c = r.random()
        keys = None
        if c < 0.7:
            sch = self.rn.env[s]
            allk = [k for k in sch if k is not ...] if isinstance(sch, DictSchema) else []
            ks = [k for k in allk if r.random() < 0.6]
            # a strict, non-empty subset that contains an optional key whenever the schema has one
            # (the case in which the result differs from the source in some entries only)
            opt = [k for k in allk if sch.props.keys[k][1]] if isinstance(sch, DictSchema) and sch.props.keys is not Nil else []
            if opt and len(allk) > 1 and r.random() < 0.6:
                o = r.choice(opt)
                rest = [k for k in allk if k != o]
                ks = [o] + [k for k in rest[:-1] if r.random() < 0.5]
            if r.random() < 0.1:
                ks.append("nonexistent")
            keys = self.value_spec(ks)
        elif c < 0.8:
            nm = self.pick_cont(lambda x: type(x) is list)
            keys = ("c", nm) if nm else None
        elif c < 0.85:
            keys = ("lit", r.choice(["('a',)", "{'a'}", "'a'", "5"]))
        return {"op": "make_required", "s": s, "keys": keys, "out": self.fresh("s")}

    def _sv(self, kind, out=None):
        s = self.pick_schema()
        if s is None:
            return None
        op = {"op": kind, "s": s, "v": self.some_value(s)}
        if out:
            op["out"] = self.fresh(out)
        return op

    def mk_validate(self):
        return self._sv("validate")

    def mk_validate_or_fail(self):
        return self._sv("validate_or_fail")

    def mk_errors(self):
        op = self._sv("errors", "c")
        if op:
            self.conts.append(op["out"])
        return op

    def mk_eq(self):
        op = self._sv("eq")
        if op and self.r.random() < 0.4:
            t = self.pick_schema()
            op["v"] = ("s", t)
        return op

    def mk_repr(self):
        s = self.pick_schema()
        return s and {"op": "repr", "s": s}

    def mk_represent(self):
        s = self.pick_schema()
        return s and {"op": "represent", "s": s}

    def mk_iter(self):
        s = self.pick_schema(DictSchema, AnySchema) if self.r.random() < 0.9 else self.pick_schema()
        if s is None:
            return None
        name = self.fresh("c")
        self.conts.append(name)
        return {"op": "iter", "s": s, "out": name}

    def _key_of(self, s):
        sch = self.rn.env[s]
        ks = [k for k in sch if k is not ...] if isinstance(sch, DictSchema) else []
        if ks and self.r.random() < 0.8:
            return gen.vsrc(self.r.choice(ks))
        return self.r.choice(KEY_SRC + ["..."])

    def mk_contains(self):
        s = self.pick_schema(DictSchema) if self.r.random() < 0.9 else self.pick_schema()
        return s and {"op": "contains", "s": s, "key": self._key_of(s)}

    def mk_getitem(self):
        s = self.pick_schema(DictSchema) if self.r.random() < 0.9 else self.pick_schema()
        return s and {"op": "getitem", "s": s, "key": self._key_of(s)}

    def mk_fake(self):
        s = self.pick_schema()
        if s is None:
            return None
        name = self.fresh("c")
        self.conts.append(name)
        return {"op": "fake", "s": s, "out": name}

    def mk_mutate(self):
        r = self.r
        c = self.pick_cont(prefer_passed=True)
        if c is None:
            return None
        root = self.rn.env[c]
        # walk to a nested container with probability
        path, t = [], root
        while r.random() < 0.45:
            kids = [(gen.vsrc(k), v) for k, v in (enumerate(t) if type(t) is list else t.items())
                    if type(v) in (list, dict) and "<unreplayable" not in gen.vsrc(k)]
            if not kids:
                break
            ks, t = r.choice(kids)
            path.append(ks)
        holds_schemas = any(isinstance(y, Schema) or y is ... for y in (t.values() if type(t) is dict else t))
        if holds_schemas or (not t and r.random() < 0.5 and self.rn.pool):
            s = self.pick_schema()
            arg = ("s", s) if s and r.random() < 0.85 else ("lit", r.choice(["...", "5", "None"]))
        else:
            arg = ("lit", r.choice(SCALAR_SRC + ["[1]", "{'z': [2]}"]))
        op = {"op": "mutate", "c": c, "path": path, "arg": arg}
        if type(t) is list:
            how = r.choice(["append", "append", "insert0", "pop", "set", "del", "clear", "reverse", "sort", "extend", "nest"])
            op["how"] = how
            if how in ("set", "del"):
                op["key"] = str(r.randrange(len(t))) if t else "0"
        else:
            how = r.choice(["set", "set", "setnew", "del", "clear", "popitem", "reverse", "nestd"])
            ks = [gen.vsrc(k) for k in t if "<unreplayable" not in gen.vsrc(k)]
            if how == "setnew" or not ks:
                op["key"] = r.choice(KEY_SRC + ["'new'", "optional('a')" if holds_schemas else "'q'"])
                how = "set" if how in ("setnew", "set", "del", "popitem") else how
                if how == "nestd":
                    pass
            else:
                op["key"] = r.choice(ks)
            op["how"] = how
            if how == "nestd" and "key" not in op:
                op["key"] = "'n'"
        return op


# ------------------------------------------------------------------ slices, shrinking
def slice_for(records, i):
    """the operations record i depends on: definitions of what it reads (transitively) and every
    caller mutation of those containers that happened before it, in the original order"""
    need = set(uses_of(records[i]))
    keep = [i]
    for j in range(i - 1, -1, -1):
        op = records[j]
        if (op.get("out") in need) or (op["op"] == "mutate" and op["c"] in need):
            keep.append(j)
            need.update(uses_of(op))
    return sorted(keep)


def prune(ops):
    """drop records that read a variable no kept record defines"""
    defined, out = set(), []
    for op in ops:
        if all(u in defined for u in uses_of(op)):
            out.append(op)
            if op.get("out"):
                defined.add(op["out"])
    return out


def ddmin(items, keep_pred, deadline, fixed=()):
    """greedy chunked reduction of [items] (indices into a sequence) while keep_pred(list) holds;
    [fixed] indices are never dropped"""
    cur = list(items)
    chunk = max(1, len(cur) // 2)
    while chunk >= 1 and time.time() < deadline:
        i = 0
        progress = False
        while i < len(cur) and time.time() < deadline:
            cand = [x for k, x in enumerate(cur) if not (i <= k < i + chunk) or x in fixed]
            if len(cand) < len(cur) and keep_pred(cand):
                cur = cand
                progress = True
            else:
                i += chunk
        if chunk == 1 and not progress:
            break
        chunk = chunk // 2 if chunk > 1 else (1 if progress else 0)
    return cur


def run_pre_then(pristine, pre, ops, checks):
    """pre (unchecked, other variables) then ops in a pristine process"""
    if not pre:
        return pristine.run(ops, checks)
    # the unchecked prefix is executed by a runner of its own inside the same pristine process
    return pristine.run([{"op": "__pre__", "ops": pre}] + ops, checks)


def shrink_failure(pristine, prev, records, kind, budget):
    """K1-K3: a check failed while running [records] (the last record is the failing step).
    -> (pre, ops, reproduced)"""
    deadline = time.time() + budget

    def fails(pre, ops):
        f, _ = run_pre_then(pristine, pre, ops, True)
        return f is not None and f[0] == kind

    pre = []
    if not fails([], records):
        pre = list(prev)
        if not fails(pre, records):
            return prev, records, False
        idx = ddmin(list(range(len(pre))), lambda c: fails([pre[k] for k in c], records), deadline)
        pre = [pre[k] for k in idx]
    idx = ddmin(list(range(len(records))), lambda c: fails(pre, prune([records[k] for k in c])), deadline)
    ops = prune([records[k] for k in idx])
    f, _ = run_pre_then(pristine, pre, ops, True)
    return pre, ops, (f if f is not None and f[0] == kind else True)


def shrink_dependence(pristine, prev, records, i, alone_fp, budget):
    """K4/K5: record i gave another outcome after (prev + records[:i]) than on its own slice."""
    deadline = time.time() + budget
    whole = list(prev) + records[:i + 1]
    base = len(prev)
    fixed = set(base + k for k in slice_for(records, i))
    target = len(fixed) - 1   # position of record i inside a candidate is always the last

    def differs(cand):
        ops = [whole[k] for k in cand]
        _, fps = pristine.run(ops, False)
        return fps[-1] != alone_fp

    full = list(range(len(whole)))
    if not differs(full):
        return None
    idx = ddmin(full, differs, deadline, fixed=fixed)
    return [whole[k] for k in idx]


# the pristine runner understands one pseudo record: an unchecked prefix
_orig_run_records = run_records


def run_records(ops, checks, full_all=True):  # noqa: F811
    if ops and ops[0].get("op") == "__pre__":
        _orig_run_records(ops[0]["ops"], False)
        ops = ops[1:]
    if ops and ops[-1].get("op") == "__final_reprs__":
        # a second observation schedule: nothing is printed while the history runs, then every
        # pooled schema is printed once, the LAST one first
        rn = Runner(checks=False, full_all=full_all)
        QUIET[0] = True
        try:
            for op in ops[:-1]:
                if op.get("op") in ("repr", "represent"):
                    continue                      # nothing is printed before the end
                rn.step(op)
        except Failure as f:
            return (f.kind, f.step, f.detail), rn.fps
        finally:
            QUIET[0] = False
        finals = {}
        for name in reversed(rn.pool):
            try:
                finals[name] = repr(rn.env[name])
            except Exception as e:  # noqa
                finals[name] = "!" + type(e).__name__
        return None, rn.fps + [finals]
    return _orig_run_records(ops, checks, full_all)


# ------------------------------------------------------------------ the check
F16_HISTORY = [
    {"op": "leaf", "src": "schema.int", "out": "sX_1"},
    {"op": "leaf", "src": "schema.str", "out": "sX_2"},
    {"op": "new_slist", "items": [("s", "sX_1")], "out": "cX_3"},
    {"op": "decl_list", "c": "cX_3", "out": "sX_4"},
    {"op": "mutate", "c": "cX_3", "path": [], "how": "append", "arg": ("s", "sX_2")},
]


def _describe(f):
    kind, step, detail = f
    return f"{kind} at step {step}: " + ", ".join(f"{k}={v!r}"[:300] for k, v in detail.items())


def probe_dict_subclasses(ctx):
    """Values that are dict subclasses whose __missing__ invents (defaultdict: inserts) members:
    no operation may mutate them, and the outcome must be the one for the equal plain dict."""
    import collections
    r = ctx.rng
    n = 0
    ops = {
        "validate": lambda s, v: [type(e).__name__ for e in validate(s, v).get_errors()],
        "substitute": lambda s, v: repr(s % v),
        "eq": lambda s, v: s == v,
    }
    wrap = [("collections.defaultdict(int, %s)", lambda d: collections.defaultdict(int, d)),
            ("collections.defaultdict(list, %s)", lambda d: collections.defaultdict(list, d)),
            ("collections.Counter(%s)", lambda d: collections.Counter(d))]
    for _ in range(ctx.scale(120, 1500)):
        ssrc, s = gen.gen_schema(r, r.randint(1, 3))
        try:
            v = gen.conform(r, s)
        except Exception:  # noqa
            continue
        cands = [v] + [p for p in gen.perturbations(r, v, limit=8)]
        for v0 in cands:
            pos = [p for p in gen.positions(v0) if type(_at(v0, p)) is dict]
            if not pos:
                continue
            p = r.choice(pos)
            wsrc, w = r.choice(wrap)
            inner = _at(v0, p)
            try:
                wrapped = gen.replace_at(copy.deepcopy(v0), p, w(copy.deepcopy(inner)))
            except Exception:  # noqa
                continue
            plain = copy.deepcopy(v0)
            for name, f in ops.items():
                before = _plain_dump(wrapped)
                try:
                    got = ("ok", f(s, wrapped))
                except Exception as e:  # noqa
                    got = ("raise", type(e).__name__)
                after = _plain_dump(wrapped)
                try:
                    want = ("ok", f(s, copy.deepcopy(plain)))
                except Exception as e:  # noqa
                    want = ("raise", type(e).__name__)
                n += 1
                rp = {"kind": "input", "schema": ssrc, "value": gen.vsrc(v0), "wrapped_at": list(p), "wrapper": wsrc,
                      "operation": name}
                if before != after:
                    rp.update(observed=f"value after {name}: {after[:300]}", expected=f"unchanged: {before[:300]}")
                    ctx.violation(f"{name} mutated a value passed in (a dict subclass with __missing__)", rp)
                    return n
                if got != want:
                    rp.update(observed=str(got)[:300], expected=f"as for the equal plain dict: {str(want)[:300]}")
                    ctx.violation(f"{name} on a dict subclass with __missing__ differs from the equal plain dict", rp)
                    return n
    return n


def probe_generation_independence(ctx):
    """fake(s) under a fixed tape is a function of s and the tape: generating from OTHER schemas in
    between - patterns with inline flags, with constructs the generator refuses, custom alphabets of other
    generator objects - changes nothing (the module-level generator keeps no state between calls)."""
    r = ctx.rng
    watched = ["schema.str.regex('^<.{12}>$')", "schema.str.regex('[^x]{8}')", "schema.str.regex('a.b.c')", "schema.str.regex('\\w{6}\\d{3}')",
               "schema.list(schema.str.regex('.+')).len(3)", "schema.str.len(8)", "schema.dict({'a': schema.str.regex('[^0-9]{5}'), 'b': schema.int})",
               "schema.list(schema.int)", "schema.str.alphabet('ab').len(5)"]
    disturb = ["schema.str.regex('(?s)a.b')", "schema.str.regex('(?s).{4}')", "schema.str.regex('(?i)[^a]b')", "schema.str.regex('(?m)^a$')",
               "schema.str.regex('(?x) a b ')", "schema.str.regex('a(\\s)+')", "schema.list(schema.str.regex('(?s)x.')).len(2)",
               "schema.str.regex('(?a)\\w+')", "schema.list(schema.str.regex('\\S')).len(2)", "schema.str.regex('(?s)(?i).')"]
    big_tape = [(i * 2654435761 + 12345) % (2 ** 32) for i in range(600)]   # large, varied entries: every index of every alphabet

    def run_all():
        out = []
        for src in watched:
            s = gen.build(src)
            try:
                with tapemod.scripted(tapemod.Tape(big_tape)):
                    out.append(dump_generated(fake(s)))
            except Exception as e:  # noqa
                out.append("!" + type(e).__name__)
        return out
    base = run_all()
    n = 0
    for _ in range(ctx.scale(3, 10)):
        for dsrc in r.sample(disturb, len(disturb)):
            try:
                fake(gen.build(dsrc))
            except Exception:  # noqa
                pass
            n += 1
            now = run_all()
            if now != base:
                i = next(j for j in range(len(base)) if now[j] != base[j])
                ctx.violation("what fake() returns for a schema under a fixed tape depends on what was generated before: " + watched[i],
                              {"kind": "history", "schema": watched[i], "generated_in_between": dsrc,
                               "observed": repr(now[i])[:300], "expected": repr(base[i])[:300]})
                return n
    return n


def probe_marker_arguments(ctx):
    """Values that carry `...` markers (partial values: `...: ...` in dicts, `...` first/last in lists), at any
    depth, handed to %, validate, == and from_native: the caller's containers are exactly as they were, whether
    the operation succeeds or raises."""
    from d42.utils import from_native
    r = ctx.rng
    pairs = [("schema.dict", {"id": 1, ...: ...}), ("schema.dict({...: ...})", {"id": 1, ...: ...}), ("schema.dict", {...: ...}),
             ("schema.list(schema.dict)", [{"a": 1, ...: ...}, {...: ...}]), ("schema.dict({'m': schema.dict})", {"m": {"x": 1, ...: ...}}),
             ("schema.dict({'a': schema.int, ...: ...})", {"a": 1, ...: ...}), ("schema.any(schema.dict, schema.none)", {"k": "v", ...: ...}),
             ("schema.list", [1, ...]), ("schema.list(schema.int)", [..., 1, 2]), ("schema.list([schema.int, ...])", [1, ...]),
             ("schema.dict({'l': schema.list})", {"l": [..., "x"]}), ("schema.any", {"a": [1, ...], ...: ...})]
    for _ in range(ctx.scale(40, 400)):
        ssrc, s = gen.gen_schema(r, r.randint(1, 3))
        try:
            v = gen.conform(r, s)
        except Exception:  # noqa
            continue
        pos = [p for p in gen.positions(v) if type(_at(v, p)) in (dict, list)]
        if not pos:
            continue
        w = copy.deepcopy(v)
        for p in r.sample(pos, 1):
            c = _at(w, p)
            if type(c) is dict:
                c[...] = ...
            elif r.random() < 0.5:
                c.append(...)
            else:
                c.insert(0, ...)
        pairs.append((ssrc, w))
    ops = {"%": lambda s, v: s % v, "validate": lambda s, v: validate(s, v), "==": lambda s, v: s == v,
           "from_native": lambda s, v: from_native(v)}
    n = 0
    for ssrc, v in pairs:
        s = gen.build(ssrc)
        for name, f in ops.items():
            before = _plain_dump(v)
            try:
                f(s, v)
                out = "returned"
            except Exception as e:  # noqa
                out = "raised " + type(e).__name__
            n += 1
            if _plain_dump(v) != before:
                ctx.violation(f"`{name}` changed a value passed in (a partial value with `...` markers)",
                              {"kind": "input", "schema": ssrc, "value_before": before[:300], "value_after": _plain_dump(v)[:300],
                               "operation": name, "outcome": out, "expected": "the caller's value unchanged"})
                return n
    return n


def probe_collection_arguments(ctx):
    """Collections of keys / members / characters handed to make_required, schema.dict(...).keys-style
    operations and declarations - as a set, frozenset, list, tuple or dict view: "mutates no value passed in"
    holds for them as for dict and list values, whether the call succeeds or raises."""
    from d42.utils import make_required
    r = ctx.rng
    n = 0
    pool = ["id", "name", "a", "b", ("t", 1), 3, "zz", b"k"]
    for _ in range(ctx.scale(150, 1500)):
        declared = r.sample(pool, r.randint(0, 5))
        entries = {}
        for k in declared:
            entries[k if r.random() < 0.6 else gen.build("optional")(k)] = gen.gen_schema(r, 1)[1]
        if r.random() < 0.3:
            entries[...] = ...
        try:
            d = gen.build("schema.dict")(entries) if (entries or r.random() < 0.7) else gen.build("schema.dict")
        except Exception:  # noqa
            continue
        asked = r.sample(pool, r.randint(0, 4)) if r.random() < 0.4 else r.sample(declared, r.randint(0, len(declared)))
        for mk in (set, list, tuple, frozenset, lambda ks: dict.fromkeys(ks, 0), lambda ks: {k: None for k in ks}.keys()):
            arg = mk(asked)
            before = (type(arg).__name__, sorted(map(repr, arg)), len(arg))
            sbefore = (dump(d), repr(d))
            try:
                make_required(d, arg)
                out = "returned"
            except Exception as e:  # noqa
                out = "raised " + type(e).__name__
            n += 1
            after = (type(arg).__name__, sorted(map(repr, arg)), len(arg))
            if after != before:
                ctx.violation("make_required changed the collection of keys passed in",
                              {"kind": "input", "schema": repr(d)[:300], "keys_before": str(before)[:300],
                               "keys_after": str(after)[:300], "outcome": out, "expected": "the caller's collection unchanged"})
                return n
            if (dump(d), repr(d)) != sbefore:
                ctx.violation("make_required changed the schema passed in",
                              {"kind": "input", "schema_before": sbefore[1][:300], "schema_after": repr(d)[:300], "outcome": out})
                return n
    # members handed to declarations as other collections
    decls = [("schema.any(*members)", lambda m: gen.build("schema.any")(*m)),
             ("schema.list(members)", lambda m: gen.build("schema.list")(m)),
             ("schema.str.alphabet(chars)", None)]
    for _ in range(ctx.scale(60, 600)):
        members = [gen.gen_schema(r, 1)[1] for _ in range(r.randint(0, 4))]
        before = [id(x) for x in members]
        for name, f in decls[:2]:
            try:
                f(members)
            except Exception:  # noqa
                pass
            n += 1
            if [id(x) for x in members] != before:
                ctx.violation(f"{name} changed the list of members passed in",
                              {"kind": "input", "members": str([repr(m) for m in members])[:300]})
                return n
    return n


def _interpreter_settings():
    import decimal
    import gc
    import locale
    import logging
    import os
    import signal
    import threading
    import warnings
    out = {
        "int_max_str_digits": sys.get_int_max_str_digits() if hasattr(sys, "get_int_max_str_digits") else None,
        "recursion_limit": sys.getrecursionlimit(),
        "switch_interval": sys.getswitchinterval(),
        "decimal_context": repr(decimal.getcontext()),
        "cwd": os.getcwd(),
        "environ": sorted(os.environ.items()),
        "umask": None,
        "locale": locale.setlocale(locale.LC_ALL),
        "warnings_filters": [repr(f) for f in warnings.filters],
        "sys_path": list(sys.path),
        "trace": repr(sys.gettrace()), "profile": repr(sys.getprofile()),
        "excepthook": sys.excepthook is sys.__excepthook__, "displayhook": sys.displayhook is sys.__displayhook__,
        "stdio": (id(sys.stdout), id(sys.stderr), id(sys.stdin)),
        "gc": (gc.isenabled(), gc.get_threshold()),
        "logging": (logging.root.level, len(logging.root.handlers), logging.root.manager.disable),
        "threads": sorted(t.name for t in threading.enumerate()),
        "sigint": repr(signal.getsignal(signal.SIGINT)),
        "float_repr_style": sys.float_repr_style,
        "dont_write_bytecode": sys.dont_write_bytecode,
        "default_encoding": sys.getdefaultencoding(),
        "builtins": (repr is __builtins__["repr"] if isinstance(__builtins__, dict) else repr is __builtins__.repr),
    }
    return out


def probe_interpreter_settings(ctx):
    """"Repeating an operation on equal inputs gives equal results regardless of what was executed in between":
    what an operation returns or raises also depends on interpreter-wide settings (the int -> str digit limit,
    the recursion limit, the decimal context, the locale, warnings filters, the working directory, the
    environment ...), so no d42 operation may leave one of them changed - successful or failing, on small or on
    extreme arguments.  Observed around a battery of operations on unrelated schemas."""
    from d42 import fake, represent, substitute, validate_or_fail
    from d42.utils import from_native, make_required
    from d42.validation import format_result
    sc = gen.build
    huge, deep = 7 ** 6000, []
    for _ in range(3000):
        deep = [deep]
    deepd = {}
    for _ in range(1500):
        deepd = {"k": deepd}
    ops = [
        ("validate_or_fail(schema.int.max(10), 7**6000)", lambda: validate_or_fail(sc("schema.int.max(10)"), huge)),
        ("format_result(validate(schema.list(schema.int.min(0)), [1, -7**6000]))",
         lambda: format_result(validate(sc("schema.list(schema.int.min(0))"), [1, -huge]))),
        ("format_result(validate(schema.dict({'a': schema.str}), {'a': 7**6000}))",
         lambda: format_result(validate(sc("schema.dict({'a': schema.str})"), {"a": huge}))),
        ("substitute(schema.dict({'a': schema.int(1)}), {'a': 7**6000})",
         lambda: substitute(sc("schema.dict({'a': schema.int(1)})"), {"a": huge})),
        ("schema.int(7**6000)", lambda: sc("schema.int")(huge)),
        ("repr(schema.int(7**6000))", lambda: repr(sc("schema.int")(huge))),
        ("represent(schema.int.min(7**6000))", lambda: represent(sc("schema.int").min(huge))),
        ("schema.int(7**6000)(1)", lambda: sc("schema.int")(huge)(1)),
        ("schema.int(7**6000).min(7**12000)", lambda: sc("schema.int")(huge).min(huge * huge)),
        ("schema.int.min(3).max(1)", lambda: sc("schema.int").min(3).max(1)),
        ("schema.float(float(7**6000))", lambda: sc("schema.float")(float(huge))),
        ("schema.float.min(7**6000)", lambda: sc("schema.float").min(huge)),
        ("validate(schema.float, 7**6000)", lambda: validate(sc("schema.float"), huge).has_errors()),
        ("validate(schema.list, <3000 nested lists>)", lambda: format_result(validate(sc("schema.list(schema.int)"), deep))),
        ("validate_or_fail(schema.int, <3000 nested lists>)", lambda: validate_or_fail(sc("schema.int"), deep)),
        ("from_native(<3000 nested lists>)", lambda: from_native(deep)),
        ("from_native(<1500 nested dicts>)", lambda: repr(from_native(deepd))),
        ("schema.any % <1500 nested dicts>", lambda: sc("schema.any") % deepd),
        ("schema.str.regex('(' * 3000 + ')' * 3000)", lambda: sc("schema.str").regex("(" * 3000 + ")" * 3000)),
        ("schema.str.regex('[')", lambda: sc("schema.str").regex("[")),
        ("fake(schema.str.regex('(a|b){3}\\d+'))", lambda: fake(sc("schema.str").regex(r"(a|b){3}\d+"))),
        ("fake(schema.float.min(0.1).max(0.2).precision(3))", lambda: fake(sc("schema.float").min(0.1).max(0.2).precision(3))),
        ("fake(schema.dict({'a': schema.list(schema.int).len(3), optional('b'): schema.uuid4}))",
         lambda: fake(sc("schema.dict")({"a": sc("schema.list(schema.int)").len(3), sc("optional")("b"): sc("schema.uuid4")}))),
        ("fake(schema.datetime), fake(schema.date)", lambda: (fake(sc("schema.datetime")), fake(sc("schema.date")))),
        ("fake(schema.int.min(7**6000))", lambda: fake(sc("schema.int").min(huge))),
        ("validate(schema.datetime, '2020-13-01')", lambda: format_result(validate(sc("schema.datetime"), "2020-13-01"))),
        ("validate(schema.numeric, '1e5')", lambda: format_result(validate(sc("schema.numeric"), "1e5"))),
        ("make_required(schema.dict({optional('a'): schema.int}), {'a', 'zz'})",
         lambda: make_required(sc("schema.dict")({sc("optional")("a"): sc("schema.int")}), {"a", "zz"})),
        ("schema.dict({'a': schema.int}) + schema.int", lambda: sc("schema.dict")({"a": sc("schema.int")}) + sc("schema.int")),
        ("schema.dict({'a': schema.int})['zz']", lambda: sc("schema.dict")({"a": sc("schema.int")})["zz"]),
        ("schema.bytes % 'text'", lambda: sc("schema.bytes") % "text"),
    ]
    n = 0
    base = _interpreter_settings()
    for rounds in range(2):
        for src, f in ops:
            try:
                f()
                out = "returned"
            except BaseException as e:  # noqa
                out = "raised " + type(e).__name__
            n += 1
            now = _interpreter_settings()
            if now != base:
                diff = {k: (base[k], now[k]) for k in base if base[k] != now[k]}
                ctx.violation("an operation left an interpreter-wide setting changed (what later operations return or "
                              "raise depends on it)",
                              {"kind": "history", "operation": src, "outcome": out,
                               "changed": {k: [common.srepr(a)[:200], common.srepr(b)[:200]] for k, (a, b) in diff.items()},
                               "expected": "settings as before the operation"})
                return n
    return n


KW_POOL_SRC = [
    "schema.dict({'id': schema.int.min(1), optional('tags'): schema.list([schema.str.len(1, 3), ...]), ...: ...})",
    "schema.list([schema.dict({'a': schema.none, 'b': schema.float(1.5).precision(2)})])",
    "schema.any(schema.int, schema.str.alphabet('ab').len(2), schema.list(schema.bool).len(1, 2))",
    "schema.str.regex(r'[a-c]{2}x?')",
    "schema.list([..., schema.int(3), ...])",
    "schema.bytes(b'ab')",
]
KW_VALUES_SRC = ["{'id': 1, 'tags': ['ab', 'c']}", "[{'a': None, 'b': 1.5}]", "'ab'", "'abx'", "[1, 3, 2]", "b'ab'",
                 "{'id': 0}", "[{'a': 1}]", "5.5", "[3]"]

KW_PROGRAM = """
import sys
sys.path.insert(0, %(harness)r)
from gen import *
import tape
from d42 import fake, represent, schema, optional, substitute, validate, validate_or_fail
from d42.utils import from_native, make_required
POOL = [%(pool)s]
VALUES = [%(values)s]
def observe():
    out = []
    for s in POOL:
        out.append(repr(s)); out.append(represent(s))
        for v in VALUES:
            res = validate(s, v)
            out.append(repr([(type(e).__name__, repr(e)) for e in res.get_errors()]))
            try:
                validate_or_fail(s, v); out.append('valid')
            except Exception as e:
                out.append(type(e).__name__ + ': ' + str(e))
            try:
                out.append(repr(substitute(s, v)))
            except Exception as e:
                out.append(type(e).__name__ + ': ' + str(e))
        try:
            with tape.scripted(tape.Tape(%(tape)r)):
                out.append(repr(fake(s)))
        except Exception as e:
            out.append(type(e).__name__)
    return out
"""


def _kw_candidates(param):
    """non-default values of the declared kind of a keyword parameter (annotation, else the default's type)"""
    import typing
    ann = param.annotation
    kinds = []
    if ann is not param.empty:
        args = typing.get_args(ann) or (ann,)
        kinds = [a for a in args if a in (int, bool, str, float, bytes)]
    if not kinds and param.default is not param.empty and param.default is not None and param.default is not Nil:
        kinds = [type(param.default)]
    table = {int: ["2", "0", "7"], bool: ["True", "False"], str: ["'x'", "''", "'::'"], float: ["0.5"], bytes: ["b'x'"]}
    out = []
    for k in kinds:
        out += table.get(k, [])
    return out or ["2", "True", "'x'", "None", "[]"]


def probe_keyword_arguments(ctx):
    """Every keyword the CURRENT tree's public entry points and their visitors declare (read from the signatures,
    so a keyword added tomorrow is probed tomorrow), passed with non-default values of its declared kind, plus an
    undeclared one: whatever the call itself returns or raises, repr/represent/validate/validate_or_fail/
    substitute/fake of every schema of a fixed pool are the same before and after (no per-call option may stick
    to the module-level visitors)."""
    import inspect
    import d42.generation as G
    import d42.representation as R
    import d42.substitution as SU
    import d42.validation as V
    scope = dict(NS)
    src = KW_PROGRAM % {"pool": ", ".join(KW_POOL_SRC), "values": ", ".join(KW_VALUES_SRC), "tape": FAKE_TAPE,
                        "harness": os.path.dirname(os.path.dirname(os.path.abspath(__file__)))}
    exec(src.replace("from gen import *", "").replace("import tape\n", "import tape as tape\n"), scope)
    entry = [("represent", represent, "represent(POOL[%d]%s)", R, "Representor"),
             ("validate", validate, "validate(POOL[%d], VALUES[0]%s)", V, "Validator"),
             ("validate_or_fail", validate_or_fail, "validate_or_fail(POOL[%d], VALUES[0]%s)", V, "Validator"),
             ("fake", fake, "fake(POOL[%d]%s)", G, "Generator"),
             ("substitute", substitute, "substitute(POOL[%d], VALUES[0]%s)", SU, "Substitutor"),
             ("make_required", make_required, "make_required(POOL[%d]%s)", None, None)]
    n = 0
    baseline = scope["observe"]()
    for name, f, call, mod, vis in entry:
        kws = {}
        for pn, prm in inspect.signature(f).parameters.items():
            if prm.kind is prm.KEYWORD_ONLY or (prm.kind is prm.POSITIONAL_OR_KEYWORD and prm.default is not prm.empty):
                kws[pn] = _kw_candidates(prm)
        cls = getattr(mod, vis, None) if mod is not None else None
        if cls is not None:
            for mn in dir(cls):
                if not mn.startswith("visit_"):
                    continue
                try:
                    sig = inspect.signature(getattr(cls, mn))
                except (TypeError, ValueError):
                    continue
                for pn, prm in sig.parameters.items():
                    if prm.kind is prm.KEYWORD_ONLY and pn not in kws:
                        kws[pn] = _kw_candidates(prm)
        if any(prm.kind is prm.VAR_KEYWORD for prm in inspect.signature(f).parameters.values()):
            kws.setdefault("verif_undeclared_option", ["2", "True"])
        for kw, cands in sorted(kws.items()):
            for vsrc in cands:
                for i in (0, 1):
                    stmt = call % (i, ", %s=%s" % (kw, vsrc))
                    try:
                        eval(stmt, scope)
                        status = "ok"
                    except RecursionError:
                        status = "RecursionError"
                    except Exception as e:  # noqa
                        status = type(e).__name__
                    n += 1
                    after = scope["observe"]()
                    if after != baseline:
                        j = next(k for k in range(len(baseline)) if k >= len(after) or after[k] != baseline[k])
                        prog = src + "before = observe()\ntry:\n    " + stmt + "\nexcept Exception as e:\n    print('the call raised', type(e).__name__)\n" \
                               "after = observe()\nfor b, a in zip(before, after):\n    if a != b:\n        print('BEFORE:', b); print('AFTER :', a); break\n" \
                               "print('observations unchanged' if before == after else 'OBSERVATIONS CHANGED')\n"
                        ctx.violation("a per-call keyword argument changed the behaviour of existing schemas", {
                            "kind": "keyword-probe", "what": stmt + "  (" + status + ")",
                            "observed": "afterwards: " + str(after[j] if j < len(after) else None)[:300],
                            "expected": "as before the call: " + str(baseline[j])[:300], "source": prog})
                        return n
    return n


def probe_bare_classes(ctx):
    """Schemas built from the public classes directly (IntSchema(), TypeAliasSchema(), a Props over a registry
    dict the caller owns ...) instead of through the facade: every read-only operation leaves the registry of the
    schema - and the caller's dict - exactly as it was.  (The facade cannot build an alias without a type or a
    props object over a caller's dict; the classes can.)"""
    import d42.declaration.types as T
    r = ctx.rng
    n = 0
    classes = [(nm[:-6], getattr(T, nm), getattr(T, nm[:-6] + "Props", None)) for nm in sorted(dir(T))
               if nm.endswith("Schema") and nm not in ("Schema", "GenericSchema", "GenericTypeAliasSchema")
               and isinstance(getattr(T, nm), type)]
    values = [None, 0, 1.5, "x", b"x", [], [1, "a"], {}, {"a": 1}, True, ...]
    ops = [("validate", lambda s, v: validate(s, v).has_errors()), ("validate_or_fail", lambda s, v: validate_or_fail(s, v)),
           ("repr", lambda s, v: repr(s)), ("represent(indent=2)", lambda s, v: represent(s, indent=2)), ("fake", lambda s, v: fake(s)),
           ("%", lambda s, v: s % v), ("==", lambda s, v: s == v), ("!=", lambda s, v: s != v), ("== schema", lambda s, v: s == type(s)()),
           ("|", lambda s, v: s | schema.none), ("from_native", lambda s, v: from_native(v)),
           ("every props attribute", lambda s, v: [getattr(s.props, a) for a in dir(type(s.props)) if not a.startswith("_") and
                                                   isinstance(getattr(type(s.props), a), property)])]
    for cname, cls, pcls in classes:
        variants = [("%sSchema()" % cname, lambda: (cls(), None))]
        if pcls is not None:
            def over_registry(pcls=pcls, cls=cls):
                reg = {}
                return cls(pcls(reg)), reg
            variants.append(("%sSchema(%sProps(registry))" % (cname, cname), over_registry))
            if cname == "TypeAlias":
                variants.append(("TypeAliasSchema(TypeAliasProps().update(name='U'))", lambda: (cls(pcls().update(name="U")), None)))
        for vsrc_, mk in variants:
            try:
                s, reg = mk()
            except Exception:  # noqa
                continue
            for oname, f in ops:
                for v in r.sample(values, 3):
                    before = (repr(s.props), list(s.props), None if reg is None else dict(reg))
                    try:
                        f(s, v)
                        out = "returned"
                    except Exception as e:  # noqa
                        out = "raised " + type(e).__name__
                    n += 1
                    after = (repr(s.props), list(s.props), None if reg is None else dict(reg))
                    if after != before:
                        ctx.violation(f"`{oname}` wrote into the props of an existing schema",
                                      {"kind": "history", "schema": vsrc_, "operation": oname, "argument": common.srepr(v), "outcome": out,
                                       "props_before": str(before)[:300], "props_after": str(after)[:300],
                                       "expected": "the registry (and the caller's dict it was built over) unchanged"})
                        return n
    return n


def probe_augmented_assignment(ctx):
    """`x = s; x += t` (likewise |= and %=) binds x to a NEW schema: the object s still refers to is unchanged,
    whatever in-place protocol methods exist."""
    r = ctx.rng
    n = 0
    for _ in range(ctx.scale(60, 600)):
        d1 = gen.build("schema.dict")({k: gen.gen_schema(r, 1)[1] for k in r.sample(["a", "b", "c", "id"], r.randint(0, 3))})
        d2 = gen.build("schema.dict")({k: gen.gen_schema(r, 1)[1] for k in r.sample(["b", "z", "id", "k"], r.randint(1, 3))})
        _, s1 = gen.gen_schema(r, 2)
        _, s2 = gen.gen_schema(r, 1)
        try:
            v1 = gen.conform(r, s1)
        except Exception:  # noqa
            v1 = None
        parent = gen.build("schema.list")([d1, s1])            # something that HOLDS the operands
        trials = [("+=", d1, d2), ("|=", s1, s2), ("|=", d1, s2), ("%=", s1, v1), ("+=", d1, d1)]
        for opname, left, right in trials:
            before = (dump(left), repr(left), dump(parent), repr(parent))
            x = left
            try:
                if opname == "+=":
                    x += right
                elif opname == "|=":
                    x |= right
                else:
                    x %= right
            except Exception:  # noqa
                x = None
            n += 1
            after = (dump(left), repr(left), dump(parent), repr(parent))
            if after != before or (x is left and x is not None):
                ctx.violation(f"`x = s; x {opname} t` changed the existing schema s (or returned it)",
                              {"kind": "history", "operator": opname, "s_before": before[1][:300], "s_after": after[1][:300],
                               "t": repr(right)[:200], "same_object_returned": x is left,
                               "expected": "a new schema; s and everything holding s unchanged"})
                return n
    return n


def probe_rendering(ctx):
    """validate(schema, value, path=p) with a caller-owned path object, then the result rendered
    twice: rendering is an operation too - it returns the same text both times and leaves the
    caller's path object, the value and the errors' own paths as they were."""
    from th import PathHolder
    from d42.validation import format_result
    r = ctx.rng
    n = 0
    for _ in range(ctx.scale(150, 2000)):
        ssrc, s = gen.gen_schema(r, r.randint(1, 3))
        try:
            v = gen.conform(r, s)
        except Exception:  # noqa
            continue
        for w in [v] + gen.perturbations(r, v, limit=6):
            own = PathHolder()["cfg"]["items"] if r.random() < 0.5 else PathHolder()
            before_path, before_val = repr(own), _plain_dump(w)
            try:
                res = validate(s, w, path=own)
                paths = [repr(e.path) for e in res.get_errors()]
                m1 = format_result(res)
                m2 = format_result(res)
            except Exception:  # noqa  (C08's subject)
                continue
            n += 1
            rp = {"kind": "history", "schema": ssrc, "value": gen.vsrc(w), "caller_path": before_path}
            if m1 != m2:
                rp.update(observed=[str(m1)[:300], str(m2)[:300]], expected="the same text twice")
                ctx.violation("rendering the same validation result twice gives different text", rp)
                return n
            if repr(own) != before_path:
                rp.update(observed=common.srepr(own), expected=before_path)
                ctx.violation("validate / format_result changed the path object passed in by the caller", rp)
                return n
            if [repr(e.path) for e in res.get_errors()] != paths:
                rp.update(observed=[repr(e.path) for e in res.get_errors()][:5], expected=paths[:5])
                ctx.violation("format_result changed the paths held by the errors it rendered", rp)
                return n
            if _plain_dump(w) != before_val:
                rp.update(observed=_plain_dump(w)[:300], expected=before_val[:300])
                ctx.violation("validate / format_result mutated the value", rp)
                return n
    return n


_FRESH_CODE = r"""
import json
out = {}
def attempt(name, f):
    try:
        r = f()
        out[name] = "ok:" + type(r).__name__ + ":" + repr(r)[:80]
    except Exception as e:
        out[name] = "raise:" + type(e).__name__
from d42 import schema
s = schema.int.min(1)
d = schema.dict({"a": schema.int, "b": schema.str.len(2)})
ops = {
    "invert_int": lambda: type(~schema.int(3)), "invert_dict": lambda: sorted(~d), "mod": lambda: s % 5,
    "mod_dict": lambda: d % {"a": 1}, "add": lambda: d + schema.dict({"c": schema.none}), "or": lambda: s | schema.str,
    "eq_value": lambda: s == 5, "ne_value": lambda: s != 0, "eq_schema": lambda: s == schema.int.min(1),
    "repr": lambda: repr(d), "iter": lambda: list(d), "contains": lambda: "a" in d, "getitem": lambda: d["a"],
    "len_refine": lambda: schema.list(schema.int).len(1, 2), "call": lambda: schema.str("ab"),
}
for k, f in ops.items():
    attempt(k, f)
first = dict(out)
out.clear()
import d42.generation, d42.validation, d42.substitution, d42.representation, d42.utils   # noqa
from d42 import fake, substitute, validate, validate_or_fail, represent                  # noqa
from d42.utils import from_native, make_required, rollout                                # noqa
fake(schema.str); validate(s, 3); substitute(d, {"a": 1}); represent(d); from_native([1]); make_required(d)
for k, f in ops.items():
    attempt(k, f)
print(json.dumps([first, out]))
"""


def probe_fresh_interpreter(ctx):
    """In a fresh interpreter that has imported nothing but `from d42 import schema`, every
    operator / method of a schema gives the same outcome before and after the rest of the
    package has been imported and used (no behaviour hangs on an import side effect that a
    later, unrelated call triggers)."""
    env = dict(os.environ, PYTHONPATH=common.REPO, PYTHONHASHSEED="0")
    p = subprocess.run([sys.executable, "-c", _FRESH_CODE], env=env, capture_output=True, text=True, timeout=120)
    if p.returncode != 0:
        ctx.violation("a fresh interpreter cannot run the basic operations on schemas",
                      {"kind": "history", "observed": (p.stderr or p.stdout)[-600:], "code": _FRESH_CODE})
        return 0
    first, second = json.loads(p.stdout.strip().splitlines()[-1])
    for k in first:
        if first[k] != second[k]:
            ctx.violation(f"the result of `{k}` on a fresh interpreter depends on what was imported / executed before it",
                          {"kind": "history", "operation": k, "observed": [first[k], second[k]],
                           "expected": "the same outcome before and after importing and using the rest of d42",
                           "code": _FRESH_CODE})
            break
    return len(first)


def _at(v, pos):
    for k in pos:
        v = v[k]
    return v


def _plain_dump(v):
    if isinstance(v, dict):
        return "{" + ", ".join(f"{k!r}: {_plain_dump(x)}" for k, x in v.items()) + "}"
    if isinstance(v, list):
        return "[" + ", ".join(_plain_dump(x) for x in v) + "]"
    return repr(v)


def run(ctx):
    n_hist = ctx.scale(60, 500)
    n_ops = ctx.scale(40, 200)
    depth = ctx.scale(2, 3)
    n_slices = ctx.scale(8, 20)
    shrink_budget = ctx.scale(25, 120)
    model_hist = ctx.scale(60, 200)          # histories handed to the Coq model
    # first of all (the process has generated nothing yet): state left behind by one generation would make the
    # baseline itself "after", so this probe runs before the histories
    indep = probe_generation_independence(ctx)
    pristine = Pristine()
    try:
        _run(ctx, pristine, n_hist, n_ops, depth, n_slices, shrink_budget, model_hist)
    finally:
        pristine.close()
    probes = probe_dict_subclasses(ctx)
    ctx.coverage.setdefault("distribution", {})["dict_subclass_probes"] = probes
    ctx.coverage["distribution"]["fresh_interpreter_ops"] = probe_fresh_interpreter(ctx)
    ctx.coverage["distribution"]["rendering_probes"] = probe_rendering(ctx)
    ctx.coverage["distribution"]["augmented_assignment_probes"] = probe_augmented_assignment(ctx)
    ctx.coverage["distribution"]["marker_argument_probes"] = probe_marker_arguments(ctx)
    ctx.coverage["distribution"]["generation_independence_probes"] = indep
    ctx.coverage["distribution"]["collection_argument_probes"] = probe_collection_arguments(ctx)
    ctx.coverage["distribution"]["interpreter_setting_probes"] = probe_interpreter_settings(ctx)
    ctx.coverage["distribution"]["bare_class_probes"] = probe_bare_classes(ctx)
    ctx.coverage["distribution"]["keyword_argument_probes"] = probe_keyword_arguments(ctx)


def _run(ctx, pristine, n_hist, n_ops, depth, n_slices, shrink_budget, model_hist):
    rng = ctx.rng
    aux = random.Random(rng.getrandbits(64))      # sampling of slices: separate stream
    prev = []                 # every record executed in this process so far (earlier histories)
    cases, case_hist = [], []
    dist = {}
    totals = {"steps": 0, "snapshots": 0, "replays": 0, "arg_checks": 0, "raised": 0, "mutations": 0,
              "pristine_histories": 0, "pristine_slices": 0, "pool_max": 0, "unmodelled": 0}
    samples = []
    reported = 0
    for h in range(n_hist):
        if reported >= 3:
            break
        rn = Runner(checks=True, full_all=not ctx.thorough())
        hg = HistoryGen(rng, rn, h, depth)
        ab = Abstractor()
        records = []
        failure = None
        while len(records) < n_ops and failure is None:
            for op in hg.next_ops():
                records.append(op)
                try:
                    status, r, _ = rn.step(op)
                except Failure as f:
                    failure = (f.kind, f.step, f.detail)
                    break
                ab.record(op, status, r, rn.env)
                dist[op["op"]] = dist.get(op["op"], 0) + 1
                if op["op"] == "mutate":
                    totals["mutations"] += 1
        totals["steps"] += len(records)
        for k in ("snapshots", "replays", "arg_checks", "raised"):
            totals[k] += rn.stats[k]
        totals["pool_max"] = max(totals["pool_max"], len(rn.pool))
        totals["unmodelled"] += ab.unmodelled
        if failure is not None:
            reported += 1
            pre, ops, ok = shrink_failure(pristine, prev, records, failure[0], shrink_budget)
            original = failure
            if isinstance(ok, tuple):
                failure, ok = ok, True       # the failure as it shows in the minimal history
            watch = failure[2].get("schema") or failure[2].get("arg")
            src = program_source(list(pre) + list(ops), watch=watch)
            ctx.violation(
                "a public operation changed an existing schema or an argument: " + _describe(failure),
                {"kind": failure[0], "source": src, "observed": _describe(failure),
                 "expected": "every pooled schema keeps repr, props, verdicts and generated value; arguments unchanged; "
                             "replays give equal results",
                 "operations": len(pre) + len(ops), "original_operations": len(records),
                 "observed_in_original_history": _describe(original),
                 "reproduced_in_pristine_process": ok,
                 "theorem_or_suite": "C07 history oracle (history_frame / args_unchanged / replay_deterministic)"})
            prev += records
            continue
        # --- the same history in a pristine process: outcomes must not depend on earlier histories
        dep = None
        _, fps = pristine.run(records, False)
        totals["pristine_histories"] += 1
        for i, (a, b) in enumerate(zip(rn.fps, fps)):
            if a != b:
                dep = (i, b, a)
                break
        # --- single operations on their own slice: outcomes must not depend on the rest of the history
        if dep is None:
            cand = [i for i, op in enumerate(records)
                    if op["op"] not in ("mutate", "new_slist", "new_sdict", "new_value")]
            for i in aux.sample(cand, min(n_slices, len(cand))):
                sl = [records[k] for k in slice_for(records, i)]
                if len(sl) == i + 1:
                    continue
                _, fps1 = pristine.run(sl, False)
                totals["pristine_slices"] += 1
                if fps1[-1] != rn.fps[i]:
                    dep = (i, fps1[-1], rn.fps[i])
                    break
        # --- observation-order independence: what a schema prints must not depend on which schemas
        #     were printed before it (the checked run prints every schema when it enters the pool and
        #     after every step; the pristine run prints nothing until the end, then last-first)
        if dep is None and rn.pool:
            _, fps2 = pristine.run(records + [{"op": "__final_reprs__"}], False)
            totals["observation_orders"] = totals.get("observation_orders", 0) + 1
            finals = fps2[-1] if fps2 and isinstance(fps2[-1], dict) else {}
            for name in rn.pool:
                want = rn.meta[name]["cheap"][0]
                if name in finals and finals[name] != want:
                    reported += 1
                    tail = (f"print(repr({name}))   # printed FIRST here; the checked run had printed its members before")
                    ctx.violation(
                        f"the printed form of `{name}` depends on which schemas were printed before it",
                        {"kind": "observation-order", "schema": name,
                         "source": program_source(prev + records, watch=name, tail=tail),
                         "observed": want[:600], "expected": finals[name][:600] + "  (printed first, in a fresh process)",
                         "operations": len(prev) + len(records),
                         "theorem_or_suite": "C07 replay determinism: represent on equal inputs (replay_deterministic)"})
                    break
        if dep is not None:
            reported += 1
            i, alone_fp, here_fp = dep
            sl = [records[k] for k in slice_for(records, i)]
            _, fps1 = pristine.run(sl, False)
            alone_fp = fps1[-1]
            small = shrink_dependence(pristine, prev, records, i, alone_fp, shrink_budget)
            opsrc = op_source(records[i])
            tail = f"print('result after the history:', repr({records[i].get('out')}))" if records[i].get("out") else ""
            ctx.violation(
                f"the result of `{opsrc}` depends on what was executed before it",
                {"kind": "history-dependent", "operation": opsrc,
                 "source": program_source(small if small is not None else prev + records[:i + 1], tail=tail),
                 "source_alone": program_source(sl, tail=tail),
                 "observed": repr(here_fp)[:600], "expected": repr(alone_fp)[:600] + "  (same operation on equal inputs in a fresh process)",
                 "operations": len(small) if small is not None else len(prev) + i + 1,
                 "reproduced_in_pristine_process": small is not None,
                 "theorem_or_suite": "C07 replay determinism across histories (replay_deterministic)"})
        prev += records
        if len(cases) < model_hist:
            cases.append(ab.case())
            case_hist.append(records)
        if h < 2:
            samples.append({"history": h, "first_operations": [op_source(o) for o in records[:12]],
                            "pool": len(rn.pool), "model_operations": len(ab.terms)})

    # --- correspondence with the store model
    bad = common.eval_cases(ctx.workdir, "c07", cases, "hcase", "hcase_ok",
                            extra_requires="Require Import D42.Store.", per_file=40)
    for i in bad[:3]:
        ctx.violation("the store model (sites_repo) does not predict what the implementation did in a history "
                      "(pool size, changed schemas, or identity of an indexed sub-schema)",
                      {"kind": "model-mismatch", "source": program_source(case_hist[i]), "case": cases[i][:4000],
                       "theorem_or_suite": "C07 store-model correspondence"}, failing_input=False)
    # --- self-test: the comparison must be able to fail, and the pre-F16 flags must predict a change
    rn = Runner(checks=False)
    ab = Abstractor()
    for op in F16_HISTORY:
        status, r, _ = rn.step(op)
        ab.record(op, status, r, rn.env)
    as_seen = ab.case()
    ab.seen[-1] = "(3%nat, [2%nat], None)"
    as_f16 = ab.case()
    self_repo = common.eval_cases(ctx.workdir, "c07self_repo", [as_seen, as_f16], "hcase", "hcase_ok",
                                  extra_requires="Require Import D42.Store.")
    self_f16 = common.eval_cases(ctx.workdir, "c07self_f16", [as_seen, as_f16], "hcase", "hcase_f16_ok",
                                 extra_requires="Require Import D42.Store.")
    selftest_ok = (self_repo == [1] and self_f16 == [0])
    if not selftest_ok:
        ctx.violation("self-test of the model comparison failed: with the pre-F16 flag the model must predict that "
                      "`l=[int]; s=schema.list(l); l.append(str)` changes s, and must reject the unchanged observation",
                      {"kind": "selftest", "repo_flags_mismatches": self_repo, "f16_flags_mismatches": self_f16,
                       "source": program_source(F16_HISTORY, watch="sX_4")}, failing_input=False)

    ctx.coverage.update(
        evaluations=totals["steps"],
        distinct_nontrivial=totals["mutations"] + totals["raised"],
        rule="histories of %d operations over a shared pool of schemas and caller-owned lists/dicts drawn from ctx.rng "
             "(declarations from caller containers, refinements that succeed and raise, +, |, %%, from_native, "
             "make_required, validate/validate_or_fail/get_errors, repr/represent, iteration, in, indexing, ==, fake "
             "under a fixed tape, and caller mutations (append/insert/pop/set/del/clear/reverse/sort/extend/nested) of "
             "every container ever passed in or returned). After every step every pooled schema is compared with its "
             "snapshot at entry (repr, props dump, verdicts on <=12 probes, generated value%s); argument dumps and "
             "container identities around every operation; in-process replays on clones; every history and sampled "
             "single-operation slices re-run in a pristine forked process; histories abstracted to Store.v operations "
             "and evaluated by the model (pool size, changed set, identity of indexed sub-schemas). "
             "non-trivial = caller mutations + operations that raised." % (
                 n_ops, "" if not ctx.thorough() else "; in thorough the full snapshot is taken for the operation's "
                 "arguments, a rotating sample of 4 and for all every 20th step, repr+props for all every step"),
        samples=samples,
        correspondence={"suite": "store-model histories", "cases": len(cases), "mismatches": len(bad),
                        "unmodelled": totals["unmodelled"],
                        "selftest": {"repo_flags": self_repo, "f16_flags": self_f16, "ok": selftest_ok}},
        oracle_cases=totals["snapshots"],
        distribution=dict(sorted(dist.items())),
        histories=n_hist if reported < 3 else "stopped after 3 reported failures",
        totals=totals,
    )


# ------------------------------------------------------------------ replay
def _run_source(title, src):
    import tempfile
    print("----", title)
    with tempfile.NamedTemporaryFile("w", suffix=".py", delete=False) as f:
        f.write(src)
        path = f.name
    try:
        p = subprocess.run([sys.executable, path], stdout=subprocess.PIPE, stderr=subprocess.STDOUT, text=True,
                           timeout=300, env=dict(os.environ))
        print(p.stdout[-6000:])
    finally:
        os.unlink(path)


def replay(data):
    print("kind    :", data.get("kind"))
    print("what    :", data.get("what"))
    print("observed:", data.get("observed"))
    print("expected:", data.get("expected"))
    if data.get("source"):
        _run_source("the history (fresh interpreter)", data["source"])
    if data.get("source_alone"):
        _run_source("the same operation on equal inputs, nothing else executed (fresh interpreter)", data["source_alone"])
    return 0
