"""C01 - generated data always validates against its own schema."""
import math
import random as _random

from niltype import Nil

import absn
import common
import gen
import gsuite
import pyspec
import ssuite
import tape

PROPS_FILE = "props/C01.v"
MODEL_FILES = ["theories/Generate.v", "theories/CaseGen.v", "theories/SatB.v", "theories/CaseSat.v"]
EXTRA_TRUSTED = [
    "Python's random module behind the tape (range contract of randint/choice/uniform, PyRandom.v); the oracle also "
    "runs the real, seeded RNG",
    "satisfiability of a generated schema is established by exhibiting a value (built independently of d42's "
    "generator) that the real validator accepts; schemas for which none is found are outside the oracle",
    "regex patterns: RegexGen.v (C09); set-iteration order at the negated-class site normalised by sorting in the "
    "correspondence (theorem holds for every order)",
]


def find_conforming(r, s, tries=6):
    for _ in range(tries):
        try:
            v = gen.conform(r, s)
            if ssuite.accepts(s, v):
                return True, v
        except Exception:  # noqa
            pass
    return False, None


def classify(r, s, cache):
    """known-finding ids whose shape occurs in s"""
    from d42.declaration.types import FloatSchema, StrSchema
    kinds = set()
    for x in ssuite._walk(s):
        if x is s:
            continue
        key = id(x)
        if key not in cache:
            cache[key] = (x, find_conforming(r, x)[0])
        if not cache[key][1]:
            kinds.add("F24")
    for x in ssuite._walk(s):
        if isinstance(x, FloatSchema) and x.props.get("value") is Nil:
            mn, mx, pr = x.props.get("min"), x.props.get("max"), x.props.get("precision")
            lo = mn if mn is not Nil else -9.3e18
            hi = mx if mx is not Nil else 9.3e18
            if pr is not Nil:
                # F29: int(bound * 10**precision) overflows (the scaled bound is not finite)
                try:
                    scaled = [float(b) * 10 ** pr for b in (lo, hi)]
                except OverflowError:
                    scaled = [math.inf]
                if any(z != z or abs(z) == math.inf for z in scaled):
                    kinds.add("F29")
            lo = mn if mn is not Nil else -9.3e18
            hi = mx if mx is not Nil else 9.3e18
            try:
                span = hi - lo
            except Exception:  # noqa
                span = math.inf
            if not (span == span and abs(span) != math.inf) or lo != lo or hi != hi \
                    or abs(lo) == math.inf or abs(hi) == math.inf:
                kinds.add("F23")
    for x in ssuite._walk(s):
        # F42: a pattern that switches IGNORECASE on (globally or for a group) and negates a class or a literal - the
        # generator ignores flags, so the complement it draws from still holds the other case of the excluded letters
        if isinstance(x, StrSchema) and x.props.get("pattern") is not Nil and _ignorecase_negation(x.props.get("pattern")):
            kinds.add("F42")
    return kinds


def _ignorecase_negation(pattern):
    import re
    sre, src = absn.sre, absn.src
    try:
        parsed = sre.parse(pattern)
    except Exception:  # noqa
        return False
    found = {"flag": bool(parsed.state.flags & re.IGNORECASE), "neg": False}

    def walk(seq):
        for op, av in seq:
            if op == src.NOT_LITERAL:
                found["neg"] = True
            elif op == src.IN:
                if any(o == src.NEGATE for o, _ in av):
                    found["neg"] = True
            elif op == src.SUBPATTERN:
                if av[1] & re.IGNORECASE:
                    found["flag"] = True
                walk(av[3])
            elif op in (src.MAX_REPEAT, src.MIN_REPEAT):
                walk(av[2])
            elif op == src.BRANCH:
                for alt in av[1]:
                    walk(alt)
    walk(parsed)
    return found["flag"] and found["neg"]


def more_schemas(r, depth):
    """schemas not reachable by plain declaration: results of substitution, +, |, make_required"""
    from d42 import substitute
    from d42.utils import make_required
    out = []
    ssrc, s = gen.gen_schema(r, r.randint(1, depth))
    try:
        v = gen.conform(r, s)
        for p in [v] + ssuite.partials(r, v, limit=2) + ssuite.with_placeholders(r, v)[:3]:
            if pyspec.is_plain(p) or ssuite.has_placeholder(p):
                try:
                    out.append((f"substitute({ssrc}, {gen.vsrc(p)})", substitute(s, p)))
                except Exception:  # noqa
                    pass
    except Exception:  # noqa
        pass
    s2src, s2 = gen.gen_schema(r, r.randint(0, depth))
    try:
        out.append((f"({ssrc}) | ({s2src})", s | s2))
    except Exception:  # noqa
        pass
    d1 = "schema.dict({'a': " + gen.gen_schema_src(r, 1) + ", optional('b'): schema.int})"
    d2 = "schema.dict({'b': " + gen.gen_schema_src(r, 1) + ", 'c': schema.str.len(2), ...: ...})"
    try:
        out.append((f"{d1} + {d2}", gen.build(d1) + gen.build(d2)))
        out.append((f"make_required({d1})", make_required(gen.build(d1))))
    except Exception:  # noqa
        pass
    return out


BOUNDARY = [
    "schema.int.min(2**64)", "schema.int.max(-2**64)", "schema.int.min(5).max(5)", "schema.float.min(1e30)",
    "schema.float.max(-1e30)", "schema.str.len(40, ...)", "schema.str.len(40)", "schema.list(schema.int).len(20, ...)",
    "schema.list(schema.int).len(20)", "schema.list([schema.int(1), ...]).len(3)", "schema.list([..., schema.int(1)]).len(3)",
    "schema.list([..., schema.int, ...]).len(4)", "schema.list([...]).len(2)", "schema.list.len(2)", "schema.list.len(1, 3)",
    "schema.str.contains('abc').len(3)", "schema.str.contains('abc').len(..., 3)", "schema.str.contains('abc').len(1, ...)",
    "schema.str.alphabet('ab').contains('ba').len(2, 5)", "schema.str.alphabet('a').len(3)", "schema.str.alphabet('')",
    "schema.str.alphabet('').len(0)", "schema.str.len(0)", "schema.float.min(0.5).max(0.5)",
    "schema.float.min(0.15).max(0.35).precision(1)", "schema.float.min(0.57).max(0.58).precision(2)",
    "schema.float.precision(2)", "schema.float.min(-1e308).max(1e308)", "schema.float(2.5).precision(1)",
    # no multiple of 10**-precision inside [min, max]: precision without a fixed value constrains nothing
    "schema.float.min(0.11).max(0.12).precision(1)", "schema.float.min(0.15).max(0.15).precision(1)",
    "schema.float.min(0.123).max(0.127).precision(2)", "schema.float.min(-0.19).max(-0.11).precision(1)",
    "schema.float.min(0.05).max(0.06).precision(1)", "schema.list(schema.float.min(2.31).max(2.39).precision(1)).len(2)",
    "schema.float.min(1e-09).max(1e+308).precision(2)", "schema.float.min(0.29).precision(1)",
    "schema.any(schema.int, schema.int.min(1).max(0))", "schema.list(schema.int.min(1).max(0))",
    "schema.dict({'a': schema.int, optional('b'): schema.int.min(1).max(0)})",
    "schema.str.regex('[a-c]{2,}x|[^a-z]\\\\d')", "schema.str.regex('^ab?$')", "schema.str.regex('^[^\\\\w]{4,8}$')", "schema.str.regex('^a.{12}b$')", "schema.str.regex('^\\\\w{12}\\\\d{6}$')",
    "schema.str.regex('[^\\\\d\\\\w]{6}|[^a-zA-Z0-9]{6}')", "schema.list(schema.str.regex('^[^\\\\w ]{3}\\\\Z')).len(4)", "schema.bytes", "schema.date", "schema.uuid4",
    "schema.datetime", "schema.bool", "schema.any", "schema.dict", "schema.list", "schema.none",
    "schema.list([])", "schema.list([schema.int, schema.str])", "schema.dict({...: ...})",
    "schema.list(schema.int).len(2, ...) % [1, ...]", "schema.list(schema.int).len(3, 5) % [..., 1, 2]",
    "schema.list.len(2, ...) % [..., 'x']", "schema.dict % {'a': ..., 'b': [1]}",
    "schema.dict({'a': schema.list(schema.str).len(2, 4)}) % {'a': ['x', ...]}",
    "schema.list(schema.list(schema.int).len(1, 2)).len(2)", "schema.int.max(-(2**63) - 5)", "schema.int.min(2**63 + 5)",
    # cased non-ASCII literals whose upper()/lower()/casefold() is not one character, with and without inline flags: what is
    # generated is validated by `re` itself
    "schema.str.regex('(?i)stra\u00dfe')", "schema.str.regex('stra\u00dfe')", "schema.str.regex('(?i:\ufb01)x{2}')",
    "schema.str.regex('(?i)\u0130\u0149\u01f0')", "schema.str.regex('^[\u00df\u0130]{3}$')", "schema.str.regex('(?i)[\u00df]{2}')",
    "schema.str.regex('(?s)a(?-s:.)b')", "schema.str.regex('(?s:a.)(?-s:.)c')", "schema.str.regex('(?s)(a.)(?-s:b.)c')",
    "schema.str.regex('(?s)a.b')", "schema.str.regex('(?m)^ab$')", "schema.str.regex('(?x) a b # comment')", "schema.str.regex('(?a)\\w{3}\\d')",
    # fixed values that are instances of a subclass of the declared type (bool for int, user subclasses, enum members)
    "schema.int(True)", "schema.int(False).min(0)", "schema.list([schema.int(True), ...])", "schema.dict({'a': schema.int(True)}) + schema.dict({'b': schema.int(False)})",
    "schema.int(_IntSub(7))", "schema.str(_StrSub('ab')).len(2)", "schema.int(_IntColor.RED) | schema.none", "schema.float(_FloatSub(1.5)).precision(1)",
    # two str refinements at once: the filler around a required substring / inside a length range comes from the declared alphabet
    "schema.str.alphabet('ab').contains('a')", "schema.str.alphabet('ab').contains('ab').len(5)", "schema.str.alphabet('xy').contains('y').len(3, 9)",
    "schema.str.alphabet('01').contains('10').len(2, ...)", "schema.str.alphabet('z').contains('').len(4)", "schema.str.alphabet('q').contains('qq').len(..., 6)",
    # typed lists inside typed lists with a lower length bound above the generator's defaults at every level
    "schema.list(schema.list(schema.int).len(9, ...))", "schema.list(schema.list(schema.list(schema.int).len(5, ...)))",
    "schema.dict({'m': schema.list(schema.list(schema.str.len(1)).len(12, 20)).len(1, 2)})", "schema.list(schema.list(schema.list(schema.list(schema.none).len(3, ...))))",
    "schema.list(schema.list(schema.bool).len(40, ...)).len(2)", "schema.any(schema.list(schema.list(schema.int).len(11, 12)))",
    # IGNORECASE with a negated class / negated literal (F42)
    "schema.str.regex('(?i)[^a]')", "schema.str.regex('(?i)[^a-z]{3}')", "schema.str.regex('(?i:[^b])x')", "schema.str.regex('(?i)a[^a]')",
    "schema.list(schema.str.regex('(?i)[^a-y]')).len(2)",
    # unions in which every alternative is of a rarely combined type
    "schema.datetime | schema.none", "schema.any(schema.datetime, schema.date)", "schema.any(schema.date, schema.uuid4, schema.bytes)",
    "schema.dict({'at': schema.datetime | schema.none, optional('on'): schema.any(schema.date)})", "schema.list(schema.datetime | schema.str.len(2))",
    "schema.any(schema.bytes, schema.bool) | schema.none", "schema.any(schema.uuid4)", "schema.alias('T', schema.datetime) | schema.none",
]


def run(ctx):
    from d42 import fake
    r = ctx.rng
    n = ctx.scale(260, 5000)
    depth = ctx.scale(3, 5)
    schemas = [(src, gen.build(src)) for src in BOUNDARY]
    for _ in range(n):
        schemas.append(gen.gen_schema(r, r.randint(0, depth)))
        if r.random() < 0.25:
            schemas += more_schemas(r, depth)
    modes = ["min", "max", "alt", "rand", "rand"] + (["rand"] * 3 if ctx.thorough() else [])
    terms, infos = [], []
    unmodelled = 0
    runs = sat_schemas = 0
    dist = {"ok": 0, "raise": 0, "unsat_or_unknown": 0, "real_rng_runs": 0, "draws": 0}
    cache = {}
    samples = []
    generator = gsuite.make_generator()
    sat_terms, sat_info, tape_failures = [], [], {}
    for si, (ssrc, s) in enumerate(schemas):
        try:
            sat_terms.append(f"({gsuite.world_term()}, {absn.cschema(s, absn.KeyTable())}, true)")
            sat_info.append((si, ssrc))
        except absn.Unmodelled:
            pass
        sat, witness = find_conforming(r, s)
        if sat:
            sat_schemas += 1
        else:
            dist["unsat_or_unknown"] += 1
        kinds = None
        # every character of an alphabet must be drawn some time: many more random tapes for patterns
        smodes = modes + (["rand"] * ctx.scale(40, 120) if "regex(" in ssrc else [])
        for m in smodes:
            pol = tape.Policy(r, m)
            outcome, res = gsuite.run(s, pol, generator)
            runs += 1
            dist[outcome] += 1
            dist["draws"] += len(pol.used)
            try:
                terms.append(gsuite.case_term(s, pol.used, outcome, res))
                infos.append((ssrc, list(pol.used)))
            except absn.Unmodelled:
                unmodelled += 1
            bad = None
            if outcome == "raise":
                bad = f"fake raised {type(res).__name__}: {res}"
            else:
                try:
                    errs = ssuite_errors(s, res)
                except Exception as e:  # noqa
                    errs = [f"validate raised {type(e).__name__}"]
                if errs:
                    bad = f"fake returned {gen.vsrc(res)}, rejected: {errs[:3]}"
            if bad:
                # kept also when no witness was found here: the model decides satisfiability (satb) below, and a validator
                # that rejects the witness itself must not make the schema look unsatisfiable
                tape_failures.setdefault(si, (bad, list(pol.used), m))
            if not sat:
                continue
            if bad:
                if kinds is None:
                    kinds = classify(r, s, cache)
                ex = f"S={ssrc}: {bad}"[:300]
                if any(ctx.known_finding(k, ex) for k in sorted(kinds)):
                    continue
                ctx.violation("generated data does not validate: " + bad[:120],
                              {"kind": "input", "schema": ssrc, "tape": list(pol.used), "mode": m, "observed": bad,
                               "expected": "a value accepted by validate(schema, value)",
                               "satisfiable_witness": gen.vsrc(witness)})
        # the real RNG, seeded (no tape): typical draws of the real uniform/randint
        if sat:
            seed = r.randrange(1 << 30)
            _random.seed(seed)
            for _ in range(ctx.scale(2, 6)):
                dist["real_rng_runs"] += 1
                bad = None
                try:
                    v = fake(s)
                    errs = ssuite_errors(s, v)
                    if errs:
                        bad = f"fake returned {gen.vsrc(v)}, rejected: {errs[:3]}"
                except Exception as e:  # noqa
                    bad = f"fake raised {type(e).__name__}: {e}"
                if bad:
                    if kinds is None:
                        kinds = classify(r, s, cache)
                    ex = f"S={ssrc}: {bad}"[:300]
                    if any(ctx.known_finding(k, ex) for k in sorted(kinds)):
                        break
                    ctx.violation("generated data does not validate (real RNG): " + bad[:120],
                                  {"kind": "input", "schema": ssrc, "seed": seed, "observed": bad,
                                   "expected": "a value accepted by validate(schema, value)"})
                    break
        if len(samples) < 5 and sat and ssrc not in BOUNDARY and "dict" in ssrc:
            samples.append({"schema": ssrc, "modes": modes})
    # histories of short-lived schemas through the module-level generator behind fake(): what is
    # generated for a schema may not depend on the schemas generated from before (state kept per
    # schema object - e.g. keyed on id() - is reused by the next object at the same address)
    eph = []
    for ssrc, s in schemas:
        if not ("substitute(" in ssrc or " | " in ssrc or " + " in ssrc or "make_required(" in ssrc or " % " in ssrc):
            try:
                if find_conforming(r, s)[0] and not classify(r, s, cache):
                    eph.append(ssrc)
            except Exception:  # noqa
                pass
    dist["ephemeral_runs"] = 0
    seed = r.randrange(1 << 30)
    _random.seed(seed)
    history = []
    for _ in range(ctx.scale(800, 8000) if eph else 0):
        ssrc = r.choice(eph)
        history.append(ssrc)
        dist["ephemeral_runs"] += 1
        bad = None
        try:
            v = fake(gen.build(ssrc))                 # the schema object dies right after the call
            errs = ssuite_errors(gen.build(ssrc), v)
            if errs:
                bad = f"fake returned {gen.vsrc(v)}, rejected: {errs[:3]}"
        except Exception as e:  # noqa
            bad = f"fake raised {type(e).__name__}: {e}"
        if bad:
            ctx.violation("generated data does not validate after a history of other schemas: " + bad[:120],
                          {"kind": "history", "schemas": history[-12:], "seed": seed, "observed": bad,
                           "expected": "a value accepted by validate(schema, value), whatever was generated before"})
            break
    bad = common.eval_cases(ctx.workdir, "c01", terms, "gencase", "gencase_ok",
                            extra_requires="Require Import D42.PyRandom D42.RegexGen D42.Generate D42.CaseGen.")
    for i in bad[:10]:
        ssrc, used = infos[i]
        ctx.violation("generator output differs from the model's under the same tape",
                      {"kind": "input", "schema": ssrc, "tape": used,
                       "theorem_or_suite": "C01 correspondence: gen (theorem gen_sound is about the model's generator)"},
                      failing_input=False)
    # the theorem's hypothesis, decided inside Coq for every schema of this run (satb, proved equivalent to sat):
    # where it holds, NO scripted tape may make the implementation fail - no known-finding shape excuses that
    not_sat = set(common.eval_cases(ctx.workdir, "c01sat", sat_terms, "satcase", "satcase_ok",
                                    extra_requires="Require Import D42.PyRandom D42.RegexGen D42.Generate D42.SatB D42.CaseSat."))
    dist["hypothesis_sat_holds"] = len(sat_terms) - len(not_sat)
    dist["hypothesis_sat_fails"] = len(not_sat)
    for j, (si, ssrc) in enumerate(sat_info):
        if j not in not_sat and si in tape_failures:
            bad_, used_, mode_ = tape_failures[si]
            ctx.violation("a schema that satisfies the theorem's hypothesis (satb) fails under a scripted tape: " + bad_[:100],
                          {"kind": "input", "schema": ssrc, "tape": used_, "mode": mode_, "observed": bad_,
                           "expected": "gen_validates_decidable: satb w s = true -> every tape gives an accepted value",
                           "theorem_or_suite": "C01 theorem instance (gen_validates_decidable)"})
    ctx.coverage.update(
        evaluations=runs + dist["real_rng_runs"],
        distinct_nontrivial=len(set(terms)),
        rule="schemas through the public DSL from boundary pools (nesting <= %d) plus results of substitution, |, + and "
             "make_required plus %d boundary schemas (bounds beyond the generator defaults, ellipsis list forms with "
             "len, substr/alphabet/len combinations, precision grids, unsatisfiable members); each generated under "
             "tape policies all-min / all-max / alternating / random (every draw's extreme outcomes) and under the "
             "real seeded RNG; satisfiable = a value built independently of the generator is accepted. Oracle: fake "
             "returns and validate accepts. Correspondence: value / exception class / number of draws vs the model "
             "under the same tape. distinct_nontrivial = distinct (schema, tape, outcome) terms."
             % (depth, len(BOUNDARY)),
        samples=samples,
        correspondence={"suite": "generate", "cases": len(terms), "mismatches": len(bad), "unmodelled": unmodelled},
        oracle_cases=runs, satisfiable_schemas=sat_schemas, schemas=len(schemas), distribution=dist,
    )


def ssuite_errors(s, v):
    from d42 import validate
    return [type(e).__name__ for e in validate(s, v).get_errors()]


def replay(data):
    from d42 import fake, validate
    if "schemas" in data:
        _random.seed(data.get("seed", 0))
        for src in data["schemas"]:
            try:
                v = fake(gen.build(src))
                print(src, "->", gen.vsrc(v), validate(gen.build(src), v).get_errors())
            except Exception as e:  # noqa
                print(src, "-> raised", repr(e))
        print("expected:", data.get("expected"))
        return 0
    s = eval(data["schema"], dict(gen.NS, substitute=__import__("d42").substitute,
                                  make_required=__import__("d42.utils", fromlist=["x"]).make_required))
    if "tape" in data:
        outcome, res = gsuite.run(s, tape.Tape(data["tape"]))
    else:
        _random.seed(data.get("seed", 0))
        try:
            outcome, res = "ok", fake(s)
        except Exception as e:  # noqa
            outcome, res = "raise", e
    print("schema:", data["schema"])
    print("outcome:", outcome, repr(res))
    if outcome == "ok":
        print("validate:", validate(s, res).get_errors())
    return 0
