"""C17 - seeded generation is reproducible."""
import math
import json
import os
import random as _random
import re
import subprocess
import sys

from niltype import Nil

import absn
import common
import gen
import gsuite
import ssuite
import tape

PROPS_FILE = "props/C17.v"
MODEL_FILES = ["theories/Generate.v", "theories/EnvFree.v", "theories/CaseGen.v"]
EXTRA_TRUSTED = [
    "random.seed + the Mersenne Twister (the tape is a function of the seed) and CPython's string hashing are "
    "assumptions, not modelled; they are observed by running fresh interpreters with different PYTHONHASHSEED",
    "F18 (negated character classes iterate a set) is classified by pattern shape: sre.parse tree contains NEGATE / "
    "NOT_LITERAL",
]

CHILD = os.path.join(os.path.dirname(os.path.dirname(os.path.abspath(__file__))), "c17_child.py")


def env_free(s):
    from d42.declaration.types import DateSchema, DateTimeSchema, UUID4Schema
    for x in ssuite._walk(s):
        if isinstance(x, (UUID4Schema, DateTimeSchema, DateSchema)) and x.props.get("value") is Nil:
            return False
    return True


def has_negated_class(s):
    from d42.declaration.types import StrSchema
    sre = absn.sre
    src = absn.src

    def walk(items):
        for op, av in items:
            if op == src.NOT_LITERAL:
                return True
            if op == src.IN and av and av[0][0] == src.NEGATE:
                return True
            if op == src.BRANCH and any(walk(a) for a in av[1]):
                return True
            if op == src.SUBPATTERN and walk(av[3]):
                return True
            if op in (src.MAX_REPEAT, src.MIN_REPEAT) and walk(av[2]):
                return True
        return False
    for x in ssuite._walk(s):
        if isinstance(x, StrSchema) and x.props.get("pattern") is not Nil:
            if walk(sre.parse(x.props.get("pattern"))):
                return True
    return False


# what else differs between two interpreters running "the same program with the same seed": environment
# variables (CI worker ids, locale, time zone, user), the working directory, the recursion limit, optimisation
ENVIRONMENTS = [
    {},
    {"PYTEST_XDIST_WORKER": "gw1", "PYTEST_CURRENT_TEST": "t.py::test (call)", "TZ": "Asia/Tokyo", "LANG": "tr_TR.UTF-8",
     "LC_ALL": "C", "USER": "someone", "HOME": "/nonexistent", "CI": "true", "D42_CHILD_RECURSIONLIMIT": "3000",
     "D42_CHILD_CWD": "/tmp"},
    {"PYTEST_XDIST_WORKER": "gw7", "TZ": "America/St_Johns", "PYTHONOPTIMIZE": "1", "COLUMNS": "40", "D42_CHILD_RECURSIONLIMIT": "1500"},
    # the caller's arithmetic settings: a decimal context with little precision and another rounding mode
    {"D42_CHILD_DECIMAL": "4,ROUND_UP", "TZ": "UTC"},
]


def run_children(hashseed, jobs, k=0):
    """one fresh interpreter with the given PYTHONHASHSEED (and the k-th environment) runs all jobs"""
    env = dict(os.environ)
    env["PYTHONHASHSEED"] = str(hashseed)
    env.update(ENVIRONMENTS[k % len(ENVIRONMENTS)])
    p = subprocess.run([sys.executable, CHILD], input=json.dumps(jobs), capture_output=True, text=True, env=env,
                       timeout=900)
    if p.returncode != 0:
        raise common.CheckBroken("C17 child failed: " + p.stderr[-2000:])
    return json.loads(p.stdout)


class Recorder(tape.Tape):
    """lets the REAL random module decide and records each outcome as the tape entry that
    decodes to it (PyRandom.v), so the model can replay the run"""
    script_foreign = False          # every other primitive stays the real one

    def __init__(self, saved):
        super().__init__(())
        self.real_randint, self.real_choice, self.real_uniform = saved

    def randint(self, a, b):
        r = self.real_randint(a, b)
        self.used.append(r - a)
        return r

    def choice(self, seq):
        if not len(seq):
            raise IndexError("Cannot choose from an empty sequence")
        i = _random.randrange(len(seq))      # random.choice uses the same _randbelow(len(seq))
        self.used.append(i)
        return seq[i]

    def uniform(self, a, b):
        f = self.real_uniform(a, b)
        if f != f or f in (math.inf, -math.inf):
            # random.uniform overflowed (infinite or > 1.8e308-wide span): outside the range
            # contract the tape model assumes (PyRandom.v; C01's F23) - not replayable
            self.outside_contract = True
        self.used.append(tape.float_bits(f))
        return f


def run(ctx):
    r = ctx.rng
    n_seq = ctx.scale(150, 1500)
    hashseeds = [0, 1, 7, 12345] if not ctx.thorough() else [0, 1, 2, 3, 7, 11, 42, 99, 1234, 12345, 65536, 99999, 7777777,
                                                             31337, 271828, 4294967295]
    depth = ctx.scale(3, 5)
    dist = {"sequences": 0, "schemas": 0, "negated_class": 0, "process_runs": 0, "differences": 0, "relaxed_dicts": 0}
    samples = []
    terms, infos = [], []
    neg_pool = ["schema.str.regex('[^a]')", "schema.str.regex('x[^0-9a-f]{3}')", "schema.list(schema.str.regex('[^\\\\w]+')).len(2)"]
    fixed_seeds = [0, 0.0, "", b"", 1, -1, 2 ** 70, "seed", 3.5, b"\x00", True, False, math.nan, math.inf]
    jobs, meta = [], []
    for q in range(n_seq):
        seqlen = r.randint(1, 5)
        sources, schemas = [], []
        while len(sources) < seqlen:
            src, s = gen.gen_schema(r, r.randint(0, depth))
            if not env_free(s):
                continue
            sources.append(src)
            schemas.append(s)
        if q % 6 == 5:
            src = r.choice(neg_pool)
            sources.append(src)
            schemas.append(gen.build(src))
        if q % 4 == 1:
            # a relaxed dict with several keys whose members draw
            ks = r.sample(["a", "b", "c", "id", "zz", "é", "k1", "k2"], r.randint(2, 5))
            src = "schema.dict({" + ", ".join(f"{k!r}: {r.choice(['schema.int', 'schema.str.len(3)', 'schema.bool', 'schema.float'])}"
                                              for k in ks) + ", ...: ...})"
            sources.append(src)
            schemas.append(gen.build(src))
            dist["relaxed_dicts"] += 1
        if q % 7 == 3:
            # a schema whose generation RAISES part-way (an unsupported construct inside a repeat), followed by
            # patterns with repeats: a failed generation must leave nothing behind that later values depend on
            bad = r.choice(["schema.str.regex('a(\\\\s)+')", "schema.str.regex('(x\\\\b){2,}')", "schema.list(schema.str.regex('(\\\\s|b)*c')).len(2)"])
            after = r.sample(["schema.str.regex('[a-c]{2,}x+')", "schema.str.regex('\\\\w+@\\\\w+')", "schema.str.regex('(ab)*c{3,}')",
                              "schema.list(schema.str.regex('\\\\d+')).len(3)", "schema.list(schema.int)",
                              "schema.list(schema.list(schema.bool))", "schema.dict({'a': schema.list(schema.str.len(2))})",
                              "schema.list(schema.float.min(0.0).max(1.0))"], 3)
            for src in [bad] + after:
                sources.append(src)
                schemas.append(gen.build(src))
            dist["raising_then_repeats"] = dist.get("raising_then_repeats", 0) + 1
        if q % 9 == 4:
            # repeats nested deeper than any fraction of a usual recursion limit (each level draws 0 or 1)
            deep = r.choice([130, 140, 150])
            inner = "ab"
            for lvl in range(deep):        # the innermost levels draw (1 or 2), the outer ones only nest
                inner = "(?:" + inner + ")" + ("{1,2}" if lvl < 4 else "{1}")
            src = "schema.str.regex('" + inner + "c')"
            sources.append(src)
            schemas.append(gen.build(src))
            sources.append("schema.list(schema.int)")
            schemas.append(gen.build("schema.list(schema.int)"))
            dist["deeply_nested_repeats"] = dist.get("deeply_nested_repeats", 0) + 1
        if q % 5 == 2:
            # schemas built by make_required / + from dicts with several drawing members: the ORDER of
            # the result's keys decides the order of the draws (keys given as a set, or not at all)
            ks = r.sample(["a", "bb", "ccc", "id", "zz", "é", "k1", "k2", "name"], r.randint(3, 6))
            d = "schema.dict({" + ", ".join(f"optional({k!r}): {r.choice(['schema.int', 'schema.str.len(3)', 'schema.bool', 'schema.float'])}"
                                            for k in ks) + "})"
            sub = r.sample(ks, r.randint(2, len(ks)))
            src = r.choice([f"make_required({d})", "make_required(%s, {%s})" % (d, ", ".join(repr(k) for k in sub)),
                            "make_required(%s, [%s])" % (d, ", ".join(repr(k) for k in sub)),
                            f"({d} + schema.dict({{'extra': schema.int, {sub[0]!r}: schema.str.len(2)}}))",
                            "make_required(%s + schema.dict({'extra': schema.int}), {%s})" % (d, ", ".join(repr(k) for k in sub))])
            sources.append(src)
            schemas.append(gen.build(src))
            dist["built_by_combinators"] = dist.get("built_by_combinators", 0) + 1
        seed = fixed_seeds[q] if q < len(fixed_seeds) else r.choice([0, 1, 42, r.randrange(1 << 32), "seed", 3.5])
        jobs.append({"seed": gen.vsrc(seed), "schemas": sources, "repeat": 2, "thread": q % 3 == 0})
        meta.append((seed, sources, schemas, any(has_negated_class(s) for s in schemas)))
        dist["sequences"] += 1
        dist["schemas"] += len(schemas)
    # (a) fresh interpreters with different hash randomisation; each repeats every run twice
    outs = {}
    for k, hs in enumerate(hashseeds):
        outs[hs] = run_children(hs, jobs, k)
        dist["process_runs"] += 1
    # (a') calls made deep in the caller's stack, in a fresh interpreter: RecursionError or the shallow call's value
    deep_sources = ["nest:%d" % k for k in (3, 40, 90, 130, 170, 200)] + [
        "schema.list(schema.list(schema.list(schema.int).len(2)).len(2)).len(2)", "schema.dict({'a': schema.list(schema.str.len(3)).len(4), 'b': schema.str.regex('(a|b){3}x+')})"]
    deep_job = {"seed": "42", "schemas": deep_sources, "depths": [200, 450, 600, 700, 800, 900]}
    for row, src in zip(run_children(hashseeds[0], [deep_job], 0)[0], deep_sources):
        dist["deep_stack_calls"] = dist.get("deep_stack_calls", 0) + len(row)
        ref = row[0]
        bad = [x for x in row[1:] if x != ref and x != "raise:RecursionError"]
        if ref.startswith("raise:") or bad:
            ctx.violation("a seeded generation called deep in the caller's stack returns other values than the same call made shallow",
                          {"kind": "history", "seed": "42", "schema": src[:300], "stack_depths": [0] + deep_job["depths"] + [0],
                           "observed": [x[:80] for x in row], "expected": "the shallow value, or RecursionError"})
            break
    for q, (seed, sources, schemas, negated) in enumerate(meta):
        dist["negated_class"] += int(negated)
        for hs in hashseeds:
            res = outs[hs][q]
            if any(x != res[0] for x in res[1:]):
                which = "in a worker thread of, or a worker process forked from," if res[0] == res[1] else "in"
                ctx.violation(f"repeating the seeded sequence {which} the same process gives different values",
                              {"kind": "history", "seed": repr(seed), "schemas": sources, "hashseeds": [hs],
                               "thread": bool(len(res) > 2), "observed": [r_[:3] for r_ in res]})
                break
        ref = outs[hashseeds[0]][q][0]
        diff = [hs for hs in hashseeds if outs[hs][q][0] != ref]
        if diff:
            dist["differences"] += 1
            ex = f"seed={seed!r}, schemas={sources}, PYTHONHASHSEED {hashseeds[0]} vs {diff[0]}"
            if negated and ctx.known_finding("F18", ex[:300]):
                pass
            elif isinstance(seed, float) and seed != seed and ctx.known_finding("F37", ex[:300]):
                pass
            else:
                other = outs[diff[0]][q][0]
                idx = next(i for i in range(len(ref)) if other[i] != ref[i])
                ctx.violation("seeded generation differs between interpreters",
                              {"kind": "history", "seed": repr(seed), "schemas": sources, "hashseeds": [hashseeds[0], diff[0]],
                               "first_difference_at": idx, "observed": [ref[idx][:300], other[idx][:300]],
                               "expected": "the same values"})
        if len(samples) < 4 and q > 12:
            samples.append({"seed": repr(seed), "schemas": sources, "hashseeds": hashseeds})
    # (b) the same runs in this process with the real RNG recorded as a tape; the model replays it
    from d42.generation import Random
    generator = gsuite.make_generator()
    saved = (_random.randint, _random.choice, _random.uniform)
    for seed, sources, schemas, negated in meta[:ctx.scale(60, 600)]:
        Random().set_seed(seed)
        for src, s in zip(sources, schemas):
            rec = Recorder(saved)
            outcome, res = gsuite.run(s, rec, generator)
            if getattr(rec, "outside_contract", False):
                dist["uniform_outside_contract"] = dist.get("uniform_outside_contract", 0) + 1
                continue
            try:
                terms.append(gsuite.case_term(s, rec.used, outcome, res))
                infos.append((src, repr(seed)))
            except absn.Unmodelled:
                pass
    bad = common.eval_cases(ctx.workdir, "c17", terms, "gencase", "gencase_ok",
                            extra_requires="Require Import D42.PyRandom D42.RegexGen D42.Generate D42.CaseGen.")
    for i in bad[:10]:
        src, seed = infos[i]
        ctx.violation("the model replaying the recorded draws of the real RNG gives a different value",
                      {"kind": "input", "schema": src, "seed": seed,
                       "theorem_or_suite": "C17 correspondence: recorded tape (theorem gen_world_independent_partial "
                                           "is about the model's generator)"}, failing_input=False)
    ctx.coverage.update(
        evaluations=dist["process_runs"] * 2 * dist["sequences"] + len(terms),
        distinct_nontrivial=len(set(terms)),
        rule="sequences of 1-7 environment-free schemas (no unfixed uuid4/datetime/date; nesting <= %d; every 6th "
             "sequence gets a pattern with a negated class = the F18 stream, every 4th a relaxed dict with several "
             "drawing members), seeds of type int/float/str/bytes/bool incl. the falsy ones; each "
             "sequence is generated after Random().set_seed(k) twice in each of %d fresh interpreters with different "
             "PYTHONHASHSEED and all outputs (canonical value terms) must be identical; the same run in-process with "
             "the real RNG's outcomes recorded as a tape, replayed by the Coq model." % (depth, len(hashseeds)),
        samples=samples,
        correspondence={"suite": "generate under recorded real draws", "cases": len(terms), "mismatches": len(bad),
                        "unmodelled": 0},
        oracle_cases=dist["process_runs"], distribution=dist,
    )


def replay(data):
    sources = data.get("schemas") or [data["schema"]]
    for hs in data.get("hashseeds", [0, 1]):
        print("PYTHONHASHSEED", hs, run_children(hs, [{"seed": data["seed"], "schemas": sources, "repeat": 2,
                                                       "thread": data.get("thread", False)}])[0])
    return 0
