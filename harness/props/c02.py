"""C02 - validation verdict equals the declared constraints."""
import common
import vsuite

PROPS_FILE = "props/C02.v"
MODEL_FILES = ["theories/Validate.v", "theories/Conforms.v"]


def run(ctx):
    n = ctx.scale(260, 5000)
    depth = ctx.scale(3, 5)
    cases = vsuite.make_cases(ctx, n, depth, zoo_rate=0.15, perturb=ctx.scale(10, 16))
    for c in cases:
        vsuite.observe(c)
    # the other spellings of the verdict: schema == value, schema != value (and reflected) and validate_or_fail say
    # the same as validate(schema, value).get_errors() == []
    from d42 import validate_or_fail
    from d42.validation import ValidationException
    spellings = 0
    for c in cases:
        if c.obs_kind != "ok" or c.mode != "Plain":
            continue
        verdict = not c.errors
        obs = {}
        for name, f in (("S == v", lambda: c.schema == c.value), ("S != v", lambda: not (c.schema != c.value)),
                        ("v == S", lambda: c.value == c.schema), ("v != S", lambda: not (c.value != c.schema))):
            try:
                obs[name] = bool(f())
            except Exception as e:  # noqa
                obs[name] = "raised " + type(e).__name__
        try:
            obs["validate_or_fail"] = validate_or_fail(c.schema, c.value) is True
        except ValidationException:
            obs["validate_or_fail"] = False
        except Exception as e:  # noqa
            obs["validate_or_fail"] = "raised " + type(e).__name__
        spellings += 1
        import d42.declaration
        reflected_defined = not isinstance(c.value, d42.declaration.Schema)
        for name, got in obs.items():
            if name.startswith("v ") and not reflected_defined:
                continue
            if got != verdict and not isinstance(got, str):
                rp = c.replay_dict()
                rp.update(observed=f"{name} says {got}", expected=f"{verdict} (validate reports {len(c.errors)} errors)")
                ctx.violation(f"`{name}` disagrees with validate(S, v)", rp)
                break
    # the regex clause, restated with Python's own matcher (Regex.v reads the categories \\d \\w \\b as ASCII, so cases
    # that put them next to non-ASCII text are outside the model; `re` decides them here): a str leaf that declares
    # only a pattern accepts a str exactly when re.search finds the pattern in it
    import re
    from d42.declaration.types import StrSchema
    regex_clause = 0
    for c in cases:
        if c.obs_kind != "ok" or type(c.schema) is not StrSchema or list(c.schema.props) != ["pattern"] or type(c.value) is not str:
            continue
        regex_clause += 1
        want = re.search(c.schema.props.pattern, c.value) is not None
        if want != (not c.errors):
            rp = c.replay_dict()
            rp.update(observed="accepts" if not c.errors else "rejects",
                      expected=f"re.search({c.schema.props.pattern!r}, value) is {'not ' if want else ''}None")
            ctx.violation("the verdict of a str schema that declares only a pattern is not that of re.search", rp)
    modelled = [c for c in cases if c.term is not None]
    bad = common.eval_cases(ctx.workdir, "c02", [c.term for c in modelled], "vcase", "verdict_case_ok")
    dist, kinds = vsuite.distribution(cases)
    # the theorems' hypothesis `wf s`, decided inside Coq for the schema of every case
    not_wf = common.eval_cases(ctx.workdir, "c02wf", [c.term for c in modelled], "vcase", "wf_case_ok")
    dist["hypothesis_wf_holds"] = len(modelled) - len(not_wf)
    dist["hypothesis_wf_fails"] = len(not_wf)
    dist["regex_clause_by_re"] = regex_clause
    dist["verdict_spellings"] = spellings
    ctx.coverage.update(
        evaluations=len(cases),
        distinct_nontrivial=vsuite.distinct_nontrivial(cases),
        rule="(schema, value) pairs: schemas built through the public DSL from boundary pools (nesting <= %d); "
             "values = independently constructed conforming values, every one-step perturbation at every depth "
             "(sampled), zoo injections, unrelated values. Non-trivial = rejected, raised, or a container value; "
             "distinct by canonical Coq term. Compared: implementation verdict vs model verdict "
             "(model verdict is proved equal to conformance)." % depth,
        samples=[{"schema": c.ssrc, "value": c.vsrc(), "errors": [type(e).__name__ for e in (c.errors or [])]}
                 for c in modelled[:3] + modelled[len(modelled) // 2: len(modelled) // 2 + 3]],
        correspondence={"suite": "validate verdict", "cases": len(modelled), "mismatches": len(bad),
                        "unmodelled": len(cases) - len(modelled)},
        distribution=dist, error_kinds=kinds,
    )
    for i in bad[:10]:
        c = modelled[i]
        impl = "accepts" if (c.obs_kind == "ok" and not c.errors) else ("raises " + type(c.exc).__name__ if c.obs_kind == "raise" else "rejects")
        rp = c.replay_dict()
        rp.update(observed=impl, expected="the opposite verdict (model validate = conforms, theorem validate_iff_conforms)",
                  theorem_or_suite="C02 verdict correspondence")
        ctx.violation(f"validate verdict differs from conformance: implementation {impl}", rp)


def replay(data):
    import gen
    s = gen.build(data["schema"])
    v = eval(data["value"], dict(gen.NS))
    from d42 import validate
    try:
        res = validate(s, v)
        print("schema:", data["schema"])
        print("value :", data["value"])
        print("implementation errors:", res.get_errors())
        print("expected:", data.get("expected"))
    except Exception as e:  # noqa
        print("implementation raised", repr(e))
    return 0
