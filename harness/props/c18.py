"""C18 - rollout is the inverse of flattening dotted keys.

Streams (all drawn from ctx.rng):
  tree     random nested mappings (depth <= 4 / 5, fan-out <= 5, optional leaves, optional
           top-level ...: ...), flattened HERE (independently of d42) with a random separator,
           flat key order shuffled.  Direct oracle on the implementation: result == the
           original mapping, same key kinds (optional on the same leaves), payloads identical
           objects.  Correspondence (`trcase_ok`): the hypotheses of rollout_flatten_inverse
           evaluated in Coq on the tree agree with the harness's own verdict, the observed
           result satisfies the theorem's conclusion, and the model predicts it exactly
           (including key order).
  nested   the nested mapping itself is the input (rollout_nested_id): returned equal, same
           key order, payloads identical.
  corner   trees hitting the carved-out regions (empty interior dict, optional on an interior
           key, ambiguous segments for multi-character separators): correspondence only.
  generic  semi-flat / malformed inputs (nested dict values next to dotted keys, leaf-and-
           prefix conflicts, non-str keys, ...: non-ellipsis, empty separator): outcome or
           exception class against the model (`rocase_ok`).
"""
import common
import absn

PROPS_FILE = "props/C18.v"
MODEL_FILES = ["theories/Rollout.v"]
EXTRA_TRUSTED = [
    "C18: leaf payloads are opaque non-dict objects without __setitem__ (model: `leaf[tail] = v` raises TypeError); "
    "dict values of the input are not aliased (the in-place `updated[key][tail] = val` on an input sub-dict is "
    "modelled functionally); keys are exact str / optional(str) / Ellipsis, everything else is RKOther",
    "C18: str.split / str.join of CPython are modelled by Rollout.split / Rollout.join (compared on every case "
    "through the rollout outcome); RecursionError is the model's out-of-fuel value (never reached by generated inputs)",
    "C18: the harness's own flattener (props/c18.py flatten) is the definition of 'flattening' used by the oracle; "
    "Rollout.flatten_m / ent are checked against it per case (is_perm_b in trcase_ok)",
]
REQ = "Require Import D42.Rollout."

SEPS = [".", "/", "::", "->", "__"]
# key segments; includes the empty string, non-ASCII, and segments sharing characters with the
# multi-character separators (those make some paths ambiguous -> 'corner' stream)
POOL = ["a", "b", "c", "id", "name", "friend", "result", "x1", "", "", "ключ", "名前", "é", "a b", "0",
        "deleted_at", "k-", ">z", "q:", ":", "_u", "v_", "-", "_", "A", "ß",
        " a", "a ", " ", "\ta", "a\n", "A ", "\u00a0x", "C:\\", "e\u0301", "%s", "{0}"]      # edge whitespace, backslash, format text
SAFE = ["a", "b", "c", "id", "name", "friend", "result", "x1", "", "", "ключ", "名前", "é", "a b", "0",
        "deleted_at", "A", "ß", " a", "a ", " ", "\ta", "a\n", "\u00a0x", "C:\\", "e\u0301", "%s", "{0}"]


# ------------------------------------------------------------------ payloads
class Sent:
    """opaque payload (no __setitem__, default identity equality)"""
    __slots__ = ("i",)

    def __init__(self, i):
        self.i = i

    def __repr__(self):
        return f"S({self.i})"


_SENT = {}


def S(i):
    if i not in _SENT:
        _SENT[i] = Sent(i)
    return _SENT[i]


class Payloads:
    """payload objects of one case with their source text and identity ids"""

    def __init__(self, rng):
        self.rng = rng
        self.n = 0
        self.objs = []       # keeps them alive
        self.ids = {}        # id(obj) -> small int

    def new(self):
        r = self.rng
        i = self.n
        self.n += 1
        kind = r.randrange(12)
        if kind >= 10:
            # what rollout is for: the payloads of a flattened dict SCHEMA are schemas - among them dict schemas, which
            # have keys() / __getitem__ / __iter__ without being dicts - and read-only mappings
            from d42 import schema as _schema
            import types as _types
            src = r.choice(["schema.dict({'x': schema.int})", "schema.dict", "schema.dict({...: ...})", "schema.int", "schema.list([schema.str])",
                            "schema.dict({'x': schema.dict({'y': schema.none})})", "MappingProxyType({'a': 1})", "MappingProxyType({})", "...", "..."])     # `...` under an ordinary key is a payload like any other
            v = eval(src, {"schema": _schema, "MappingProxyType": _types.MappingProxyType})
        elif kind <= 2:
            v, src = S(i), f"S({i})"
        elif kind == 3:
            v, src = 1000 + i, str(1000 + i)
        elif kind == 4:
            v, src = f"v{i}", repr(f"v{i}")
        elif kind == 5:
            v, src = None, "None"
        elif kind == 6:
            v, src = [i], f"[{i}]"
        elif kind == 7:
            v, src = (i, "t"), f"({i}, 't')"
        elif kind == 8:
            v, src = i + 0.5, repr(i + 0.5)
        else:
            v, src = r.choice([(0, "0"), ("", "''"), (False, "False"), ((), "()"), ([], "[]")])
        self.objs.append(v)
        self.id_of(v)
        return v, src

    def id_of(self, v):
        k = id(v)
        if k not in self.ids:
            self.ids[k] = len(self.ids)
            self.objs.append(v)
        return self.ids[k]


# ------------------------------------------------------------------ trees
# node = list of (opt, key, child) ; child = ("leaf", obj, src) | ("node", node)
def gen_node(r, pay, depth, pool, top=False, p_opt=0.3, p_empty=0.0, p_optnode=0.0):
    fan = r.choice([1, 1, 2, 2, 3, 4, 5]) if depth > 1 else r.choice([1, 2, 2, 3, 4, 5])
    if top and r.random() < 0.03:
        fan = 0
    out = []
    used = set()
    for _ in range(fan):
        k = r.choice(pool)
        if depth > 1 and r.random() < 0.55:
            if r.random() < p_empty:
                sub = []
            else:
                sub = gen_node(r, pay, depth - 1, pool, False, p_opt, p_empty, p_optnode)
            o = r.random() < p_optnode
            if (o, k) in used:
                continue
            used.add((o, k))
            out.append((o, k, ("node", sub)))
        else:
            o = r.random() < p_opt
            if (o, k) in used:
                continue
            used.add((o, k))
            v, src = pay.new()
            out.append((o, k, ("leaf", v, src)))
    return out


def node_depth(node):
    return 1 + max([node_depth(c[1]) for _, _, c in node if c[0] == "node"] + [0])


def leaf_count(node):
    return sum(1 if c[0] == "leaf" else leaf_count(c[1]) for _, _, c in node)


def to_nested(node, optional):
    d = {}
    for o, k, c in node:
        key = optional(k) if o else k
        d[key] = c[1] if c[0] == "leaf" else to_nested(c[1], optional)
    return d


def nested_src(node):
    items = []
    for o, k, c in node:
        ks = f"optional({k!r})" if o else repr(k)
        items.append(f"{ks}: " + (c[2] if c[0] == "leaf" else nested_src(c[1])))
    return "{" + ", ".join(items) + "}"


def flatten(node, prefix=()):
    """the flattening of the property: (optional?, path, payload, payload source) per leaf"""
    out = []
    for o, k, c in node:
        if c[0] == "leaf":
            out.append((o, prefix + (k,), c[1], c[2]))
        else:
            out += flatten(c[1], prefix + (k,))
    return out


def py_hyp(node, sep, top=True):
    """the harness's own verdict on the theorem's hypotheses (independent of the Coq text)"""
    if not sep:
        return False
    for o, k, c in node:
        if c[0] == "node":
            if o or not c[1] or not py_hyp(c[1], sep, False):
                return False
    if top:
        for _, path, _, _ in flatten(node):
            path = list(path)
            for i in range(len(path)):
                if sep.join(path[i:]).split(sep) != path[i:]:
                    return False
    return True


def ctree(node, pay):
    items = []
    for o, k, c in node:
        sub = f"(TLeaf {pay.id_of(c[1])})" if c[0] == "leaf" else f"(TNode {ctree(c[1], pay)})"
        items.append(f"({absn.cbool(o)}, {absn.cstr(k)}, {sub})")
    return absn.clist(items)


# ------------------------------------------------------------------ abstraction of dicts
def ckey(k, optional):
    if k is ...:
        return "RKEll"
    if type(k) is str:
        return f"(RKStr false {absn.cstr(k)})"
    if type(k) is optional and type(k.key) is str:
        return f"(RKStr true {absn.cstr(k.key)})"
    return "RKOther"


def cval(v, pay, optional, depth=0, marker_entry=True):
    if depth > 40:
        raise absn.Unmodelled("too deep")
    if v is ... and marker_entry:
        return "REll"          # the value of the `...: ...` entry; under an ordinary key `...` is a payload like any other
    if isinstance(v, dict):
        return "(RDict " + cdict(v, pay, optional, depth + 1) + ")"
    return f"(RLeaf {pay.id_of(v)})"


def cdict(d, pay, optional, depth=0):
    return absn.clist([f"({ckey(k, optional)}, {cval(v, pay, optional, depth, marker_entry=k is ...)})" for k, v in d.items()])


def observe(fn, pay, optional):
    try:
        res = fn()
    except RecursionError:
        return "(Raise OtherExn)", None, "RecursionError"
    except Exception as e:  # noqa
        return f"(Raise {absn.cexn(e)})", None, type(e).__name__
    if not isinstance(res, dict):
        raise absn.Unmodelled("result is not a dict")
    return f"(Ok {cdict(res, pay, optional)})", res, None


# ------------------------------------------------------------------ the direct oracle
def same_mapping(res, expect, optional, ordered):
    """None when res is the mapping expect (same keys of the same kind, dict values recursively,
    leaf payloads identical objects); otherwise a description of the first difference."""
    if type(res) is not dict:
        return f"not a dict: {res!r}"
    if len(res) != len(expect):
        return f"key sets differ: {list(res)!r} vs {list(expect)!r}"
    if ordered and [(type(k), k) for k in res] != [(type(k), k) for k in expect]:
        return f"key order differs: {list(res)!r} vs {list(expect)!r}"
    for k, ev in expect.items():
        if k not in res:
            return f"key {k!r} missing"
        kk = next(x for x in res if x == k)
        if type(kk) is not type(k) or (isinstance(k, optional) and type(kk.key) is not type(k.key)):
            return f"key {k!r} came back as {kk!r}"
        rv = res[k]
        if isinstance(ev, dict):
            sub = same_mapping(rv, ev, optional, ordered)
            if sub:
                return f"under {k!r}: {sub}"
        elif rv is not ev:
            return f"payload under {k!r} is {rv!r}, expected the object {ev!r}"
    return None


# ------------------------------------------------------------------ generic / malformed inputs
def gen_generic(r, pay, optional):
    """(dict, source, separator): semi-flat and malformed inputs"""
    sep = r.choice(SEPS + ["."] * 3)
    items = []

    def leafsrc():
        if r.random() < 0.08:
            return ..., "..."
        return pay.new()

    def rand_key(maxseg=4):
        n = r.choice([1, 1, 2, 2, 3, maxseg])
        return sep.join(r.choice(["a", "b", "c", "", "id"]) for _ in range(n))

    def rand_dict(depth):
        d, parts = {}, []
        for _ in range(r.randrange(0, 4)):
            k, ks = keyobj()
            if depth > 0 and r.random() < 0.4:
                v, vs = rand_dict(depth - 1)
            else:
                v, vs = leafsrc()
            if k in d:
                continue
            d[k] = v
            parts.append(f"{ks}: {vs}")
        return d, "{" + ", ".join(parts) + "}"

    def keyobj():
        x = r.random()
        if x < 0.04:
            bad = r.choice([("None", None), ("1", 1), ("optional(None)", optional(None)),
                            ("optional(optional('a'))", optional(optional("a"))), ("b'a'", b"a"),
                            ("('a',)", ("a",)), ("optional(1)", optional(1)), ("2.5", 2.5)])
            return bad[1], bad[0]
        if x < 0.10:
            return ..., "..."
        s = rand_key()
        if r.random() < 0.25:
            return optional(s), f"optional({s!r})"
        return s, repr(s)

    d = {}
    for _ in range(r.randrange(0, 7)):
        k, ks = keyobj()
        if k is ...:
            v, vs = (..., "...") if r.random() < 0.8 else leafsrc()
        elif r.random() < 0.35:
            v, vs = rand_dict(2)
        else:
            v, vs = leafsrc()
        if k in d:
            continue
        d[k] = v
        items.append(f"{ks}: {vs}")
    if r.random() < 0.04:
        sep = ""
    return d, "{" + ", ".join(items) + "}", sep


# ------------------------------------------------------------------ run
def run(ctx):
    from d42 import optional
    from d42.utils import rollout
    r = ctx.rng
    n_tree = ctx.scale(420, 20000)
    n_corner = ctx.scale(120, 4000)
    n_generic = ctx.scale(260, 10000)
    maxdepth = ctx.scale(4, 5)

    tr_terms, tr_meta = [], []
    ro_terms, ro_meta = [], []
    unmodelled = 0
    oracle_cases = 0
    dist = {"tree": 0, "nested": 0, "corner": 0, "generic": 0, "hyp_true": 0, "hyp_false": 0,
            "with_ellipsis": 0, "with_optional": 0, "with_empty_segment": 0, "multi_char_sep": 0,
            "depth": {}, "raised": {}}
    samples = []
    seen = set()

    def tree_case(stream):
        nonlocal unmodelled, oracle_cases
        pay = Payloads(r)
        depth = r.choice([1] + list(range(2, maxdepth + 1)) * 3)
        if stream == "tree":
            sep = r.choice(SEPS)
            node = gen_node(r, pay, depth, SAFE, top=True, p_opt=r.choice([0.0, 0.3, 0.3, 0.6, 1.0]))
        else:
            depth = max(depth, 2)
            mode = r.choice(["ambiguous", "ambiguous", "empty", "optnode", "mixed"])
            sep = r.choice(SEPS[2:]) if mode == "ambiguous" else r.choice(SEPS)
            pool = POOL if mode in ("ambiguous", "mixed") else SAFE
            if mode == "ambiguous":
                # segments ending / starting with a character of the separator
                pool = SAFE[:6] + ["a" + sep[0], sep[-1] + "b", sep[0], sep[-1], "x" + sep[:1], ""]
            node = gen_node(r, pay, depth, pool, top=True,
                            p_empty=0.35 if mode in ("empty", "mixed") else 0.0,
                            p_optnode=0.4 if mode in ("optnode", "mixed") else 0.0)
        if leaf_count(node) > 60:
            return
        ell = r.random() < 0.3
        flat = flatten(node)
        r.shuffle(flat)
        pos = r.randint(0, len(flat)) if ell else None
        d, parts = {}, []
        for i in range(len(flat) + 1):
            if i == pos:
                d[...] = ...
                parts.append("...: ...")
            if i == len(flat):
                break
            o, path, v, vsrc = flat[i]
            ks = sep.join(path)
            d[optional(ks) if o else ks] = v
            parts.append((f"optional({ks!r})" if o else repr(ks)) + ": " + vsrc)
        src = "{" + ", ".join(parts) + "}"
        hyp = py_hyp(node, sep)
        if stream == "tree" and not hyp:
            raise common.CheckBroken(f"generator produced an ill-formed tree in the tree stream: {nested_src(node)}")
        nested = to_nested(node, optional)
        nsrc = nested_src(node)
        if ell:
            nested[...] = ...
            nsrc = nsrc[:-1] + (", " if len(nsrc) > 2 else "") + "...: ...}"
        din = "[" + "; ".join(f"({ckey(k, optional)}, {cval(v, pay, optional, marker_entry=k is ...)})" for k, v in d.items()) + "]"
        try:
            obs, res, exc = observe(lambda: rollout(d, separator=sep), pay, optional)
        except absn.Unmodelled:
            unmodelled += 1
            return
        term = (f"({absn.cstr(sep)}, {absn.cbool(ell)}, {ctree(node, pay)}, {din}, {obs}, {absn.cbool(hyp)})")
        rp = {"kind": stream, "input": src, "separator": sep, "nested": nsrc,
              "call": f"rollout({src}, separator={sep!r})"}
        tr_terms.append(term)
        tr_meta.append((rp, exc, res))
        dist[stream] += 1
        dist["hyp_true" if hyp else "hyp_false"] += 1
        dist["with_ellipsis"] += ell
        dist["with_optional"] += any(o for o, _, _, _ in flat)
        dist["with_empty_segment"] += any("" in p for _, p, _, _ in flat)
        dist["multi_char_sep"] += len(sep) > 1
        dd = node_depth(node)
        dist["depth"][dd] = dist["depth"].get(dd, 0) + 1
        if exc:
            dist["raised"][exc] = dist["raised"].get(exc, 0) + 1
        if term not in seen and (dd > 1 or ell):
            seen.add(term)
        if len(samples) < 4 and dd >= 2 and stream == "tree":
            samples.append({"call": rp["call"], "result": repr(res) if exc is None else exc})
        # ---- direct oracle on the implementation
        if hyp:
            oracle_cases += 1
            if exc is not None:
                rp2 = dict(rp, observed=f"raised {exc}", expected=f"== {nsrc}",
                           theorem_or_suite="C18 oracle: rollout(flatten(m)) == m")
                ctx.violation(f"rollout raised {exc} on the flattening of a well-formed nested mapping", rp2)
            else:
                why = same_mapping(res, nested, optional, ordered=False)
                if why is None and not (res == nested and nested == res):
                    why = "Python == says the mappings differ"
                if why:
                    rp2 = dict(rp, observed=common.srepr(res), expected=nsrc, difference=why,
                               theorem_or_suite="C18 oracle: rollout(flatten(m)) == m")
                    ctx.violation("rollout(flatten(m)) differs from m: " + why, rp2)
            # already nested input: identity (needs separator-free keys, which hyp + unambiguity give
            # only per path; check directly)
            if all(sep not in k for k in all_keys(node)):
                oracle_cases += 1
                dist["nested"] += 1
                nested2 = to_nested(node, optional)
                if ell:
                    nested2[...] = ...
                pay2 = pay
                din2 = cdict(nested2, pay2, optional)
                try:
                    obs2, res2, exc2 = observe(lambda: rollout(nested2, separator=sep), pay2, optional)
                except absn.Unmodelled:
                    unmodelled += 1
                    return
                rpn = {"kind": "nested", "input": nsrc, "separator": sep,
                       "call": f"rollout({nsrc}, separator={sep!r})"}
                ro_terms.append(f"({absn.cstr(sep)}, {din2}, {obs2})")
                ro_meta.append((rpn, exc2))
                if exc2 is not None:
                    ctx.violation(f"rollout raised {exc2} on an already nested mapping",
                                  dict(rpn, observed=f"raised {exc2}", expected="the input, unchanged",
                                       theorem_or_suite="C18 oracle: nested identity"))
                else:
                    why = same_mapping(res2, nested, optional, ordered=True)
                    if why is None and res2 != nested:
                        why = "Python == says the mappings differ"
                    if why:
                        ctx.violation("rollout of an already nested mapping is not the identity: " + why,
                                      dict(rpn, observed=common.srepr(res2), expected=nsrc, difference=why,
                                           theorem_or_suite="C18 oracle: nested identity"))

    for _ in range(n_tree):
        tree_case("tree")
    for _ in range(n_corner):
        tree_case("corner")

    for _ in range(n_generic):
        pay = Payloads(r)
        d, src, sep = gen_generic(r, pay, optional)
        din = cdict(d, pay, optional)
        try:
            obs, res, exc = observe(lambda: rollout(d, separator=sep), pay, optional)
        except absn.Unmodelled:
            unmodelled += 1
            continue
        rp = {"kind": "generic", "input": src, "separator": sep, "call": f"rollout({src}, separator={sep!r})"}
        ro_terms.append(f"({absn.cstr(sep)}, {din}, {obs})")
        ro_meta.append((rp, exc))
        dist["generic"] += 1
        if exc:
            dist["raised"][exc] = dist["raised"].get(exc, 0) + 1

    bad_tr = common.eval_cases(ctx.workdir, "c18_tree", tr_terms, "trcase", "trcase_ok", extra_requires=REQ)
    bad_ro = common.eval_cases(ctx.workdir, "c18_io", ro_terms, "rocase", "rocase_ok", extra_requires=REQ)

    for i in bad_tr[:10]:
        rp, exc, res = tr_meta[i]
        rp = dict(rp, observed=(f"raised {exc}" if exc else repr(res)),
                  expected="the outcome predicted by Rollout.rollout; for well-formed unambiguous trees a dict "
                           "equal to 'nested' (rollout_flatten_inverse); hypotheses verdict equal to the harness's",
                  theorem_or_suite="C18 tree correspondence (trcase_ok)", coq_term=tr_terms[i][:4000])
        ctx.violation("rollout outcome differs from the model / theorem instance on a flattened tree", rp,
                      failing_input=False)
    for i in bad_ro[:10]:
        rp, exc = ro_meta[i]
        rp = dict(rp, observed=(f"raised {exc}" if exc else "a dict (see coq_term)"),
                  expected="the outcome predicted by Rollout.rollout",
                  theorem_or_suite="C18 input/output correspondence (rocase_ok)", coq_term=ro_terms[i][:4000])
        ctx.violation("rollout outcome differs from the model", rp, failing_input=False)

    ctx.coverage.update(
        evaluations=len(tr_terms) + len(ro_terms),
        distinct_nontrivial=len(seen),
        rule="tree stream: random nested mappings (depth <= %d, fan-out <= 5, segments from a pool with empty and "
             "non-ASCII strings, optional leaves, optional top-level ...: ...), flattened by the harness with a "
             "separator from %r, flat key order shuffled; compared: rollout(flat) == nested (Python ==, key kinds, "
             "payload identity), rollout(nested) is nested (order too), and in Coq: theorem hypotheses = harness "
             "verdict, conclusion on the observed result, model outcome == observed outcome incl. key order. "
             "corner stream: empty interior dicts, optional interior keys, ambiguous segments (correspondence only). "
             "generic stream: semi-flat and malformed inputs, outcome/exception class vs model. "
             "Non-trivial = depth >= 2 or with ellipsis; distinct by Coq term." % (maxdepth, SEPS),
        samples=samples,
        correspondence={"suite": "rollout outcome (trcase_ok + rocase_ok)", "cases": len(tr_terms) + len(ro_terms),
                        "mismatches": len(bad_tr) + len(bad_ro), "unmodelled": unmodelled},
        oracle_cases=oracle_cases,
        distribution=dist,
    )


def all_keys(node):
    out = []
    for _, k, c in node:
        out.append(k)
        if c[0] == "node":
            out += all_keys(c[1])
    return out


def replay(data):
    from d42 import optional
    from d42.utils import rollout
    import types
    from d42 import schema
    ns = {"optional": optional, "S": S, "rollout": rollout, "schema": schema, "MappingProxyType": types.MappingProxyType}
    print("call    :", data.get("call"))
    try:
        d = eval(data["input"], ns)
        res = rollout(d, separator=data["separator"])
        print("result  :", res)
    except Exception as e:  # noqa
        print("raised  :", type(e).__name__, e)
    print("expected:", data.get("expected"))
    if data.get("difference"):
        print("difference when found:", data["difference"])
    return 0
