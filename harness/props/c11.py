"""C11 - constraint refinements can be declared in any order."""
import itertools

import common
import declsuite as ds
from absn import KeyTable, Unmodelled, clist, cschema

def _hash_agrees(a, b):
    """equal objects hash equal, where they hash at all (schemas define __eq__ only and are unhashable today; "equal"
    includes being one member of a set / one key of a dict)"""
    try:
        ha, hb = hash(a), hash(b)
    except TypeError:
        return True
    return ha == hb and len({a, b}) == 1


PROPS_FILE = "props/C11.v"
MODEL_FILES = ["theories/Declare.v", "theories/CaseDeclare.v"]
EXTRA_TRUSTED = [
    "re.compile / re.search are not modelled (see C10): patterns reach the model with parse tree and 'compiles' flag",
    "equality of the schemas the orders yield is checked three ways on the implementation: Python ==, repr, and "
    "identity of the abstracted Coq terms (the last one also when a NaN parameter makes == irreflexive)",
]


def _ops(meth, *argtuples):
    return [(meth, tuple(a) if isinstance(a, tuple) else (a,)) for a in argtuples]


LEN_STR = _ops("len", "0", "6", "7", "True", "'x'", ("0", "..."), ("6", "..."), ("7", "..."), ("...", "0"),
               ("...", "6"), ("...", "5"), ("0", "6"), ("1", "10"), ("7", "8"), ("6", "6"), ("0", "0"),
               ("...", "None"), ("1.5", "..."), ("...", "..."), ("Nil", "..."))
LEN_LIST = _ops("len", "0", "1", "2", "3", "'x'", ("0", "..."), ("2", "..."), ("3", "..."), ("...", "0"),
                ("...", "2"), ("...", "1"), ("0", "2"), ("2", "2"), ("1", "'x'"), ("...", "Nil"), ("True", "..."), ("...", "..."), ("Nil", "2"))

REFINEMENTS = {
    "int": (_ops("min", "0", "5", "6", "True", "-2**70", "1.5", "None", "10**400") +
            _ops("max", "0", "5", "4", "False", "2**70", "'x'", "...", "-10**400")),
    # incl. bounds that differ only below a declared precision (1.24 / 1.2, 0.04 / 0.0 at precision 1)
    "float": (_ops("min", "0.0", "2.5", "3.5", "-0.0", "float('nan')", "float('-inf')", "1", "None", "1.24", "0.04") +
              _ops("max", "0.0", "2.5", "-0.5", "float('nan')", "float('inf')", "3", "Nil", "1.2", "1.25") +
              _ops("precision", "0", "1", "2", "15", "16", "True", "1.5")),
    "str": (LEN_STR + _ops("alphabet", "''", "'abn'", "'ab'", "1") +
            _ops("contains", "''", "'nan'", "'z'", "None") +
            _ops("regex", "'^$'", "'an+a'", "'('", "'z'", "''", "1.5")),
    "list": LEN_LIST,
}

BASES = {
    "int": ["schema.int", "schema.int(0)", "schema.int(5)", "schema.int(True)"],
    "float": ["schema.float", "schema.float(2.5)", "schema.float(0.0)", "schema.float(float('inf'))",
              "schema.float(float('nan'))"],
    "str": ["schema.str", "schema.str('')", "schema.str('banana')", "schema.str('ab')"],
    "list": ["schema.list", "schema.list([])", "schema.list([schema.int, schema.str])",
             "schema.list([schema.int, ...])", "schema.list([..., schema.int, schema.int])",
             "schema.list(schema.int)", "schema.list([...])", "schema.list([..., schema.int, ...])"],
}


def run_order(base, order):
    cur = base
    for meth, args in order:
        kind, res, unchanged, _ = ds.run_call(cur, meth, args)
        if not unchanged:
            return "mutated", None
        if kind != "ok":
            return kind, res
        cur = res
    return "ok", cur


def run(ctx):
    ds.check_environment()
    ds.extra_known(ctx)
    r = ctx.rng
    terms, srcs = [], []
    stats = {"sets": 0, "orders": 0, "all_ok": 0, "all_rejected": 0, "by_type": {}}
    unmodelled = 0
    samples = []
    keep3 = ctx.scale(0.35, 1.0)           # share of the 3-element sets run in the quick tier
    for kind_name, refs in REFINEMENTS.items():
        n_before = stats["sets"]
        for base_src in BASES[kind_name]:
            base = ds.ev(base_src)
            for size in (1, 2, 3):
                for combo in itertools.combinations(refs, size):
                    if size == 3 and keep3 < 1.0 and r.random() > keep3:
                        continue
                    stats["sets"] += 1
                    outcomes = []
                    for order in itertools.permutations(combo):
                        outcomes.append((order, run_order(base, order)))
                        stats["orders"] += 1
                    chain = lambda order: base_src + "".join(ds.call_src(m, a) for m, a in order)
                    rp = {"base": base_src, "ops": [ds.call_src(m, a) for m, a in combo],
                          "theorem_or_suite": "C11 direct oracle (all permutations on the implementation)"}
                    kinds = {k for _, (k, _) in outcomes}
                    bad = [o for o, (k, _) in outcomes if k in ("raise", "mutated")]
                    if bad:
                        k, e = dict((o, x) for o, x in outcomes)[bad[0]]
                        rp.update(chain=chain(bad[0]), observed=f"{k}: {type(e).__name__ if e else ''} {e}",
                                  expected="DeclarationError or a schema, receiver unchanged")
                        ctx.violation(f"refinement chain misbehaves: {chain(bad[0])}", rp)
                        continue
                    if len(kinds) > 1:
                        okc = next(o for o, (k, _) in outcomes if k == "ok")
                        noc = next(o for o, (k, _) in outcomes if k == "decl")
                        rp.update(observed=f"{chain(okc)} succeeds, {chain(noc)} raises DeclarationError",
                                  expected="the same outcome for every order")
                        ctx.violation(f"order of refinements matters: {chain(okc)} vs {chain(noc)}", rp)
                        continue
                    first_order, (k0, s0) = outcomes[0]
                    if k0 == "ok":
                        stats["all_ok"] += 1
                        t0 = cschema(s0, KeyTable())
                        nan = ds.nan_param(s0)
                        for o, (_, s) in outcomes[1:]:
                            same = (repr(s) == repr(s0)) and (cschema(s, KeyTable()) == t0) and (s == s0 and s0 == s)   # NaN parameters included (F10 repaired)
                            same = same and not (s != s0) and not (s0 != s) and _hash_agrees(s, s0)
                            if not same:
                                rp.update(observed=f"{chain(first_order)} -> {s0!r} but {chain(o)} -> {s!r}",
                                          expected="equal schemas for every order")
                                ctx.violation(f"orders yield different schemas: {chain(first_order)} vs {chain(o)}", rp)
                                break
                    else:
                        stats["all_rejected"] += 1
                    try:
                        kt = KeyTable()
                        recv = cschema(base, kt)
                        opst = clist([ds.cop(m, [ds.ev(a) for a in args], kt) for m, args in combo])
                        terms.append(f"({recv}, {opst}, {ds.coutcome(k0, s0, kt)})")
                        srcs.append(rp)
                        if len(samples) < 6 and size == 3 and r.random() < 0.01:
                            samples.append({"base": base_src, "ops": rp["ops"], "outcome": k0})
                    except Unmodelled:
                        unmodelled += 1
        stats["by_type"][kind_name] = stats["sets"] - n_before
    bad = common.eval_cases(ctx.workdir, "c11", terms, "pcase", "pcase_ok", extra_requires=ds.REQUIRES)
    for i in bad[:10]:
        rp = dict(srcs[i])
        rp.update(case=terms[i], theorem_or_suite="C11 correspondence (Declare.run on every permutation)",
                  expected="the model predicts the observed common outcome for every order")
        ctx.violation(f"declaration model and implementation disagree on some order of {rp['base']} {rp['ops']}",
                      rp, failing_input=False)
    ctx.coverage.update(
        evaluations=stats["orders"],
        distinct_nontrivial=stats["sets"],
        rule="every set of 1..3 distinct non-value refinements (method + arguments from the boundary universe: all "
             "len forms incl. 0 / contradictory / wrongly typed bounds, empty and covering alphabets/substrings, "
             "matching / non-matching / invalid patterns, NaN and infinite float bounds, precision 0..16) of int, "
             "float, str and list, on the bare type and after fixing each base value (lists: each element form); "
             f"3-element sets sampled at {keep3:.0%}; ALL permutations run on the implementation and compared "
             "(outcome class; ==, repr and abstracted term of the results); the common outcome is compared with "
             "the model's outcome for every permutation inside Coq.",
        samples=samples,
        correspondence={"suite": "Declare.run on all permutations vs implementation", "cases": len(terms),
                        "mismatches": len(bad), "unmodelled": unmodelled},
        oracle_cases=stats["orders"],
        distribution=stats,
    )


def replay(data):
    base = ds.ev(data["base"])
    print("base:", data["base"], "refinements:", data["ops"])
    for order in itertools.permutations(data["ops"]):
        src = data["base"] + "".join(order)
        try:
            print(" ", src, "->", repr(ds.ev(src)))
        except Exception as e:  # noqa
            print(" ", src, "-> raises", type(e).__name__, e)
    print("expected:", data.get("expected"))
    return 0
