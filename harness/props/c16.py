"""C16 - custom schema types behave like built-ins in every position.

For random schema trees and random choices of positions replaced by the forwarding custom
type (harness/custom.py), the wrapped tree is compared with the tree it was made from on
the real code: validation (both validators), generation under the same tape,
representation, substitution.  The wrapped tree's observations are also compared with the
model (validate / substitute on the SCustom term; erase on the built tree).
"""
import collections

import absn
import common
import custom
import gen
import tape
from absn import Unmodelled

PROPS_FILE = "props/C16.v"
MODEL_FILES = ["theories/Custom.v", "theories/Substitute.v", "theories/CaseSubst.v"]
EXTRA_TRUSTED = [
    "C16: the forwarding custom type is harness/custom.py::FwdSchema (hooks written as a user writes them, "
    "registered with register_type); the theorems are about SCustom in the model, whose validate/substitute "
    "case is 'forward to inner' by definition - that the real visitors forward path/indent/kwargs in every "
    "position is established by the per-run comparison wrapped-vs-unwrapped only (translation-validation style)",
    "C16: erase_gen and erase_represent are theorems about the model's SCustom case ('hand the visitor to the wrapped "
    "schema'); that the real generator and representor do so in every position is established by the direct "
    "wrapped-vs-unwrapped oracle on the real code",
    "C16: uuid4()/datetime.utcnow()/date.today() are replaced by deterministic stand-ins inside the harness "
    "process while two generations are compared (custom.fixed_world)",
]

REQ = "Require Import D42.FromNative D42.Substitute D42.CaseSubst D42.Custom."


# ------------------------------------------------------------------ observation helpers
def _same(a, b):
    if a is b:
        return True
    try:
        return type(a) is type(b) and repr(a) == repr(b)
    except Exception:  # noqa
        return False


def probe_registration(violation):
    """register_type(name, cls): schema.<name> is an instance of the class registered LAST under that name (a custom
    type may be redefined, e.g. on module reload), and forwards like the built-in it wraps from the facade too."""
    from d42 import fake, schema, validate
    from d42.declaration import register_type
    n = 0
    name = "verif_reg_probe"
    variants = [("int", custom.FwdSchema, "schema.int.min(1)", 0), ("str", custom.FwdMixinSchema, "schema.str.len(1, 8)", "ab"),
                ("list", custom.FwdKwargsSchema, "schema.list(schema.int).len(2)", [1, 2])]
    for label, cls, inner_src, good in variants * 2:
        returned = register_type(name, cls)
        got = getattr(schema, name)
        n += 1
        if type(got) is not cls or type(returned) is not cls:
            violation(f"register_type did not (re)bind schema.{name} to the class registered last",
                      {"kind": "history", "registered": cls.__name__, "observed": [type(returned).__name__, type(got).__name__],
                       "expected": cls.__name__})
            return n
        inner = gen.build(inner_src)
        w = got(inner)
        for v in (good, None, "x" * 20, -5):
            try:
                a = [type(e).__name__ for e in validate(w, v).get_errors()]
                rw = repr(w)
            except Exception as ex:  # noqa
                a, rw = f"raised {type(ex).__name__}: {ex}", "<raised>"
            b = [type(e).__name__ for e in validate(inner, v).get_errors()]
            if a != b or rw != repr(inner):
                violation("a custom type taken from the facade after re-registration does not behave like the built-in it forwards to",
                          {"kind": "history", "registered": cls.__name__, "inner": inner_src, "value": gen.vsrc(v),
                           "observed": [a, rw], "expected": [b, repr(inner)]})
                return n
    return n


def _validators():
    from th import PathHolder
    from d42.substitution import SubstitutorValidator
    from d42.validation import ValidationResult, Validator

    class CountingResult(ValidationResult):
        """a caller's own result class (validation_result_factory)"""

    # "Factory": a validator configured by its user - own path root, own result class
    return {"Plain": Validator(), "Subst": SubstitutorValidator(),
            "Factory": Validator(path_holder_factory=lambda: PathHolder("cfg"), validation_result_factory=CountingResult)}


def _observe_validate(s, validator, v, root=None):
    """root: name of an explicitly passed (empty) path, as validate(s, v, path=PathHolder(root)) does"""
    try:
        if root is not None:
            from th import PathHolder
            return "ok", list(s.__accept__(validator, value=v, path=PathHolder(root)).get_errors())
        return "ok", list(s.__accept__(validator, value=v).get_errors())
    except Exception as e:  # noqa
        return "raise", e


def _describe(errors, fmt):
    out = []
    for e in errors:
        try:
            msg = e.format(fmt)
        except Exception as ex:  # noqa
            msg = f"<format raised {type(ex).__name__}>"
        out.append((type(e).__name__, [op.operand for op in e.path], e.actual_value, msg + " @" + str(e.path)))
    return out


def _errors_differ(dw, du):
    if len(dw) != len(du):
        return f"{len(dw)} errors through the custom type, {len(du)} on the built-in tree"
    for i, (a, b) in enumerate(zip(dw, du)):
        if a[0] != b[0]:
            return f"error {i}: class {a[0]} vs {b[0]}"
        if len(a[1]) != len(b[1]) or any(not _same(x, y) for x, y in zip(a[1], b[1])):
            return f"error {i} ({a[0]}): path {a[1]!r} vs {b[1]!r}"
        if not _same(a[2], b[2]):
            return f"error {i} ({a[0]}): actual value {a[2]!r} vs {b[2]!r}"
        if a[3] != b[3]:
            return f"error {i} ({a[0]}): message {a[3]!r} vs {b[3]!r}"
    return None


def _vterm(mode, st, v, kind, payload, kt):
    vt = absn.cvalue(v, kt)
    if kind == "ok":
        obs = "(Ok " + absn.clist([absn.cerror(e, kt) for e in payload]) + ")"
    else:
        obs = f"(Raise {absn.cexn(payload)})"
    return f"({'Plain' if mode == 'Factory' else mode}, {st}, {vt}, {obs})"    # the model has two validators


def _outcome(fn):
    from d42.substitution.errors import SubstitutionError
    try:
        return "ok", fn()
    except SubstitutionError as e:
        return "SubstitutionError", e
    except Exception as e:  # noqa
        return type(e).__name__, e


def _inject_ellipsis(r, v):
    pos = [p for p in gen.positions(v) if p]
    if not pos:
        return v
    return gen.replace_at(v, r.choice(pos), ...)


def _wrap_src(chosen):
    return repr(sorted(chosen.items(), key=repr))


def _tree(r, depth):
    """A schema tree with at least two positions most of the time."""
    for _ in range(6):
        ssrc, s = gen.gen_schema(r, r.randint(1, depth))
        if len(custom.positions(s)) >= 2 or r.random() < 0.15:
            return ssrc, s
    return ssrc, s


# ------------------------------------------------------------------ the check
def run(ctx):
    from d42 import fake, represent
    from d42.representation import Representor
    from d42.validation import Formatter
    r = ctx.rng
    n_trees = ctx.scale(110, 1600)
    depth = ctx.scale(3, 5)
    n_perturb = ctx.scale(5, 9)
    fmt = Formatter()
    validators = _validators()
    rep_default = Representor()
    rep_other = Representor(name="s", indent=2)

    vterms, vmeta = [], []
    sterms, smeta = [], []
    eterms, emeta = [], []
    unmodelled = 0
    evaluations = 0
    oracle_cases = 0
    nontrivial = set()
    dist = collections.Counter()
    samples = []

    def violation(what, rp, failing_input=True):
        ctx.violation(what, rp, failing_input=failing_input)

    dist["registration_probes"] = probe_registration(violation)
    for tree_no in range(n_trees):
        ssrc, s = _tree(r, depth)
        for _w in range(2 if r.random() < 0.5 else 1):
            # every third tree uses ONE forwarding type at all its wrapped positions, each type in turn (so every way of
            # writing the hooks meets every operation in every run); the others mix the types by position
            which = (tree_no // 3) % custom.N_FACADES if tree_no % 3 == 0 else None
            w, chosen = custom.wrap_random(r, s, rate=r.choice([0.2, 0.35, 0.6]), which=which)
            dist["forwarding_type:" + ("mixed" if which is None else str(which))] += 1
            u = custom.erase_built(w)
            base = {"kind": "input", "schema": ssrc, "wrap": _wrap_src(chosen), "forwarding_type": which}
            for p, k in chosen.items():
                dist["wrapped:" + custom.kind_of(p)] += 1
                if len(p) >= 2:
                    dist["wrapped:depth>=2"] += 1
                if k > 1:
                    dist["wrapped:double"] += 1
            dist["trees"] += 1
            kt = absn.KeyTable()
            try:
                wt, ut, st0 = absn.cschema(w, kt), absn.cschema(u, kt), absn.cschema(s, kt)
            except Unmodelled:
                wt = ut = st0 = None
                unmodelled += 1
            if wt is not None:
                if ut != st0:
                    raise common.CheckBroken(f"harness: erase_built(wrap_at(s)) is not s for {ssrc} {chosen}")
                eterms.append(f"({wt}, {ut})")
                emeta.append(dict(base, op="erase"))
            if len(samples) < 4 and len(chosen) >= 2:
                samples.append({"schema": ssrc, "wrapped_positions": _wrap_src(chosen)})

            # ---- representation
            evaluations += 1
            oracle_cases += 1
            # the same representor is asked several times, at different indents, for the same objects
            for name, fn in (("repr()", lambda x: repr(x)),
                             ("represent(indent=4) after repr()", lambda x: represent(x, indent=4)),
                             ("repr() again", lambda x: repr(x)),
                             ("Representor at indent=4", lambda x: x.__accept__(rep_default, indent=4)),
                             ("the same Representor at indent=0", lambda x: x.__accept__(rep_default)),
                             ("Representor(name='s', indent=2)", lambda x: x.__accept__(rep_other))):
                ow, ou = _outcome(lambda: fn(w)), _outcome(lambda: fn(u))
                if ow[0] != ou[0] or (ow[0] == "ok" and ow[1] != ou[1]):
                    violation(f"printed form differs through the custom type ({name})",
                              dict(base, op="represent", observed=str(ow[1]), expected=str(ou[1])))
                    break
            if "\n" in repr(u):
                dist["represent:multiline"] += 1

            # ---- values
            vals = []
            for _c in range(2):
                try:
                    v = gen.conform(r, s)
                except Exception:  # noqa
                    continue
                vals.append(("conform", v))
                vals += [("perturb", p) for p in gen.perturbations(r, v, limit=n_perturb)]
            vals.append(("unrelated", r.choice(gen.UNRELATED)))
            if r.random() < 0.2:
                vals.append(("zoo", r.choice(gen.ZOO)[1]))

            # ---- validation, both validators
            for origin, v in vals:
                for mode in (("Plain", "Subst") if r.random() < 0.5 else (("Plain", "Factory") if r.random() < 0.4 else ("Plain",))):
                    evaluations += 1
                    oracle_cases += 1
                    root = "root" if r.random() < 0.3 else None      # a caller-supplied empty path with its own root name
                    kw, pw = _observe_validate(w, validators[mode], v, root)
                    ku, pu = _observe_validate(u, validators[mode], v, root)
                    rp = dict(base, op="validate", mode=mode, value=gen.vsrc(v), origin=origin, path_root=root)
                    if kw != ku:
                        violation("validation through the custom type " +
                                  ("raises" if kw == "raise" else "returns") + ", the built-in tree does not",
                                  dict(rp, observed=common.srepr(pw)[:300], expected=common.srepr(pu)[:300]))
                    elif kw == "raise":
                        if type(pw) is not type(pu):
                            violation("validation raises a different exception through the custom type",
                                      dict(rp, observed=common.srepr(pw)[:300], expected=common.srepr(pu)[:300]))
                    else:
                        why = _errors_differ(_describe(pw, fmt), _describe(pu, fmt))
                        if why:
                            violation("validation errors differ through the custom type: " + why,
                                      dict(rp, observed=common.srepr(_describe(pw, fmt))[:600],
                                           expected=common.srepr(_describe(pu, fmt))[:600]))
                        if pw:
                            dist["validate:reject"] += 1
                            if any(len(e.path) >= 1 for e in pw):
                                dist["validate:error_below_root"] += 1
                        else:
                            dist["validate:accept"] += 1
                    if wt is not None:
                        try:
                            term = _vterm(mode, wt, v, kw, pw, kt)
                            vterms.append(term)
                            vmeta.append(rp)
                            if kw != "ok" or pw or isinstance(v, (list, dict)):
                                nontrivial.add(term)
                        except Unmodelled:
                            unmodelled += 1

            # ---- generation under one tape
            for mode in r.sample(["min", "max", "alt", "rand", "rand"], 2):
                evaluations += 1
                oracle_cases += 1
                with custom.fixed_world():
                    with tape.scripted(tape.Policy(r, mode)) as t1:
                        ow = _outcome(lambda: fake(w))
                with custom.fixed_world():
                    with tape.scripted(tape.Tape(t1.used)) as t2:
                        ou = _outcome(lambda: fake(u))
                rp = dict(base, op="generate", tape=repr(list(t1.used)))
                if ow[0] != ou[0]:
                    violation("generation through the custom type " +
                              (f"raises {ow[0]}" if ow[0] != "ok" else "returns") +
                              ", the built-in tree " + (f"raises {ou[0]}" if ou[0] != "ok" else "returns"),
                              dict(rp, observed=common.srepr(ow[1])[:300], expected=common.srepr(ou[1])[:300]))
                    continue
                if ow[0] != "ok":
                    dist["generate:raises:" + ow[0]] += 1
                    continue
                dist["generate:ok"] += 1
                if not _same(ow[1], ou[1]) or list(t1.used) != list(t2.used):
                    violation("generation under the same tape yields a different value / consumes different draws "
                              "through the custom type",
                              dict(rp, observed=common.srepr(ow[1])[:300], expected=common.srepr(ou[1])[:300]))
                    continue
                kw, pw = _observe_validate(w, validators["Plain"], ow[1])
                ku, pu = _observe_validate(u, validators["Plain"], ow[1])
                okw = kw == "ok" and not pw
                oku = ku == "ok" and not pu
                if okw != oku or not okw:
                    if okw == oku:
                        # the built-in tree generates a value it rejects itself: a generation
                        # defect (property C01), identical with and without the custom type
                        dist["generate:nonconforming_with_and_without_custom"] += 1
                    else:
                        violation("generated value validates differently through the custom type",
                                  dict(rp, value=gen.vsrc(ow[1]), observed=common.srepr(pw)[:300], expected=common.srepr(pu)[:300]))

            # ---- substitution
            svals = []
            for origin, v in vals[: 2 + n_perturb]:
                svals.append((origin, v))
                if isinstance(v, (list, dict)) and r.random() < 0.5:
                    svals.append(("ellipsis", _inject_ellipsis(r, v)))
            svals.append(("ellipsis-root", ...))          # the placeholder itself as the whole value
            for origin, v in svals:
                evaluations += 1
                oracle_cases += 1
                ow = _outcome(lambda: w % v)
                ou = _outcome(lambda: u % v)
                rp = dict(base, op="substitute", value=gen.vsrc(v), origin=origin)
                if ow[0] != ou[0]:
                    violation(f"substitution outcome differs through the custom type: {ow[0]} vs {ou[0]}",
                              dict(rp, observed=common.srepr(ow[1])[:300], expected=common.srepr(ou[1])[:300]))
                elif ow[0] == "ok":
                    dist["substitute:ok"] += 1
                    rw, ru = ow[1], ou[1]
                    try:
                        same = absn.cschema(custom.erase_built(rw)) == absn.cschema(ru)
                    except Unmodelled:
                        same = repr(custom.erase_built(rw)) == repr(ru)
                    tw, tu = _outcome(lambda: repr(rw)), _outcome(lambda: repr(ru))
                    if not same or tw[0] != tu[0] or (tw[0] == "ok" and tw[1] != tu[1]):
                        violation("substituted schema differs through the custom type",
                                  dict(rp, observed=common.srepr(rw)[:400], expected=common.srepr(ru)[:400]))
                else:
                    dist["substitute:" + ow[0]] += 1
                    if ow[0] == "SubstitutionError" and str(ow[1]) != str(ou[1]):
                        violation("substitution error text differs through the custom type",
                                  dict(rp, observed=str(ow[1])[:300], expected=str(ou[1])[:300]))
                if wt is not None:
                    try:
                        vt = absn.cvalue(v, kt)
                        obs = absn.cresult(lambda: w % v, lambda x: absn.cschema(x, kt))
                        sterms.append(f"({wt}, {vt}, {obs})")
                        smeta.append(rp)
                        nontrivial.add(sterms[-1])
                    except Unmodelled:
                        unmodelled += 1

    # ---- correspondence with the model
    cap_v = ctx.scale(3200, 40000)
    cap_s = ctx.scale(1600, 20000)
    vterms, vmeta = vterms[:cap_v], vmeta[:cap_v]
    sterms, smeta = sterms[:cap_s], smeta[:cap_s]
    bad_v = common.eval_cases(ctx.workdir, "c16v", vterms, "vcase", "vcase_ok")
    bad_s = common.eval_cases(ctx.workdir, "c16s", sterms, "subcase", "subcase_ok", extra_requires=REQ)
    bad_e = common.eval_cases(ctx.workdir, "c16e", eterms, "erasecase", "erasecase_ok", extra_requires=REQ)
    for i in bad_v[:5]:
        violation("validation of a tree containing the custom type differs from the model's (SCustom)",
                  dict(vmeta[i], theorem_or_suite="C16 correspondence: validate on SCustom terms",
                       expected="the model's error list"), failing_input=False)
    for i in bad_s[:5]:
        violation("substitution into a tree containing the custom type differs from the model's (SCustom)",
                  dict(smeta[i], theorem_or_suite="C16 correspondence: substitute on SCustom terms",
                       expected="the model's outcome"), failing_input=False)
    for i in bad_e[:5]:
        violation("erase_built on the real tree differs from the model's erase",
                  dict(emeta[i], theorem_or_suite="C16 correspondence: erase"), failing_input=False)

    ctx.coverage.update(
        evaluations=evaluations,
        distinct_nontrivial=len(nontrivial),
        rule="schema trees from the public DSL (gen.gen_schema, nesting <= %d); for each tree 1-2 random subsets of "
             "its schema positions (root, list element, typed-list type, dict value, any alternative, alias target, "
             "nested; sometimes doubly) are replaced on the BUILT tree by the forwarding custom type. Compared on "
             "the real code, wrapped vs unwrapped: validation with both validators (error class, path, actual "
             "value, formatted message) on conforming / perturbed / unrelated values; generation under one recorded "
             "tape (identical value, identical draws, value validates); three printed forms; substitution (outcome "
             "class, erased result, repr, error text). Compared with the model: the wrapped tree's error lists "
             "(vcase_ok), substitution outcomes (subcase_ok), erase. Non-trivial = rejected/raised/container value "
             "or any substitution; distinct by canonical Coq term." % depth,
        samples=samples,
        correspondence={"suite": "validate + substitute on SCustom terms, erase",
                        "cases": len(vterms) + len(sterms) + len(eterms),
                        "mismatches": len(bad_v) + len(bad_s) + len(bad_e), "unmodelled": unmodelled,
                        "validate_cases": len(vterms), "substitute_cases": len(sterms), "erase_cases": len(eterms)},
        oracle_cases=oracle_cases,
        distribution=dict(dist),
    )


def replay(data):
    from d42 import fake
    s = gen.build(data["schema"])
    chosen = dict(eval(data["wrap"], dict(gen.NS)))
    w = custom.wrap_at(s, chosen, which=data.get("forwarding_type"))
    u = custom.erase_built(w)
    print("schema :", data["schema"])
    print("wrapped:", data["wrap"])
    op = data.get("op")
    if op == "represent":
        print("through custom type:\n" + repr(w))
        print("built-in tree:\n" + repr(u))
    elif op == "validate":
        v = eval(data["value"], dict(gen.NS))
        val = _validators()[data.get("mode", "Plain")]
        from d42.validation import Formatter
        for name, x in (("custom", w), ("built-in", u)):
            k, p = _observe_validate(x, val, v)
            print(name, k, _describe(p, Formatter()) if k == "ok" else repr(p))
    elif op == "generate":
        entries = eval(data["tape"])
        for name, x in (("custom", w), ("built-in", u)):
            with custom.fixed_world():
                with tape.scripted(tape.Tape(entries)):
                    print(name, _outcome(lambda: fake(x)))
    elif op == "substitute":
        v = eval(data["value"], dict(gen.NS))
        for name, x in (("custom", w), ("built-in", u)):
            print(name, _outcome(lambda: x % v))
    print("expected:", data.get("expected"))
    return 0
