"""C19 - v1-to-v2 migration rewrites imports and nothing else.

Streams of generated Python modules (all from ctx.rng), all judged by the same oracle:
  main          import forms interleaved with other statements; no rewritten import shares a
                physical line with other code
  singles       every (module, name) of the mapping on its own, with and without alias
  shared_line   a rewritten import shares its first/last physical line with other code (the
                former F21 region: prefix statement, suffix statement, both, several imports on
                one line, multi-line imports with shared first/last line, explicit line joining,
                non-ASCII text before the import (byte vs character offsets), tabs, form feeds)
  linebreak     a character str.splitlines() breaks on but Python's tokenizer does not
                (\\x0b \\x0c \\x1c \\x1d \\x1e \\x85 U+2028 U+2029) somewhere in the module (the
                former F27 region)
For every module: (1) direct oracle on the implementation (plain Python, independent of the
model), (2) correspondence: the `ast` view of input and output is given to the Coq model of
rewrite_imports (theories/Migrate.v) which must predict the observed statement list.
"""
import ast
import io
import os
import collections
import re

import common
from absn import cstr, cnat, cbool, clist, Unmodelled

PROPS_FILE = "props/C19.v"
MODEL_FILES = ["theories/Migrate.v", "theories/MigrateCase.v"]
EXTRA_TRUSTED = [
    "C19: Python grammar / CPython ast.parse (validity of the output and the statement view of input and output: "
    "kinds, (lineno, col_offset, end_lineno, end_col_offset), names/asnames, ast.dump as identity of other statements)",
    "C19: a module is modelled as physical lines owning pieces of top-level statements; comments, blanks, `;` and "
    "backslash continuations are not modelled (a comment on a replaced line is lost: not a statement, reported in the "
    "notes); the branch condition of the splice (prefix.strip() / suffix after blanks, one `;` and a comment) is "
    "modelled as 'a piece before / a piece after' - with explicit line joining next to an import the implementation "
    "may take the one-line branch where the model takes the line-per-statement branch; both yield the same statements "
    "and the correspondence compares statements",
    "C19: importability of a mapping target is observed by importing it in the check's process "
    "(generated/GenExports.v), the theorem quantifies over that regenerated table",
    "C19: rendering of a replacement statement as text and reading it back (f'from {m} import {names}') is checked "
    "by the correspondence, not proved",
]

# F21 (whole physical lines replaced) and F27 (str.splitlines() vs tokenizer lines) are repaired
# in /repo; their input regions are still generated and any failure there is a violation.
SPLIT_ONLY = "\x0b\x0c\x1c\x1d\x1e\x85\u2028\u2029"
REQUIRES = "Require Import D42.Migrate D42.MigrateCase D42Gen.GenMapping."


def _impl():
    from d42.migration.migrate_v1_to_v2 import mapping, rewrite_imports
    return mapping, rewrite_imports


# ====================================================================== text geometry
_PYLINE = re.compile(r"[^\r\n]*(?:\r\n|\r|\n)|[^\r\n]+")


def pylines(src):
    """physical lines as Python's tokenizer (and therefore ast's lineno) counts them"""
    return _PYLINE.findall(src)


class Geometry:
    """char offsets of top-level statements, from ast positions (col offsets are UTF-8 bytes)"""

    def __init__(self, src, tree=None):
        self.src = src
        self.tree = tree if tree is not None else ast.parse(src)
        self.pl = pylines(src)
        self.starts = []
        off = 0
        for ln in self.pl:
            self.starts.append(off)
            off += len(ln)
        self.body = list(self.tree.body)

    def offset(self, lineno, col):
        if lineno - 1 >= len(self.pl):          # position past the last line (cannot happen for a statement)
            return len(self.src)
        line = self.pl[lineno - 1]
        return self.starts[lineno - 1] + len(line.encode("utf-8")[:col].decode("utf-8", "replace"))

    def first_lineno(self, node):
        decs = getattr(node, "decorator_list", None) or []
        return min([node.lineno] + [d.lineno for d in decs])

    def extent(self, node):
        fl = self.first_lineno(node)
        start = self.starts[fl - 1] if fl != node.lineno else self.offset(node.lineno, node.col_offset)
        return start, self.offset(node.end_lineno, node.end_col_offset)

    def prefix_suffix(self, node):
        """text before the statement on its first physical line, text after it on its last"""
        s, e = self.extent(node)
        ls = self.starts[node.lineno - 1]
        le = self.starts[node.end_lineno - 1] + len(self.pl[node.end_lineno - 1])
        return self.src[ls:s], self.src[e:le]


def is_abs_import(node):
    return isinstance(node, ast.ImportFrom) and node.level == 0


_TRAILING_OK = re.compile(r"[ \t\x0c]*;?[ \t\x0c]*(#[^\r\n]*)?(\r\n|\r|\n)?\Z")


def shared_line_imports(src, geo=None):
    """shape classifier (names the stream): the absolute top-level ImportFroms that share their first
    physical line with preceding code or their last physical line with following code (anything
    but blanks, one ';' and a comment).  -> list of nodes"""
    geo = geo or Geometry(src)
    out = []
    for node in geo.body:
        if is_abs_import(node):
            pre, suf = geo.prefix_suffix(node)
            if pre.strip(" \t\x0c") != "" or not _TRAILING_OK.match(suf):
                out.append(node)
    return out


def misaligned(src, geo=None):
    """linebreak classifier, by input shape: the line list rewrite_imports indexes (since fix
    F27: io.StringIO(src, newline='').readlines(), i.e. breaks at \\n, \\r\\n, \\r only) differs from
    the tokenizer's physical lines at or before the last physical line of some absolute
    top-level ImportFrom.  With the repaired splitting this never happens; before the repair a
    form feed or another str.splitlines()-only boundary did it."""
    import io
    geo = geo or Geometry(src)
    last = 0
    for node in geo.body:
        if is_abs_import(node):
            last = max(last, node.end_lineno)
    impl = io.StringIO(src, newline='').readlines()
    return impl[:last] != list(geo.pl[:last])


def classify(src):
    geo = Geometry(src)
    if shared_line_imports(src, geo):
        return "shared_line"
    if misaligned(src, geo):
        return "linebreak_chars"
    return None


# ====================================================================== direct oracle
def _dump(node):
    return ast.dump(node, include_attributes=False)


def expected_bindings(node, mapping):
    out = []
    for a in node.names:
        local = a.asname or a.name
        if node.module in mapping and a.name in mapping[node.module]:
            out.append((local, tuple(mapping[node.module][a.name])))
        else:
            out.append((local, (node.module, a.name)))
    return out


def has_mapped(body, mapping):
    return any(is_abs_import(n) and n.module in mapping and any(a.name in mapping[n.module] for a in n.names)
               for n in body)


def found_bindings(node):
    return [(a.asname or a.name, (node.module, a.name)) for a in node.names]


def compare_bodies(in_body, out_body, mapping):
    """None when out_body is in_body with every absolute from-import replaced, at its place, by
    absolute from-imports binding exactly the expected (local -> (module, name)) multiset and every
    other statement identical and in order; otherwise a description of the first difference."""
    j = 0
    for k, node in enumerate(in_body):
        if is_abs_import(node):
            exp = sorted(expected_bindings(node, mapping))
            got = []
            while len(got) < len(exp) and j < len(out_body) and is_abs_import(out_body[j]):
                got += found_bindings(out_body[j])
                j += 1
            if sorted(got) != exp:
                return (f"statement #{k} (line {node.lineno}) `{ast.unparse(node)}`: the statements found at its place "
                        f"bind {sorted(got)}, expected {exp}")
            # a local name bound twice by one import ends up as its LAST binding
            fin_exp, fin_got = dict(expected_bindings(node, mapping)), dict(got)
            if fin_exp != fin_got:
                nm = next(x for x in fin_exp if fin_exp[x] != fin_got.get(x))
                return (f"statement #{k} (line {node.lineno}) `{ast.unparse(node)}`: after the rewritten imports the local "
                        f"name {nm!r} is bound to {fin_got.get(nm)}, the original binds it (last) to {fin_exp[nm]} "
                        f"[duplicate local name]")
        else:
            if j >= len(out_body):
                return f"statement #{k} (line {node.lineno}) `{ast.unparse(node)[:80]}` is missing from the output"
            if _dump(out_body[j]) != _dump(node):
                return (f"statement #{k} (line {node.lineno}) `{ast.unparse(node)[:80]}` became "
                        f"`{ast.unparse(out_body[j])[:80]}`")
            j += 1
    if j != len(out_body):
        return f"the output has {len(out_body) - j} extra statement(s), first `{ast.unparse(out_body[j])[:80]}`"
    return None


def oracle(src, mapping, rewrite, twice=True):
    """-> (output, None) if the property holds for this input, else (output, why)"""
    tree = ast.parse(src)
    try:
        out = rewrite(src, mapping)
    except Exception as e:  # noqa
        return None, f"rewrite_imports raised {type(e).__name__}: {e}"
    has_abs = any(is_abs_import(n) for n in tree.body)
    if out is None:
        if has_mapped(tree.body, mapping):
            return out, "reported nothing to do although a top-level from-import of a mapped v1 name is present"
        return out, None
    if not isinstance(out, str):
        return out, f"returned a {type(out).__name__}"
    try:
        otree = ast.parse(out)
    except (SyntaxError, ValueError) as e:
        return out, f"the output is not valid Python: {e}"
    why = compare_bodies(tree.body, otree.body, mapping)
    if why:
        return out, why
    if not has_abs and _dump(otree) != _dump(tree):
        return out, "changed a module without absolute from-imports"
    if twice:
        try:
            out2 = rewrite(out, mapping)
        except Exception as e:  # noqa
            return out, f"second run raised {type(e).__name__}: {e}"
        if out2 is not None:
            try:
                if _dump(ast.parse(out2)) != _dump(otree):
                    return out, "a second run over the output changes it again"
            except (SyntaxError, ValueError) as e:
                return out, f"a second run over the output gives invalid Python: {e}"
        elif any(is_abs_import(n) for n in otree.body):
            pass   # None on the second run is acceptable only if nothing is mapped any more
    return out, None


# ====================================================================== abstraction to Coq
class Abstraction:
    """`ast` view of an input and of the observed output as Coq terms of theories/Migrate.v"""

    def __init__(self, src):
        self.src = src
        self.geo = Geometry(src)
        self.ids = {}
        self.lets = []
        self.names = []
        for node in self.geo.body:
            self.names.append(self._bind(node))

    def _other_id(self, node, fresh_base=0):
        d = _dump(node)
        if d not in self.ids:
            self.ids[d] = fresh_base + len(self.ids) + 1
        return self.ids[d]

    def stmt_term(self, node, fresh_base=0):
        if isinstance(node, ast.ImportFrom):
            mod = "None" if node.module is None else f"(Some {cstr(node.module)})"
            names = clist([f"({cstr(a.name)}, " + ("None" if a.asname is None else f"Some {cstr(a.asname)}") + ")"
                           for a in node.names])
            return f"(ImportFrom {cnat(node.level)} {mod} {names})"
        return f"(Other {self._other_id(node, fresh_base)})"

    def _bind(self, node):
        nm = f"s{len(self.lets)}"
        self.lets.append(f"let {nm} := {self.stmt_term(node)} in")
        return nm

    def lines_and_items(self):
        geo = self.geo
        body = geo.body
        ext = [geo.extent(n) for n in body]
        # the implementation's own line list
        import io
        sl = io.StringIO(self.src, newline='').readlines()     # as rewrite_imports splits (after fix F27)
        ranges = []
        off = 0
        for ln in sl:
            ranges.append((off, off + len(ln)))
            off += len(ln)
        occ = [[] for _ in body]            # splitlines-line indices each statement lies on
        per_line = [[] for _ in sl]
        for j, (s, e) in enumerate(ext):
            for i, (a, b) in enumerate(ranges):
                if s < b and e > a:
                    occ[j].append(i)
                    per_line[i].append(j)
        for j, idx in enumerate(occ):
            if not idx or idx != list(range(idx[0], idx[-1] + 1)):
                raise Unmodelled("statement without a contiguous run of physical lines")
        lines = []
        for i, js in enumerate(per_line):
            lines.append(clist([f"Frag {self.names[j]} {cnat(occ[j].index(i))} {cnat(len(occ[j]))}" for j in js]))
        # positions: (line, index among the pieces of that line) of the first piece, and the
        # position after the last piece - the model's image of (lineno, col_offset) and
        # (end_lineno, end_col_offset); line numbers are ast's, the piece index is read off the
        # implementation's line at that number
        items = []
        for j, n in enumerate(body):
            a, b = geo.first_lineno(n) - 1, n.end_lineno - 1
            p = per_line[a].index(j) if a < len(per_line) and j in per_line[a] else 0
            q = per_line[b].index(j) + 1 if b < len(per_line) and j in per_line[b] else 0
            items.append(f"({self.names[j]}, ({cnat(a)}, {cnat(p)}), ({cnat(b)}, {cnat(q)}))")
        return clist(lines), clist(items)

    def observed(self, out):
        if out is None:
            return "ObsNone"
        try:
            otree = ast.parse(out)
        except (SyntaxError, ValueError):
            return "ObsInvalid"
        return "(ObsStmts " + clist([self.stmt_term(n, fresh_base=1000000) for n in otree.body]) + ")"

    def case_term(self, out, flags):
        lines, items = self.lines_and_items()
        obs = self.observed(out)
        fl = "(" + ", ".join(cbool(x) for x in flags) + ")"
        return "(" + " ".join(self.lets) + f" ({lines}, {items}, {obs}, {fl}))"


# ====================================================================== generator
UNMAPPED_NAMES = ["foo", "Bar", "helper", "_private", "schema_v1", "SCHEMA", "sch\u00e9ma", "x",
                  "Generated" + "SchemaName" * 24]
OTHER_MODULES = ["os", "typing", "os.path", "district42.foo", "district42_ext", "d42", "d42.declaration",
                 "collections.abc", "valera.utils", "revolt.errors.extra", "pkg.valera", "blahblah2"]
# identifiers have no length limit: aliases and names longer than any line width a formatter might wrap at
LONG_ALIAS = "alias_" + "very_long_identifier_" * 6            # 132 characters
LONG_NAME = "Generated" + "SchemaName" * 24                     # 249 characters
ALIASES = ["s", "_x", "sch", "Alias", "v1", "\u03c9", LONG_ALIAS]

OTHERS = [
    "x = 1", "y: int = 2", "print(x)", "x += 1", "pass", "del x", "assert x, 'msg'", "...",
    "import os", "import district42", "import district42.types as t", "import a, b", "import valera.errors",
    "a = 1; b = 2", "a = 1;", "a = 1; import district42; b = 'from district42 import schema'",
    "z = [\n    1,\n    2,\n]", "d = {\n    'from': 'district42',\n\n    'import': 'schema',\n}",
    "s = 'from district42 import schema'",
    's = """\nfrom district42 import schema\nfrom valera import validate\n"""',
    "s2 = '''\\\nfrom district42 import schema; x = 1\n'''",
    "t = 1 + \\\n    2",
    "def f():\n    from district42 import schema\n    return schema",
    "def g(a, b=2):\n    '''doc\n\n    from district42 import schema\n    '''\n\n    return a",
    "@decorator\ndef h():\n    pass",
    "@a.b(1)\n@c\nclass K:\n    from valera import validate\n    x = 1",
    "async def co():\n    await x",
    "class C(Base):\n    '''from district42 import schema'''\n    def m(self):\n        from revolt import substitute\n        return 1",
    "if TYPE_CHECKING:\n    from district42.types import IntSchema\nelse:\n    IntSchema = None",
    "try:\n    from district42 import schema\nexcept ImportError:\n    from d42 import schema\nfinally:\n    pass",
    "if x: from district42 import schema",
    "if x: from district42 import schema; y = 2",
    "for i in range(3):\n    print(i)\nelse:\n    pass", "while False:\n\tbreak",
    "with open(f) as fh:\n    data = fh.read()",
    "x = '\u00e9' + \"\u65e5\u672c\"", "def \u03bb():\n    return '\u00fc'",
    "match x:\n    case 1:\n        pass\n    case _:\n        from district42 import schema",
    "g_: 'from district42 import schema' = None",
    "r = f\"{x!r:>{10}}\"",
    "if a:\n    pass\nelif b:\n    from blahblah import fake\nelse:\n    pass",
    "x = (  # comment\n    1  # from district42 import schema\n)",
    "'''a string statement'''", "__all__ = ('a',\n           'b')",
    "try:\n    pass\nexcept* ValueError:\n    pass",
    "type X = int",
    "class E: pass",
    "def one(): return 1",
    "x = [i for i in range(3)\n     if i]",
    "raise SystemExit(0)",
    "global gg",
]
SIMPLE = ["x = 1", "import os", "print('a; b')", "y = 'from district42 import schema'", "pass", "z = (1, 2)",
          "w = '\u00e9\u00e9'", "import district42"]
FILLERS = ["", "", "# comment", "# from district42 import schema", "    ", "#!/usr/bin/env python", "\t", "# \u00e9"]
DOCSTRINGS = ['"""Module doc."""', "'doc'", '"""Module doc.\n\nfrom district42 import schema\n"""',
              "'''\nfrom valera import validate\n'''", 'r"""raw \\ doc"""']


# fixed corner inputs, always checked first
CORNERS = [
    # one import binding the same local name twice: the last binding is the one that counts (F36)
    "from district42 import foo as x, schema as x\nprint(x)\n",
    "from district42 import schema as x, represent as x, optional as x\n",
    "from district42 import schema as x, foo as x\n",                            # harmless order: unmapped last already
    "from district42 import schema; x = 1\n",                                   # formerly F21
    "from district42 import schema; from valera import validate\ny=2\n",         # formerly F21: two imports, one line
    "import a; from district42 import schema\n",                                # formerly F21
    "from district42 import \\\n  schema; x = 1\n",                               # formerly F21 after a continuation
    "x = '''a\nb'''; from district42 import schema\ny = 1\n",                    # formerly F21 (gave invalid Python)
    "\x0cfrom district42 import schema\ny = 2\n",                                # linebreak: leading form feed
    "x = 1\n\x0c\nfrom district42 import schema\ny = 2\n",                       # linebreak: form feed line
    "x = 'a\x0cb'\nfrom district42 import schema\ny = 2\n",                      # linebreak: inside a string
    "from district42 import schema\nx = 'a\u2028b'\n",                           # harmless: after the last import
    "def f():\n    from district42 import schema\n    return schema\n",        # nested: None
    "try:\n    from district42 import schema\nexcept ImportError:\n    schema = None\n",
    "class A:\n    from district42 import schema\n",
    "if 1: from district42 import schema\nx = 1\n",
    "from district42 import *\nx = 1\n",
    "from .district42 import schema\nfrom . import schema\nfrom ..valera import validate\n",
    "from .valera import validate\nfrom district42 import schema\n",
    "import district42\nx = district42.schema\n",
    "import district42\nfrom district42 import schema\n",
    "from district42 import schema, schema\nfrom district42 import schema\n",
    "from district42 import schema as s, optional as o, foo as f\n",
    "from district42 import foo as x, schema as x\n",
    "from os import path\nx=1\n",
    "import os\nx=1\n",
    "from district42 import schema  # c\nx = 1\n",
    '"""doc\nfrom district42 import schema\n"""\nfrom district42 import schema\n',
    "x = 1\nfrom district42 import schema",
    "from district42 import schema\nx = 1",
    "from district42 import schema\r\nx = 1\r\n",
    "from district42 import schema\rx = 1\r",
    "from district42 import (  # a\n    schema,  # b\n    # c\n    optional as o,\n    foo,\n)  # d\nx = 1\n",
    "from district42 import schema;\nx = 1\n",
    "from district42.types import IntSchema, optional, Foo, make_required, Schema\n",
    "from __future__ import annotations\nfrom district42 import schema\n",
    "",
    "\n",
    "from district42.foo import schema\n",
    "# -*- coding: latin-1 -*-\nfrom district42 import schema\n",
    "from district42 import schema  # type: ignore\n",
    "from district42 import (\n    schema,\n    optional,\n)\n\nS = schema.dict({optional('id'): schema.int})\n",
    "from district42 import (schema,\n    optional)\nfrom valera import validate\n",
]


class ModGen:
    def __init__(self, rng, mapping):
        self.r = rng
        self.mapping = mapping
        self.pairs = [(m, n) for m, d in mapping.items() for n in d]
        self.covered = set()
        self.forms = collections.Counter()

    # ---- names
    def _mapped_name(self, module, cover=True):
        names = list(self.mapping[module])
        fresh = [n for n in names if (module, n) not in self.covered]
        n = self.r.choice(fresh) if fresh and self.r.random() < 0.8 else self.r.choice(names)
        if cover:
            self.covered.add((module, n))
        return n

    def names_for(self, module, force_mapped=False, cover=True):
        r = self.r
        k = r.choice([1, 1, 2, 2, 3, 4, 6])
        out = []
        for _ in range(k):
            if module in self.mapping and (force_mapped or r.random() < 0.7):
                n = self._mapped_name(module, cover)
            elif r.random() < 0.35 and self.pairs:
                n = r.choice(self.pairs)[1]          # a name of the table, possibly of another module
                if cover and module in self.mapping and n in self.mapping[module]:
                    self.covered.add((module, n))
            else:
                n = r.choice(UNMAPPED_NAMES)
            a = None
            if r.random() < 0.25:
                a = r.choice(ALIASES + [n] + ([out[0][0]] if out else []))
            out.append((n, a))
        if out and r.random() < 0.1:
            out.append(out[0])                     # the same name twice
        return out

    def pick_module(self):
        r = self.r
        x = r.random()
        if x < 0.62:
            return r.choice(list(self.mapping))
        if x < 0.68:
            return "__future__"
        return r.choice(OTHER_MODULES)

    # ---- one from-import as text
    def import_text(self, modtext, names, tail=True):
        r = self.r
        if names == "*":
            self.forms["star"] += 1
            txt = f"from {modtext} import *"
        else:
            parts = [n if a is None else f"{n} as {a}" for n, a in names]
            form = r.choice(["single", "single", "single", "paren1", "hanging", "hanging", "hanging2", "backslash",
                             "backslash2", "spaced", "commented"])
            if form in ("backslash", "hanging2") and len(parts) < 2:
                form = "single"
            self.forms[form] += 1
            if form == "single":
                txt = f"from {modtext} import {', '.join(parts)}"
            elif form == "paren1":
                txt = f"from {modtext} import ({', '.join(parts)}" + r.choice(["", ","]) + ")"
            elif form == "hanging":
                ind = r.choice(["    ", "  ", "\t", ""])
                txt = f"from {modtext} import (\n" + "".join(f"{ind}{p},\n" for p in parts) + ")"
            elif form == "hanging2":
                txt = (f"from {modtext} import ({parts[0]},\n"
                       + ",\n".join(f"        {p}" for p in parts[1:]) + r.choice(["", ","]) + ")")
            elif form == "backslash":
                cut = r.randint(1, len(parts) - 1)
                txt = f"from {modtext} import {', '.join(parts[:cut])}, \\\n    {', '.join(parts[cut:])}"
            elif form == "backslash2":
                txt = f"from {modtext} \\\n    import {', '.join(parts)}"
            elif form == "spaced":
                txt = f"from   {modtext}  import  {' ,  '.join(parts)}"
            else:  # commented: comments, a comment-only line and a blank line inside the parentheses
                rows = []
                for n, a in names:
                    if a is not None and r.random() < 0.3:
                        rows.append(f"    {n} as\n        {a},  # {n}\n")     # `as` split over two lines
                    else:
                        rows.append(f"    {n if a is None else n + ' as ' + a},  # {n}\n")
                rows.insert(r.randint(0, len(rows)), "    # from district42 import schema\n")
                rows.insert(r.randint(0, len(rows)), "\n")
                txt = f"from {modtext} import (  # names\n" + "".join(rows) + ")"
        if tail:
            t = r.random()
            if t < 0.12:
                txt += "  # noqa: from district42 import schema"
                self.forms["trailing_comment"] += 1
            elif t < 0.18:
                txt += ";"
                self.forms["trailing_semicolon"] += 1
            elif t < 0.21:
                txt += " ;  # c"
            elif t < 0.25:
                txt += "   "
        return txt

    def abs_import(self, tail=True, mapped_module=False):
        r = self.r
        m = r.choice(list(self.mapping)) if mapped_module else self.pick_module()
        if m == "__future__":
            return self.import_text(m, [(r.choice(["annotations", "division", "generator_stop"]), None)], tail)
        if r.random() < 0.06:
            return self.import_text(m, "*", tail)
        return self.import_text(m, self.names_for(m, force_mapped=mapped_module), tail)

    def rel_import(self):
        r = self.r
        self.forms["relative"] += 1
        dots = "." * r.choice([1, 1, 2, 3])
        x = r.random()
        if x < 0.25:
            return self.import_text(dots, [(r.choice(["schema", "valera", "x"]), r.choice([None, "y"]))])
        m = r.choice(list(self.mapping)) if x < 0.8 else r.choice(OTHER_MODULES)
        # (relative imports do not count towards the coverage of mapped names)
        names = self.names_for(m, cover=False) if m in self.mapping else [(r.choice(UNMAPPED_NAMES), None)]
        return self.import_text(dots + m, names)

    # ---- a whole module: list of pieces (each one or more physical lines)
    def pieces(self, want_abs=None):
        r = self.r
        ps = []
        if r.random() < 0.15:
            ps.append(("filler", r.choice(["#!/usr/bin/env python", "# -*- coding: utf-8 -*-", "# header"])))
        if r.random() < 0.3:
            ps.append(("other", r.choice(DOCSTRINGS)))
        if r.random() < 0.12:
            ps.append(("abs", "from __future__ import annotations"))
        n = r.choice([1, 2, 3, 4, 5, 6, 8, 12])
        p_abs = 0.0 if want_abs is False else r.choice([0.25, 0.45, 0.7])
        for _ in range(n):
            x = r.random()
            if x < p_abs:
                ps.append(("abs", self.abs_import()))
            elif x < p_abs + 0.08:
                ps.append(("rel", self.rel_import()))
            elif x < p_abs + 0.2:
                ps.append(("filler", r.choice(FILLERS)))
            else:
                ps.append(("other", r.choice(OTHERS)))
        if want_abs and not any(k == "abs" for k, _ in ps):
            ps.insert(r.randint(0, len(ps)), ("abs", self.abs_import(mapped_module=True)))
        return ps

    def assemble(self, ps):
        r = self.r
        text = "\n".join(t for _, t in ps)
        if r.random() < 0.75:
            text += "\n"
        if r.random() < 0.1:
            text = "\n\n" + text
        x = r.random()
        if x < 0.10:
            text = text.replace("\n", "\r\n")
            self.forms["crlf"] += 1
        elif x < 0.14:
            text = text.replace("\n", "\r")
            self.forms["cr"] += 1
        if not text.endswith(("\n", "\r")):
            self.forms["no_trailing_newline"] += 1
        return text

    def main_module(self):
        r = self.r
        want = None if r.random() < 0.85 else False
        return self.assemble(self.pieces(want_abs=want))

    # ---- shared-line stream: make an import share a physical line with other code
    def shared_module(self):
        r = self.r
        ps = self.pieces(want_abs=True)
        idx = [i for i, (k, t) in enumerate(ps) if k == "abs" and "__future__" not in t]
        if not idx:
            ps.append(("abs", self.abs_import(mapped_module=True)))
            idx = [len(ps) - 1]
        i = r.choice(idx)

        def imp():
            return self.abs_import(tail=False, mapped_module=r.random() < 0.8)

        def multi():
            m = r.choice(list(self.mapping))
            names = self.names_for(m, force_mapped=r.random() < 0.7)
            rows = "".join(f"    {n if a is None else n + ' as ' + a},\n" for n, a in names)
            return r.choice([f"from {m} import (\n{rows})",
                             f"from {m} import (  # c\n\n{rows}    # d\n)"])

        kind = r.choice(["after", "after", "before", "both", "two_imports", "three_imports", "string_before",
                         "multiline_after", "joined_after", "joined_before", "after_comment", "unicode_before",
                         "unicode_both", "tabs", "multi_shared_first", "multi_shared_last", "multi_shared_both",
                         "multi_chain", "semicolon_comment", "formfeed_before", "trailing_space_semicolon"])
        self.forms["shared:" + kind] += 1
        s1, s2 = r.choice(SIMPLE), r.choice(SIMPLE)
        if kind == "after":
            t = f"{imp()}; {s1}"
        elif kind == "after_comment":
            t = f"{imp()}; {s1}  # c"
        elif kind == "before":
            t = f"{s1}; {imp()}"
        elif kind == "both":
            t = f"{s1}; {imp()}; {s2}"
        elif kind == "two_imports":
            t = f"{imp()}; {self.abs_import(tail=False, mapped_module=True)}"
        elif kind == "three_imports":
            t = f"{imp()};{self.abs_import(tail=False, mapped_module=True)} ; {imp()}" + r.choice(["", ";", "  # c"])
        elif kind == "string_before":
            t = f"v = '''a\nb'''; {imp()}"
        elif kind == "multiline_after":
            t = f"{imp()}; v = (1,\n     2)"
        elif kind == "joined_after":
            t = f"{imp()} \\\n; {s1}"
        elif kind == "joined_before":
            t = f"{s1} \\\n; {imp()}"
        elif kind == "unicode_before":       # col_offset counts UTF-8 bytes, str indexes characters
            t = r.choice(["w = '\u00e9\u00e9'", "\u03c9 = '\u65e5\u672c\u8a9e'", "s = '\U0001f600'"]) + f"; {imp()}"
        elif kind == "unicode_both":
            t = f"w = '\u00e9'; {imp()}; \u03bb = '\u65e5\u672c'"
        elif kind == "tabs":
            t = f"{s1};\t{imp()}\t;\t{s2}"
        elif kind == "multi_shared_first":
            t = f"{s1}; {multi()}"
        elif kind == "multi_shared_last":
            t = f"{multi()}; {s1}"
        elif kind == "multi_shared_both":
            t = f"{s1}; {multi()}; {s2}"
        elif kind == "multi_chain":          # the last line of one import is the first line of the next
            t = f"{multi()}; {multi()}" + r.choice(["", f"; {s1}"])
        elif kind == "semicolon_comment":
            t = f"{s1}; {imp()};  # trailing"
        elif kind == "formfeed_before":
            t = f"\x0c{imp()}; {s1}"
        else:
            t = f"{imp()} ; {s1} ;  "
        ps[i] = ("abs", t)
        return self.assemble(ps)

    # ---- linebreak stream
    def linebreak_module(self):
        r = self.r
        ps = self.pieces(want_abs=True)
        c = r.choice(SPLIT_ONLY)
        kind = r.choice(["own_line", "leading", "in_string", "in_comment", "in_docstring", "after_last", "inside_import"])
        self.forms["linebreak:" + kind] += 1
        pos = r.randint(0, len(ps))
        if kind == "own_line":
            ps.insert(pos, ("filler", "\x0c"))
        elif kind == "leading":
            j = r.randrange(len(ps))
            k, t = ps[j]
            if k != "filler" or t.strip() == "" or t.startswith("#"):
                ps[j] = (k, "\x0c" + t)
        elif kind == "in_string":
            ps.insert(pos, ("other", f"page = 'a{c}b'"))
        elif kind == "in_comment":
            ps.insert(pos, ("filler", f"# page{c}break"))
        elif kind == "in_docstring":
            ps.insert(0, ("other", f'"""doc{c}\nmore"""'))
        elif kind == "after_last":
            ps.append(("other", f"tail = 'a{c}b'"))
        else:
            names = self.names_for("district42", force_mapped=True)
            rows = "".join(f"    {n if a is None else n + ' as ' + a},\n" for n, a in names)
            ps.insert(pos, ("abs", f"from district42 import (\n    # {c}\n{rows})"))
        return self.assemble(ps)

    def single_modules(self):
        """every (module, name) of the table: alone, and aliased among other names"""
        out = []
        for m, n in self.pairs:
            self.covered.add((m, n))
            out.append(f"from {m} import {n}\n\nvalue = {n}\n")
            out.append(f"import os\nfrom {m} import other_name, {n} as alias_{n[:4]}, {n}\nprint(alias_{n[:4]})")
            if len(out) % 9 == 0:
                out.append(f"from {m} import {n} as {LONG_ALIAS}, {LONG_NAME}, {n}\nx = 1; from {m} import {n} as {LONG_ALIAS}_2\n")
        return out


# ====================================================================== the check
class Case:
    __slots__ = ("src", "stream", "out", "why", "cls", "term", "unmodelled", "modelled_idx")


def _replay_dict(c, what_expected):
    return {
        "stream": c.stream,
        "source": c.src,
        "python": ("from d42.migration.migrate_v1_to_v2 import mapping, rewrite_imports\n"
                   f"src = {c.src!r}\nprint(rewrite_imports(src, mapping))"),
        "observed_output": c.out,
        "observed": c.why,
        "expected": what_expected,
        "classifier": c.cls,
    }


def _short(src, n=90):
    s = repr(src)
    return s if len(s) <= n else s[:n] + "...'"


def probe_files(ctx, mapping):
    """The file layer (migrate_v1_to_v2(directory) = what `d42 migrate` runs): every .py file it rewrites is,
    read back the way Python reads it (PEP 263 cookie / BOM honoured), the module it was with only the imports
    rewritten; files it does not handle and files in hidden / __pycache__ directories stay byte-identical."""
    import shutil
    base = os.path.join(ctx.workdir, "c19_files")
    shutil.rmtree(base, ignore_errors=True)
    # the same tree under several spellings of the directory argument: what is skipped is decided by the names INSIDE the
    # tree, never by how the caller happens to reach it
    layouts = [("absolute path", os.path.join(base, "a", "proj"), None, None),
               ("below a hidden ancestor", os.path.join(base, "b", ".cache", "checkout", "proj"), None, None),
               ("relative path with ..", os.path.join(base, "c", "proj"), os.path.join(base, "c", "elsewhere"), os.path.join("..", "proj")),
               ("a directory whose own name starts with a dot", os.path.join(base, "d", ".proj"), None, None),
               ("relative, trailing separator", os.path.join(base, "e", "proj"), os.path.join(base, "e"), "proj" + os.sep),
               ("below an ancestor named __pycache__", os.path.join(base, "f", "__pycache__", "proj"), None, None)]
    n = 0
    for label, root, cwd, arg in layouts:
        n += _probe_layout(ctx, mapping, label, root, cwd, arg)
    shutil.rmtree(base, ignore_errors=True)
    return n


def _probe_layout(ctx, mapping, label, root, cwd, arg):
    import contextlib
    import shutil
    from d42.migration.migrate_v1_to_v2 import migrate_v1_to_v2
    body = 'from district42 import schema, optional\nCITY = "K\u00f6ln \u2013 \u00e9t\u00e9"\n\n\ndef f():\n    return schema.str\n'
    ascii_body = 'from district42 import schema\nfrom valera import validate\nX = schema.int\n'
    files = {
        "plain.py": ascii_body.encode("ascii"),
        "utf8.py": body.encode("utf-8"),
        "pkg/inner/deep.py": ("# a comment\n" + body).encode("utf-8"),
        "latin1.py": ("# -*- coding: latin-1 -*-\n" + body.replace("\u2013", "-")).encode("latin-1"),
        "cp1252.py": ("# coding: cp1252\n" + body).encode("cp1252"),
        "bom.py": b"\xef\xbb\xbf" + body.encode("utf-8"),
        "crlf.py": ascii_body.replace("\n", "\r\n").encode("ascii"),
        "nothing.py": b"import os\nfrom . import sibling\nY = 1\n",
        "no_newline.py": b"from district42 import schema, from_native",
        ".hidden/skip.py": ascii_body.encode("ascii"),
        "pkg/__pycache__/skip.py": ascii_body.encode("ascii"),
        "notes.txt": ascii_body.encode("ascii"),
    }
    for rel, data in files.items():
        path = os.path.join(root, rel)
        os.makedirs(os.path.dirname(path), exist_ok=True)
        with open(path, "wb") as f:
            f.write(data)
    old_cwd = os.getcwd()
    if cwd is not None:
        os.makedirs(cwd, exist_ok=True)
        os.chdir(cwd)
    with contextlib.redirect_stdout(io.StringIO()), contextlib.redirect_stderr(io.StringIO()):
        try:
            migrate_v1_to_v2(arg if arg is not None else root)
            crash = None
        except Exception as e:  # noqa
            crash = e
        finally:
            os.chdir(old_cwd)
    if crash is not None:
        ctx.violation(f"migrate_v1_to_v2(directory) raised {type(crash).__name__}", {"kind": "files", "directory": label, "observed": repr(crash)})
        return 0
    n = 0
    for rel, data in files.items():
        with open(os.path.join(root, rel), "rb") as f:
            now = f.read()
        n += 1
        rp = {"kind": "files", "directory": f"{label}: migrate_v1_to_v2({(arg if arg is not None else root)!r})", "file": rel,
              "before_bytes": repr(data)[:300], "after_bytes": repr(now)[:300]}
        untouchable = rel.startswith(".hidden/") or "__pycache__" in rel or not rel.endswith(".py") or rel == "nothing.py"
        if now == data:
            if not untouchable and rel in ("plain.py", "utf8.py", "pkg/inner/deep.py", "crlf.py", "no_newline.py"):
                ctx.violation(f"the migration left {rel} untouched although it imports mapped v1 names ({label})",
                              dict(rp, expected="the v1 imports rewritten (rewrite_imports does rewrite this source)"))
            continue
        if untouchable:
            ctx.violation(f"the migration changed a file it must leave alone: {rel}", rp)
            continue
        try:
            before_tree, after_tree = ast.parse(data), ast.parse(now)      # bytes: the declared encoding is honoured
        except (SyntaxError, ValueError) as e:
            ctx.violation(f"the migrated file {rel} is no longer valid Python (as Python reads the file): {e}", rp)
            continue
        why = compare_bodies(before_tree.body, after_tree.body, mapping)
        if why:
            ctx.violation(f"the migrated file {rel} is not the module it was with its imports rewritten: {why}", rp)
    return n


def run(ctx):
    import gen_tables_migrate
    mapping, rewrite = _impl()
    r = ctx.rng
    files_checked = probe_files(ctx, mapping)

    # ---- the table tie: a target that cannot be imported (the theorem then no longer checks;
    # this is the concrete failing entry)
    mp, err = gen_tables_migrate.read_mapping()
    if mp is None:
        ctx.violation("the v1-to-v2 mapping cannot be read: " + err,
                      {"python": "from d42.migration.migrate_v1_to_v2 import mapping; print(mapping)", "observed": err,
                       "expected": "a dict {module: {name: (new_module, new_name)}}"})
        return
    for m, n, nm, nn, reason in gen_tables_migrate.missing_targets(mp)[:5]:
        ctx.violation(f"mapping target not importable: {m}.{n} -> from {nm} import {nn}: {reason}",
                      {"python": f"from d42.migration.migrate_v1_to_v2 import mapping\nassert mapping[{m!r}][{n!r}] == ({nm!r}, {nn!r})\n"
                                 f"from {nm} import {nn}",
                       "entry": [m, n, nm, nn], "observed": reason,
                       "expected": "every target of the mapping is importable from d42 (theorem mapping_targets_exported)"})
    for m, n, nm, nn in gen_tables_migrate.flat(mp):
        if not (nm == "d42" or nm.startswith("d42.")):
            ctx.violation(f"mapping target outside the package: {m}.{n} -> {nm}.{nn}",
                          {"python": f"from d42.migration.migrate_v1_to_v2 import mapping\nprint(mapping[{m!r}][{n!r}])",
                           "entry": [m, n, nm, nn], "observed": f"target module {nm}", "expected": "a module of d42"})
            break

    # ---- generate
    g = ModGen(r, mapping)
    cases = []
    rejects = 0

    def add(stream, src):
        """stream None: name it by the classifiers (main / shared_line / linebreak_chars /
        linebreak_harmless = such a character only after the last rewritten import)"""
        nonlocal rejects
        try:
            ast.parse(src)
            if stream is None:
                stream = classify(src) or ("linebreak_harmless" if any(ch in src for ch in SPLIT_ONLY) else "main")
        except (SyntaxError, ValueError):
            rejects += 1
            return
        c = Case()
        c.src, c.stream, c.term, c.unmodelled = src, stream, None, None
        cases.append(c)

    for src in CORNERS:
        add(None, src)
    n_main = ctx.scale(420, 12000)
    for _ in range(n_main):
        add(None, g.main_module())
    guard = 0
    while len(g.covered) < len(g.pairs) and guard < 5000:      # every mapped name at least once in the main stream
        guard += 1
        m, n = next(p for p in g.pairs if p not in g.covered)
        g.covered.add((m, n))
        ps = g.pieces(want_abs=None)
        ps.insert(r.randint(0, len(ps)), ("abs", g.import_text(m, [(n, r.choice([None, None, "al"]))] + g.names_for(m))))
        add(None, g.assemble(ps))
    for src in g.single_modules():
        add("singles", src)
    for _ in range(ctx.scale(130, 2500)):
        add(None, g.shared_module())
    for _ in range(ctx.scale(90, 1500)):
        add(None, g.linebreak_module())
    if rejects > max(5, len(cases) // 50):
        raise common.CheckBroken(f"C19 generator produced {rejects} unparsable modules")

    # ---- oracle on the implementation (every stream is judged alike)
    fails = collections.Counter()
    for c in cases:
        c.out, c.why = oracle(c.src, mapping, rewrite)
        c.cls = classify(c.src)
        if c.why is None:
            continue
        if c.why.endswith("[duplicate local name]") and ctx.known_finding("F36", c.src.strip()[:200]):
            fails["duplicate_local_name"] += 1
            continue
        fails[c.cls or "unclassified"] += 1
        label = {"shared_line": " [a rewritten from-import shares a physical line with other code]",
                 "linebreak_chars": " [the implementation's line list differs from the tokenizer's]"}.get(c.cls, "")
        if len(ctx.violations) < 40:
            ctx.violation("rewrite_imports violates the property" + label + ": " + c.why,
                          _replay_dict(c, "None or valid Python with every top-level absolute from-import replaced at its place "
                                          "by from-imports binding the same local names from the mapped targets, every other "
                                          "statement unchanged and in order"))

    # ---- correspondence with the model
    modelled = []
    unmodelled = collections.Counter()
    for c in cases:
        try:
            ab = Abstraction(c.src)
            # (py_aligned, expect_region, oracle_failed): every input is meant to satisfy the
            # hypothesis of rewrite_splice_correct (the ast view given is the lines' own)
            flags = (not misaligned(c.src, ab.geo), True, c.why is not None)
            c.term = ab.case_term(c.out if (c.out is None or isinstance(c.out, str)) else None, flags)
            modelled.append(c)
        except Unmodelled as e:
            c.unmodelled = str(e)
            unmodelled[str(e)] += 1
    bad = common.eval_cases(ctx.workdir, "c19", [c.term for c in modelled], "mcase", "migrate_case_full",
                            extra_requires=REQUIRES, per_file=ctx.scale(120, 400))
    for k, i in enumerate(bad[:10]):
        c = modelled[i]
        parts = []
        for fn in ("migrate_case_ok", "migrate_region_ok", "migrate_damage_ok", "migrate_theorem_instance") if k < 3 else ():
            if common.eval_cases(ctx.workdir, "c19d", [c.term], "mcase", fn, extra_requires=REQUIRES):
                parts.append(fn)
        rp = _replay_dict(c, "the model of rewrite_imports (theories/Migrate.v) predicts the observed statement list")
        rp.update(theorem_or_suite="C19 correspondence rewrite_imports", failed_parts=parts, coq_case=c.term[:4000])
        ctx.violation("model and implementation disagree on rewrite_imports (" + ", ".join(parts) + ")", rp,
                      failing_input=c.why is not None and c.cls is None)

    # ---- which mapped names were really exercised (read back from the generated sources)
    seen = {"main": set(), "singles": set()}
    for c in cases:
        if c.stream in seen and c.why is None and c.out is not None:
            for node in ast.parse(c.src).body:
                if is_abs_import(node) and node.module in mapping:
                    seen[c.stream].update((node.module, a.name) for a in node.names if a.name in mapping[node.module])
    if len(seen["main"] | seen["singles"]) < len(g.pairs) and not ctx.violations:
        raise common.CheckBroken("C19 generator did not cover every mapped name")

    # ---- evidence
    by_stream = collections.Counter(c.stream for c in cases)
    nontrivial = {c.src for c in cases if c.out is not None}
    samples = []
    for st in ("main", "singles", "shared_line", "linebreak_chars", "linebreak_harmless"):
        for c in [c for c in cases if c.stream == st][:2]:
            samples.append({"stream": st, "source": c.src[:400], "output": None if c.out is None else str(c.out)[:400],
                            "oracle": c.why or "ok"})
    ctx.coverage.update(
        evaluations=len(cases),
        distinct_nontrivial=len(nontrivial),
        rule="Python modules assembled from ctx.rng: from-import forms (single line, parenthesised on one line, hanging "
             "indent, first name on the opening line, backslash-continued, extra spaces, comments/blank lines inside the "
             "parentheses, `as` split over lines, star, relative level 1-3 incl. relative imports of v1 module names, "
             "__future__, names mapped/unmapped/mapped-under-another-module/duplicated, aliases) interleaved with other "
             "statements (assignments, defs/classes/if/try/match with nested v1 imports, decorators, docstrings and "
             "multi-line strings containing import text, several statements per line, one-line compounds), comments, "
             "blank lines, CRLF/CR files, with and without trailing newline. Non-trivial = the implementation returned text "
             "(not None); distinct by source text. Oracle (plain Python on the implementation): output parses; statement "
             "sequence equals the input's with each absolute from-import replaced at its place by absolute from-imports "
             "binding the expected (local -> (module, name)) multiset; None only without mapped names; a second run changes "
             "nothing. Every stream (incl. imports sharing physical lines with other code in 21 shapes, and modules "
             "with linebreak-only characters) is judged by this same oracle. Correspondence: Coq model of rewrite_imports "
             "on the ast view (the implementation's lines owning statement pieces + ast positions as (line, piece "
             "index)) must predict the observed statement list (or None); every input must satisfy the hypothesis of "
             "rewrite_splice_correct (aligned), and the model output is re-checked against the theorem's right-hand side.",
        samples=samples,
        correspondence={"suite": "rewrite_imports statement view", "cases": len(modelled), "mismatches": len(bad),
                        "unmodelled": len(cases) - len(modelled), "unmodelled_reasons": dict(unmodelled)},
        oracle_cases=len(cases),
        distribution={"streams": dict(by_stream), "forms": dict(g.forms),
                      "mapped_names_covered": {"main_stream": f"{len(seen['main'])}/{len(g.pairs)}",
                                               "singles_stream": f"{len(seen['singles'])}/{len(g.pairs)}"},
                      "oracle_failures_by_class": dict(fails), "returned_none": sum(1 for c in cases if c.out is None),
                      "generator_rejects": rejects},
    )
    ctx.notes["c19_notes"] = [
        "comments on the physical lines of a rewritten import (trailing `# ...`, comments inside the parentheses) are "
        "dropped by the implementation; they are not statements, so this is not counted against the property",
        "an absolute from-import of an unmapped module is re-emitted (normalised to one line) and the function returns "
        "text, not None; None only when there is no absolute top-level from-import at all",
        "from-imports nested in def/class/if/try are never rewritten (the property speaks about top-level imports only)",
        f"the mapping has {len(g.pairs)} entries in this tree (the property text says 120)",
    ]


def replay(data):
    mapping, rewrite = _impl()
    if "source" not in data:
        print("replay carries no module source; python to run:")
        print(data.get("python"))
        if data.get("python"):
            try:
                exec(data["python"], {})
                print("-> ran without exception")
            except BaseException as e:  # noqa
                print("-> raised", repr(e))
        return 0
    src = data["source"]
    print("input :", repr(src))
    try:
        out, why = oracle(src, mapping, rewrite)
    except Exception as e:  # noqa
        print("oracle could not run:", repr(e))
        return 0
    print("output:", repr(out))
    print("oracle:", why or "property holds for this input")
    try:
        print("classifier:", classify(src))
    except Exception as e:  # noqa
        print("classifier failed:", repr(e))
    print("expected:", data.get("expected"))
    return 0
