"""C13 - schema combinators mean what their parts mean.

a | b, schema.any(a, b, ...), d1 + d2, make_required(d, keys), schema.alias(name, t),
d[key], iteration / keys() / `in`.

Correspondence: the schema (or exception class) the real combinator returns vs the model
(coq/theories/Combinators.v), exact, key order included.
Direct oracle on the real code, independent of the model: verdicts of the result against
verdicts of the parts (union, textbook-merged dict declared separately, key-by-key
acceptance rule evaluated by hand, presence of the required keys), member identity.
"""
import collections

from niltype import Nil

import absn
import common
import custom
import gen
from absn import Unmodelled

PROPS_FILE = "props/C13.v"
MODEL_FILES = ["theories/Combinators.v"]
EXTRA_TRUSTED = [
    "C13: operands that are not schemas (a | 5, schema.any(a, 'x'), d + {}, make_required(d, 'ab')) are outside "
    "the model's types; their rejection is checked directly on the real code only",
    "C13: interpretation fixed in DESIGN.md: an undeclared operand (schema.dict) contributes no keys and no "
    "relaxation to d1 + d2 (so schema.dict + schema.dict is schema.dict({})); `...` is not a key for "
    "make_required's 'listed keys are present'",
]

REQ = "Require Import D42.Combinators."
KEYPOOL = ["a", "b", "c", "id", 1, 0, None, "", ("a", "b"), (0, 1), ("id",), (), b"k", 1.5]


def _ns():
    from d42.utils import make_required
    return dict(gen.NS, custom=custom, make_required=make_required)


def build(src):
    return eval(src, _ns())


# ------------------------------------------------------------------ verdicts on the real code
def verdict(s, v):
    from d42 import validate
    try:
        return not validate(s, v).has_errors()
    except Exception as e:  # noqa
        return "raise:" + type(e).__name__


def _keq(a, b):
    if a is ... or b is ...:
        return a is b
    try:
        return a == b and hash(a) == hash(b)
    except Exception:  # noqa
        return False


# ------------------------------------------------------------------ dict operands with their declared spec
class Entry:
    __slots__ = ("key", "opt", "msrc", "mobj")

    def __init__(self, key, opt, msrc, mobj):
        self.key, self.opt, self.msrc, self.mobj = key, opt, msrc, mobj

    def src(self):
        if self.key is ...:
            return "...: ..."
        k = f"optional({self.key!r})" if self.opt else repr(self.key)
        return f"{k}: {self.msrc}"


class DOperand:
    """A dict schema together with what was declared: entries in order (the relaxed marker is
    an entry with key ...), or entries=None for the undeclared schema.dict."""

    def __init__(self, entries):
        self.entries = entries

    @property
    def src(self):
        if self.entries is None:
            return "schema.dict"
        return "schema.dict({" + ", ".join(e.src() for e in self.entries) + "})"

    def declare(self):
        """Declare through the public API from the member objects themselves."""
        from d42 import optional, schema
        if self.entries is None:
            return schema.dict
        spec = {}
        for e in self.entries:
            if e.key is ...:
                spec[...] = ...
            else:
                spec[optional(e.key) if e.opt else e.key] = e.mobj
        return schema.dict(spec)

    def ents(self):
        return self.entries or []

    def relaxed(self):
        return any(e.key is ... for e in self.ents())

    def find(self, k):
        for e in self.ents():
            if _keq(e.key, k):
                return e
        return None


def gen_doperand(r, depth, pool=KEYPOOL):
    c = r.random()
    if c < 0.07:
        return DOperand(None)
    if c < 0.12:
        return DOperand([])
    names = r.sample(pool, r.randint(0 if c < 0.2 else 1, 4))
    entries = []
    for nm in names:
        msrc, mobj = gen.gen_schema(r, r.randint(0, depth), {"no_alias": False})
        entries.append(Entry(nm, r.random() < 0.4, msrc, mobj))
    if r.random() < 0.4:
        entries.insert(r.randint(0, len(entries)), Entry(..., False, None, None))
    return DOperand(entries)


def textbook_merge(e1, e2):
    """d1's entries in place, each replaced by d2's entry for the same key; then d2's entries
    whose key d1 does not declare."""
    out = []
    for e in e1:
        repl = [x for x in e2 if _keq(x.key, e.key)]
        out.append(repl[0] if repl else e)
    for x in e2:
        if not any(_keq(x.key, e.key) for e in e1):
            out.append(x)
    return out


def textbook_accepts(entries, v):
    """The acceptance rule of a dict schema evaluated key by key on the member verdicts."""
    if not isinstance(v, dict):
        return False
    for e in entries:
        if e.key is ...:
            continue
        if e.key in v:
            ok = verdict(e.mobj, v[e.key])
            if ok is not True:
                return ok
        elif not e.opt:
            return False
    if not any(e.key is ... for e in entries):
        for k in v:
            if not any(_keq(k, e.key) for e in entries if e.key is not ...):
                return False
    return True


# ------------------------------------------------------------------ arbitrary operands
def gen_operand(r, depth):
    c = r.random()
    if c < 0.5:
        return gen.gen_schema(r, r.randint(0, depth))
    if c < 0.62:
        a, _ = gen.gen_schema(r, 1)
        b, _ = gen.gen_schema(r, 1)
        src = r.choice(["schema.any", f"schema.any({a})", f"schema.any({a}, {b})",
                        f"schema.alias('U', schema.any({a}, {b}))", f"schema.any(schema.any, {a})",
                        f"schema.list(schema.any({a}, {b}))"])
        return src, build(src)
    if c < 0.72:
        # a declared any whose alternatives contain a declared any: only substitution builds one
        src = r.choice(["(schema.any(schema.any, schema.str) % 5)",
                        "(schema.any(schema.any(schema.any, schema.none), schema.int) % 7)",
                        "(schema.any(schema.any, schema.list) % [1])",
                        "(schema.any(schema.any) % 'x')"])
        return src, build(src)
    if c < 0.82:
        a, _ = gen.gen_schema(r, 1)
        b, _ = gen.gen_schema(r, 1)
        src = r.choice([f"custom.fwd(schema.any({a}, {b}))", f"custom.fwd({a})",
                        f"schema.any(custom.fwd(schema.any({a})), {b})"])
        return src, build(src)
    d = gen_doperand(r, 1)
    return d.src, d.declare()


def tb_flatten(ops):
    from d42.declaration.types import AnySchema
    out = []
    for x in ops:
        if isinstance(x, AnySchema) and x.props.types is not Nil:
            out.extend(tb_flatten(x.props.types))
        else:
            out.append(x)
    return out


def values_for(r, schemas, n_perturb):
    vals = []
    for s in schemas:
        try:
            v = gen.conform(r, s)
        except Exception:  # noqa
            continue
        vals.append(v)
        vals += gen.perturbations(r, v, limit=n_perturb)
    vals.append(r.choice(gen.UNRELATED))
    return vals


# ------------------------------------------------------------------ the check
class Suite:
    def __init__(self, ctx):
        self.ctx = ctx
        self.terms = collections.defaultdict(list)      # ctype -> terms
        self.meta = collections.defaultdict(list)
        self.unmodelled = 0
        self.evaluations = 0
        self.oracle_cases = 0
        self.nontrivial = set()
        self.dist = collections.Counter()
        self.samples = []
        self.observations = {}

    def add(self, ctype, mk, rp):
        try:
            t = mk()
        except Unmodelled:
            self.unmodelled += 1
            return
        self.terms[ctype].append(t)
        self.meta[ctype].append(rp)
        self.nontrivial.add(t)

    def viol(self, what, rp, failing_input=True):
        self.ctx.violation(what, rp, failing_input=failing_input)


def cres_schema(fn, kt):
    return absn.cresult(fn, lambda x: absn.cschema(x, kt))


def check_union(S, r, depth, n_perturb):
    from d42 import schema
    from d42.declaration import DeclarationError
    n = r.choice([2, 2, 2, 1, 3, 4])
    ops = [gen_operand(r, depth) for _ in range(n)]
    srcs = [o[0] for o in ops]
    objs = [o[1] for o in ops]
    kt = absn.KeyTable()
    S.evaluations += 1
    variants = []
    if n == 2:
        a, b = objs
        variants.append((f"({srcs[0]}) | ({srcs[1]})", lambda: a | b,
                         lambda: f"(OpOr {absn.cschema(a, kt)} {absn.cschema(b, kt)})"))
    variants.append(("schema.any(" + ", ".join(srcs) + ")", lambda: schema.any(*objs),
                     lambda: "(OpAny None " + absn.clist([absn.cschema(x, kt) for x in objs]) + ")"))
    if n == 3:
        a, b, c = objs
        variants.append((f"({srcs[0]}) | (({srcs[1]}) | ({srcs[2]}))", lambda: a | (b | c), None))
        variants.append((f"(({srcs[0]}) | ({srcs[1]})) | ({srcs[2]})", lambda: (a | b) | c, None))
        variants.append((f"schema.any(schema.any({srcs[0]}, {srcs[1]}), {srcs[2]})",
                         lambda: schema.any(schema.any(a, b), c), None))
    vals = values_for(r, objs, n_perturb)
    expect_flat = tb_flatten(objs)
    for usrc, mk, opterm in variants:
        rp = {"kind": "input", "op": "union", "expr": usrc}
        try:
            u = mk()
        except Exception as e:  # noqa
            S.viol(f"union raises {type(e).__name__}", dict(rp, observed=common.srepr(e), expected="an any schema"))
            continue
        if opterm is not None:
            S.add("combcase", lambda: f"({opterm()}, {cres_schema(mk, kt)})", rp)
        got = list(u)
        if len(got) != len(expect_flat) or any(x is not y for x, y in zip(got, expect_flat)):
            S.viol("alternatives of the union are not the flattened operands in order",
                   dict(rp, observed=common.srepr(got)[:400], expected=common.srepr(expect_flat)[:400]))
        S.add("anyitercase", lambda: f"({absn.cschema(u, kt)}, " +
                                     absn.clist([absn.cschema(x, kt) for x in got]) + ")", rp)
        S.dist["union:operands=%d" % n] += 1
        if len(expect_flat) != n:
            S.dist["union:flattened"] += 1
            if sum(1 for s in S.samples if s.get("op") == "union") < 2:
                S.samples.append({"op": "union", "expr": usrc, "result": repr(u)})
        for v in vals:
            S.oracle_cases += 1
            parts = [verdict(x, v) for x in objs]
            got_v = verdict(u, v)
            if any(isinstance(p, str) for p in parts) or isinstance(got_v, str):
                S.dist["union:validator_raised"] += 1
                continue
            want = any(parts)
            S.dist["union:accept" if want else "union:reject"] += 1
            if got_v != want:
                S.viol(f"union verdict {got_v} but operand verdicts {parts}",
                       dict(rp, value=gen.vsrc(v), observed=got_v, expected=want))
    # rejected declarations
    if r.random() < 0.25:
        a = objs[0]
        S.oracle_cases += 3
        declared = schema.any(a)
        S.add("combcase", lambda: "(OpAny (Some " + absn.clist([absn.cschema(x, kt) for x in declared]) + ") " +
                                  absn.clist([absn.cschema(a, kt)]) + ", " +
                                  cres_schema(lambda: declared(a), kt) + ")",
              {"kind": "input", "op": "union", "expr": f"schema.any({srcs[0]})({srcs[0]})"})
        S.add("combcase", lambda: "(OpAny None [], " + cres_schema(lambda: schema.any(), kt) + ")",
              {"kind": "input", "op": "union", "expr": "schema.any()"})
        for expr, fn in ((f"({srcs[0]}) | 5", lambda: a | 5), (f"schema.any({srcs[0]}, 'x')", lambda: schema.any(a, "x")),
                         (f"schema.any({srcs[0]})({srcs[0]})", lambda: declared(a))):
            try:
                fn()
                S.viol("declaration accepted", {"kind": "input", "op": "union", "expr": expr,
                                                "expected": "DeclarationError"})
            except DeclarationError:
                pass
            except Exception as e:  # noqa
                S.viol(f"declaration raises {type(e).__name__}", {"kind": "input", "op": "union", "expr": expr,
                                                                  "expected": "DeclarationError"})


def check_alias(S, r, depth, n_perturb):
    from d42 import schema
    tsrc, t = gen_operand(r, depth)
    name = r.choice(["A", "Name", "", "é"])
    S.evaluations += 1
    kt = absn.KeyTable()
    rp = {"kind": "input", "op": "alias", "expr": f"schema.alias({name!r}, {tsrc})"}
    al = schema.alias(name, t)
    S.add("combcase", lambda: f"(OpAlias {absn.cstr(name)} {absn.cschema(t, kt)}, " +
                              cres_schema(lambda: schema.alias(name, t), kt) + ")", rp)
    if al.props.type is not t or al.props.name != name:
        S.viol("alias does not expose its target / name", dict(rp, observed=common.srepr(al.props)))
    for v in values_for(r, [t], n_perturb):
        S.oracle_cases += 1
        a, b = verdict(al, v), verdict(t, v)
        S.dist["alias:accept" if b is True else "alias:reject"] += 1
        if a != b:
            S.viol(f"alias verdict {a}, target verdict {b}", dict(rp, value=gen.vsrc(v), observed=a, expected=b))
    # alias CLASSES of one's own (GenericTypeAliasSchema over a Props class): the aliased type is whatever `props.type`
    # says - also when the Props class computes it (a default, as the declaration tests do) instead of storing it
    from d42 import fake
    from d42.declaration.types import GenericTypeAliasSchema, TypeAliasProps

    class _DefaultedProps(TypeAliasProps):
        @property
        def type(self):
            return self.get("type", t)

    class _DefaultedAlias(GenericTypeAliasSchema[_DefaultedProps]):
        pass

    class _PlainAlias(GenericTypeAliasSchema[TypeAliasProps]):
        pass
    variants = [("an alias class whose Props computes the type", _DefaultedAlias()),
                ("an alias class whose Props computes the type, nested", schema.list([_DefaultedAlias(), ...])),
                ("a user subclass of the alias schema, declared", _PlainAlias(TypeAliasProps().update(name=name, type=t)))]
    for label, al2 in variants:
        nested = "nested" in label
        for v in values_for(r, [t], n_perturb)[:6]:
            S.oracle_cases += 1
            w = [v, 0] if nested else v
            a = verdict(al2, w)
            b = verdict(schema.list([t, ...]), w) if nested else verdict(t, v)
            S.dist["alias_class:" + ("accept" if b is True else "reject")] += 1
            if a != b:
                S.viol(f"{label}: verdict {a}, target verdict {b}", dict(rp, alias_class=label, value=gen.vsrc(w), observed=a, expected=b))
                break


def _ckeys(ks, kt):
    if ks is None:
        return "None"
    return "(Some " + absn.clist([absn.ckey(k, kt) for k in ks]) + ")"


def _probe_members(S, r, d, dsrc, member_of, order, relaxed, kt):
    """d[k], iteration, keys(), `in` against what was declared."""
    from d42 import optional
    rp0 = {"kind": "input", "op": "members", "expr": dsrc}
    probes = [k for k in order] + [..., "zz", r.choice(KEYPOOL), optional("a"), True]
    for k in probes:
        S.oracle_cases += 1
        try:
            got = d[k]
            out = "ok"
        except KeyError:
            got, out = None, "KeyError"
        except Exception as e:  # noqa
            got, out = e, type(e).__name__
        want = member_of(k) if k is not ... else None
        rp = dict(rp0, key=gen.vsrc(k))
        if want is None:
            if out != "KeyError":
                S.viol(f"d[{k!r}] on an undeclared key / `...`: {out}", dict(rp, expected="KeyError", observed=common.srepr(got)))
        elif out != "ok" or got is not want:
            S.viol(f"d[{k!r}] is not the declared member", dict(rp, expected=common.srepr(want), observed=common.srepr(got)))
        S.add("getcase", lambda: f"({absn.cschema(d, kt)}, {absn.ckey(k, kt)}, " +
                                 absn.cresult(lambda: d[k], lambda m: "None" if m is ... else
                                              f"(Some {absn.cschema(m, kt)})") + ")", rp)
    S.oracle_cases += 1
    it = list(d)
    ks = list(d.keys())
    real = [k for k in it if k is not ...]
    if len(real) != len(order) or any(not _keq(x, y) for x, y in zip(real, order)) or \
            len(ks) != len(it) or any(x is not y for x, y in zip(ks, it)):
        S.viol("iteration / keys() do not list the declared keys in order",
               dict(rp0, observed=common.srepr(it), expected=common.srepr(order)))
    if any(k is ... for k in it):
        # recorded observation (see report): iteration yields the relaxed marker, for which
        # d[...] raises KeyError, so [d[k] for k in d] fails on a relaxed schema
        S.dist["iter:yields_ellipsis"] += 1
        S.observations.setdefault("iteration_yields_ellipsis", dsrc)
        if not relaxed:
            S.viol("iteration yields `...` for a schema that is not relaxed", dict(rp0, observed=common.srepr(it)))
    elif relaxed:
        S.observations.setdefault("iteration_hides_ellipsis", dsrc)
    probe = r.choice(probes[:-2] + [True])
    declared = any(_keq(probe, k) for k in it)
    if (probe in d) != declared:
        S.viol(f"`{probe!r} in d` disagrees with the declared keys", dict(rp0, key=gen.vsrc(probe)))
    S.add("itercase", lambda: f"({absn.cschema(d, kt)}, {absn.ckey(probe, kt)}, " +
                              absn.cresult(lambda: list(d), lambda l: absn.clist([absn.ckey(k, kt) for k in l])) +
                              ", " + absn.cresult(lambda: probe in d, absn.cbool) + ")", rp0)


def check_add(S, r, depth, n_perturb):
    from d42 import schema
    d1s, d2s = gen_doperand(r, depth), gen_doperand(r, depth)
    if r.random() < 0.5 and d1s.entries and d2s.entries is not None:
        # force an overlap with the flag flipped / kept
        e = r.choice(d1s.entries)
        if e.key is not ... and d2s.find(e.key) is None:
            msrc, mobj = gen.gen_schema(r, r.randint(0, depth))
            d2s.entries.insert(r.randint(0, len(d2s.entries)),
                               Entry(e.key, r.choice([not e.opt, not e.opt, e.opt]), msrc, mobj))
    d1, d2 = d1s.declare(), d2s.declare()
    kt = absn.KeyTable()
    S.evaluations += 1
    expr = f"{d1s.src} + {d2s.src}"
    rp = {"kind": "input", "op": "add", "expr": expr}
    try:
        d = d1 + d2
    except Exception as e:  # noqa
        S.viol(f"d1 + d2 raises {type(e).__name__}", dict(rp, observed=common.srepr(e)))
        return
    S.add("combcase", lambda: f"(OpAdd {absn.cschema(d1, kt)} {absn.cschema(d2, kt)}, " +
                              cres_schema(lambda: d1 + d2, kt) + ")", rp)
    S.add("addcase", lambda: f"({absn.cschema(d1, kt)}, {absn.cschema(d2, kt)})", rp)
    merged = textbook_merge(d1s.ents(), d2s.ents())
    exp_s = DOperand(merged)
    expected = exp_s.declare()
    rp["expected_schema"] = exp_s.src
    for e in d1s.ents():
        o = d2s.find(e.key)
        if o is not None and e.key is not ...:
            S.dist["add:overlap %s->%s" % ("opt" if e.opt else "req", "opt" if o.opt else "req")] += 1
    S.dist["add:relaxed d1=%d d2=%d" % (d1s.relaxed(), d2s.relaxed())] += 1
    if sum(1 for s in S.samples if s.get("op") == "add") < 2 and any(
            d2s.find(e.key) is not None for e in d1s.ents() if e.key is not ...):
        S.samples.append({"op": "add", "expr": expr, "result": repr(d), "textbook": exp_s.src})
    if d1s.entries is None or d2s.entries is None:
        S.dist["add:undeclared operand"] += 1
    # same schema as the one declared from the textbook merge (order included)
    same_keys = len(list(d)) == len(list(expected)) and all(_keq(x, y) for x, y in zip(d, expected))
    try:
        same_term = absn.cschema(d, kt) == absn.cschema(expected, kt)
    except Unmodelled:
        same_term = True
    if not same_keys or not same_term or repr(d) != repr(expected):
        S.viol("d1 + d2 is not the dict schema with d1's keys overridden and extended by d2's",
               dict(rp, observed=common.srepr(d)[:500], expected=common.srepr(expected)[:500]))
    if (... in list(d)) != (d1s.relaxed() or d2s.relaxed()):
        S.viol("d1 + d2 is relaxed iff either operand is: violated", dict(rp, observed=common.srepr(d)[:300]))
    vals = values_for(r, [d1, d2, expected], n_perturb)
    for v in vals:
        S.oracle_cases += 1
        got = verdict(d, v)
        want = verdict(expected, v)
        by_hand = textbook_accepts(merged, v)
        if isinstance(got, str) or isinstance(want, str) or isinstance(by_hand, str):
            S.dist["add:validator_raised"] += 1
            continue
        S.dist["add:accept" if want else "add:reject"] += 1
        if got != want or got != by_hand:
            S.viol(f"d1 + d2 verdict {got}; separately declared merged dict {want}; key-by-key rule {by_hand}",
                   dict(rp, value=gen.vsrc(v), observed=got, expected=want))

    # associativity (theorem add_assoc): (d1 + d2) + d3 and d1 + (d2 + d3) are the same schema - entries,
    # optional flags and key order (the printed form shows the order)
    if r.random() < 0.6:
        d3s = gen_doperand(r, depth)
        d3 = d3s.declare()
        S.oracle_cases += 1
        S.dist["add:assoc"] += 1
        ex3 = f"(({d1s.src} + {d2s.src}) + {d3s.src}, {d1s.src} + ({d2s.src} + {d3s.src}))"   # a pair: both groupings
        try:
            left, right = (d1 + d2) + d3, d1 + (d2 + d3)
            same = (left == right) and (repr(left) == repr(right)) and \
                ([repr(k) for k in left] == [repr(k) for k in right])
            if not same:
                S.viol("+ is not associative", {"kind": "input", "op": "add", "expr": ex3,
                                                "observed": common.srepr(left)[:400], "expected": common.srepr(right)[:400]})
        except Exception as e:  # noqa
            S.viol(f"chained + raises {type(e).__name__}", {"kind": "input", "op": "add", "expr": ex3,
                                                            "observed": common.srepr(e)})

    def member_of(k):
        e = d2s.find(k) or d1s.find(k)
        return e.mobj if (e is not None and e.key is not ...) else None
    _probe_members(S, r, d, expr, member_of, [e.key for e in merged if e.key is not ...],
                   d1s.relaxed() or d2s.relaxed(), kt)
    # operands of the wrong class
    if r.random() < 0.15:
        S.oracle_cases += 3
        for ex, fn, want in ((f"{d1s.src} + schema.int", lambda: d1 + schema.int, TypeError),
                             (f"{d1s.src} + {{}}", lambda: d1 + {}, TypeError),
                             (f"schema.alias('A', {d1s.src}) + {d2s.src}", lambda: schema.alias("A", d1) + d2,
                              AttributeError)):
            try:
                fn()
                S.viol("+ accepted an operand that is not a dict schema", {"kind": "input", "op": "add", "expr": ex})
            except want:
                pass
            except Exception as e:  # noqa
                S.viol(f"+ raises {type(e).__name__}", {"kind": "input", "op": "add", "expr": ex,
                                                         "expected": want.__name__})
        S.add("combcase", lambda: f"(OpAdd {absn.cschema(d1, kt)} (SInt None None None), " +
                                  cres_schema(lambda: d1 + schema.int, kt) + ")", rp)
        al = schema.alias("A", d1)
        S.add("combcase", lambda: f"(OpAdd {absn.cschema(al, kt)} {absn.cschema(d2, kt)}, " +
                                  cres_schema(lambda: al + d2, kt) + ")", rp)


def check_required(S, r, depth, n_perturb):
    from d42.declaration import DeclarationError
    from d42.utils import make_required
    ds = gen_doperand(r, depth)
    if ds.entries and r.random() < 0.7:
        for e in ds.entries:                       # more optional keys
            if e.key is not ... and r.random() < 0.5:
                e.opt = True
    d = ds.declare()
    d0 = ds.declare()          # an independent twin, never handed to make_required: the oracle's "d"
    real = [e.key for e in ds.ents() if e.key is not ...]
    c = r.random()
    if c < 0.25:
        ks = None
    elif c < 0.4:
        ks = r.choice([[], (), set()])
    else:
        sub = r.sample(real, r.randint(0, len(real))) if real else []
        c2 = r.random()
        if c2 < 0.12:
            sub = sub + [...]
        elif c2 < 0.3:
            sub = sub + [r.choice(["zz", 77, "a", 1, None])]
        elif c2 < 0.36 and 1 in sub:
            sub = [True if k == 1 and k is not True else k for k in sub]
        ks = r.choice([list, tuple, set])(sub)
    kt = absn.KeyTable()
    S.evaluations += 1
    ksrc = "" if ks is None else ", " + _keys_src(ks)
    expr = f"make_required({ds.src}{ksrc})"
    rp = {"kind": "input", "op": "make_required", "expr": expr}
    S.add("combcase", lambda: f"(OpReq {absn.cschema(d, kt)} {_ckeys(None if ks is None else list(ks), kt)}, " +
                              cres_schema(lambda: make_required(d, ks), kt) + ")", rp)
    declared_all = [e.key for e in ds.ents()]
    eff = list(ks) if ks is not None else declared_all
    want_err = any(not any(_keq(k, x) for x in declared_all) for k in eff)
    try:
        d2 = make_required(d, ks)
        out = "ok"
    except DeclarationError:
        d2, out = None, "DeclarationError"
    except Exception as e:  # noqa
        d2, out = e, type(e).__name__
    S.dist["make_required:" + ("keys=None" if ks is None else "keys=empty" if len(ks) == 0 else
                               "keys=some")] += 1
    if want_err:
        S.dist["make_required:undeclared key"] += 1
        if out != "DeclarationError":
            S.viol(f"make_required with an undeclared key: {out}", dict(rp, expected="DeclarationError"))
        return
    if out != "ok":
        S.viol(f"make_required raises {out}", dict(rp, observed=common.srepr(d2)))
        return
    need = [k for k in eff if k is not ...]
    if sum(1 for s in S.samples if s.get("op") == "make_required") < 2 and ds.entries:
        S.samples.append({"op": "make_required", "expr": expr, "result": repr(d2)})
    for v in values_for(r, [d, d2], n_perturb):
        S.oracle_cases += 1
        got = verdict(d2, v)
        base = verdict(d0, v)
        if verdict(d, v) != base:
            S.viol("make_required changed its operand: the operand's verdict differs from an identically declared twin's",
                   dict(rp, value=gen.vsrc(v), observed=verdict(d, v), expected=base))
            break
        if isinstance(got, str) or isinstance(base, str):
            S.dist["make_required:validator_raised"] += 1
            continue
        want = base and isinstance(v, dict) and all(k in v for k in need)
        S.dist["make_required:accept" if want else "make_required:reject"] += 1
        if base and not want:
            S.dist["make_required:rejects a value d accepts"] += 1
        if got != want:
            S.viol(f"make_required verdict {got}; d accepts: {base}; listed keys present: "
                   f"{isinstance(v, dict) and all(k in v for k in need)}",
                   dict(rp, value=gen.vsrc(v), observed=got, expected=want))
    _probe_members(S, r, d2, expr, lambda k: (ds.find(k).mobj if ds.find(k) is not None and k is not ... else None),
                   real, ds.relaxed(), kt)
    if r.random() < 0.1:
        S.oracle_cases += 3
        from d42 import schema
        for ex, fn in ((f"make_required({ds.src}, 'ab')", lambda: make_required(d, "ab")),
                       (f"make_required({ds.src}, {{'a': 1}})", lambda: make_required(d, {"a": 1})),
                       ("make_required(schema.int)", lambda: make_required(schema.int))):
            try:
                fn()
                S.viol("make_required accepted an inappropriate argument", {"kind": "input", "op": "make_required",
                                                                            "expr": ex})
            except DeclarationError:
                pass
            except Exception as e:  # noqa
                S.viol(f"make_required raises {type(e).__name__}", {"kind": "input", "op": "make_required",
                                                                    "expr": ex, "expected": "DeclarationError"})
        S.add("combcase", lambda: "(OpReq (SInt None None None) None, " +
                                  cres_schema(lambda: make_required(schema.int), kt) + ")", rp)


def _keys_src(ks):
    items = ", ".join(gen.vsrc(k) for k in ks)
    if isinstance(ks, list):
        return "[" + items + "]"
    if isinstance(ks, tuple):
        return "(" + items + ("," if len(ks) == 1 else "") + ")"
    return "{" + items + "}" if len(ks) else "set()"


def check_declared_members(S, r, depth):
    """d[k] / iteration on a freshly declared dict schema."""
    ds = gen_doperand(r, depth)
    d = ds.declare()
    S.evaluations += 1
    _probe_members(S, r, d, ds.src, lambda k: (ds.find(k).mobj if ds.find(k) is not None and k is not ... else None),
                   [e.key for e in ds.ents() if e.key is not ...], ds.relaxed(), absn.KeyTable())


OKFN = {"combcase": "combcase_ok", "getcase": "getcase_ok", "itercase": "itercase_ok",
        "anyitercase": "anyitercase_ok", "addcase": "addcase_ok"}


def run(ctx):
    r = ctx.rng
    S = Suite(ctx)
    n = ctx.scale(130, 2500)
    depth = ctx.scale(2, 3)
    n_perturb = ctx.scale(8, 14)
    for _ in range(n):
        check_union(S, r, depth, n_perturb)
        check_add(S, r, min(depth, 2), n_perturb)
        check_required(S, r, min(depth, 2), n_perturb)
        if r.random() < 0.6:
            check_alias(S, r, depth, n_perturb)
        if r.random() < 0.3:
            check_declared_members(S, r, 1)
    total = 0
    mismatches = 0
    per = {}
    for ctype, terms in S.terms.items():
        bad = common.eval_cases(ctx.workdir, "c13" + ctype, terms, ctype, OKFN[ctype], extra_requires=REQ)
        per[ctype] = {"cases": len(terms), "mismatches": len(bad)}
        total += len(terms)
        mismatches += len(bad)
        for i in bad[:4]:
            S.viol(f"the real combinator's result differs from the model's ({ctype})",
                   dict(S.meta[ctype][i], theorem_or_suite=f"C13 correspondence: {ctype}",
                        expected="the model's result (coq/theories/Combinators.v)"), failing_input=False)
    if S.observations:
        ctx.notes["observations"] = {
            "iteration_yields_ellipsis": "iter(d)/d.keys() of a relaxed dict schema yield the `...` marker among the "
                                         "keys while d[...] raises KeyError, so [d[k] for k in d] raises on e.g. "
                                         + str(S.observations.get("iteration_yields_ellipsis")),
        } if "iteration_yields_ellipsis" in S.observations else dict(S.observations)
    ctx.coverage.update(
        evaluations=S.evaluations,
        distinct_nontrivial=len(S.nontrivial),
        rule="operands: dict schemas declared from a small key pool (so that operands overlap) with optional / "
             "required / relaxed mixes at random positions, undeclared schema.dict and schema.dict({}); arbitrary "
             "schemas (gen.gen_schema, nesting <= %d), bare/declared/aliased/custom-wrapped any, any-in-any built by "
             "substitution; values conforming to each operand and to the expected combination plus one-step "
             "perturbations at every depth and unrelated values. Correspondence: resulting schema or exception class "
             "vs the model, exact incl. key order (combcase), d[k] (getcase), list(d) and `in` (itercase), list(any) "
             "(anyitercase), d1+d2 vs the textbook merge (addcase). Oracle on the real code: union verdict == or of "
             "operand verdicts (incl. nested / re-associated unions), alternatives are the flattened operand objects; "
             "d1+d2 verdict == verdict of the separately declared merged dict == key-by-key rule by hand, equal "
             "schema and printed form, relaxed iff either; make_required verdict == (d verdict and listed keys "
             "present), DeclarationError iff an undeclared key is listed; alias verdict == target verdict; d[k] is the "
             "declared member object, KeyError otherwise; iteration/keys() list the declared keys in order. "
             "Non-trivial: every correspondence case (distinct by canonical Coq term)." % depth,
        samples=S.samples,
        correspondence={"suite": "combinators", "cases": total, "mismatches": mismatches,
                        "unmodelled": S.unmodelled, "per_suite": per},
        oracle_cases=S.oracle_cases,
        distribution=dict(S.dist),
    )


def replay(data):
    from d42 import validate
    print("op  :", data.get("op"))
    print("expr:", data.get("expr"))
    try:
        res = build(data["expr"])
        print("result:", repr(res))
    except Exception as e:  # noqa
        print("raised:", repr(e))
        res = None
    if "expected_schema" in data:
        print("separately declared merged dict:", data["expected_schema"])
    if "key" in data and res is not None:
        k = eval(data["key"], _ns())
        try:
            print(f"result[{k!r}] =", repr(res[k]))
        except Exception as e:  # noqa
            print(f"result[{k!r}] raised", repr(e))
    if "value" in data and res is not None:
        v = eval(data["value"], _ns())
        print("value:", data["value"])
        print("errors:", validate(res, v).get_errors())
        if "expected_schema" in data:
            print("errors of the merged dict:", validate(build(data["expected_schema"]), v).get_errors())
    print("observed:", data.get("observed"), " expected:", data.get("expected"))
    return 0
