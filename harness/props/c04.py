"""C04 - substitution pins the given value into the schema."""
import absn
import common
import gen
import pyspec
import ssuite

def _f20_mechanism(s, v):
    """F20 is a specific thing: every alternative that accepts v as it stands REFUSES the substitution (a relaxed dict given
    an undeclared key), and an alternative v merely substitutes into is kept.  Where S itself is the union this is
    decided exactly; an alternative that accepts v and can be substituted with it, yet is dropped, is another defect."""
    from d42 import substitute
    from d42.declaration.types import AnySchema
    from d42.substitution.errors import SubstitutionError
    from niltype import Nil
    if type(s) is not AnySchema or s.props.get("types") is Nil:
        return True            # below the root: the shape is all that is known here (the model still compares the outcome)
    for t in s.props.get("types"):
        try:
            if ssuite.accepts(t, v):
                try:
                    substitute(t, v)
                    return False
                except SubstitutionError:
                    pass
        except Exception:  # noqa
            pass
    return True


PROPS_FILE = "props/C04.v"
MODEL_FILES = ["theories/Substitute.v", "theories/CaseSubst.v", "theories/Agree.v", "theories/ChoiceFree.v"]
EXTRA_TRUSTED = [
    "'carries the substituted data' is stated independently in Python (harness/pyspec.carries) for the oracle and "
    "as [pins] in Coq (proofs/SubstPins.v)",
    "known findings F20/F25 (a choice point over partial dicts keeps an alternative/window that merely substitutes) "
    "are classified by schema shape (ssuite.choice_over_dicts); any other failure of 'the result accepts v' is reported",
]


def run(ctx):
    n = ctx.scale(220, 4000)
    depth = ctx.scale(3, 5)
    cases = ssuite.make_cases(ctx, n, depth, plain_only=True)
    # directed: choice points over partial dicts (the F20/F25 region) and around it
    directed = [
        ("schema.any(schema.dict({'a': schema.int, ...: ...}), schema.dict({'a': schema.int, 'b': schema.int, 'c': schema.int}))",
         {"a": 1, "b": 2}),
        ("schema.list([..., schema.dict({'a': schema.int, 'b': schema.int}), ...])", [{"a": 1}, {"a": 1, "b": 2}]),
        ("schema.list([..., schema.int, ...])", [0, 1, 2]),
        ("schema.any(schema.int, schema.str)", 1),
        ("schema.dict({'a': schema.int, optional('b'): schema.str, ...: ...})", {"a": 1}),
        ("schema.list([schema.int, ...])", [1, 2, 3]),
        ("schema.list([..., schema.int])", [1, 2, 3]),
        # contains-windows that fail part-way before the one that fits (a prefix of the window matches earlier)
        ("schema.list([..., schema.int(1), schema.int(2), ...])", [1, 1, 2]),
        ("schema.list([..., schema.int(1), schema.int(2), ...])", [1, 3, 1, 2]),
        ("schema.list([..., schema.int(1), schema.int(2), ...])", [0, 1, 1, 2, 1]),
        ("schema.list([..., schema.str('a'), schema.str('a'), schema.str('b'), ...])", ["a", "a", "a", "b"]),
        ("schema.list([..., schema.int.min(1), schema.str, ...])", [1, 2, "x", 3]),
        ("schema.dict({'k': schema.list([..., schema.int(1), schema.int(2), ...])})", {"k": [1, 1, 2]}),
        ("schema.list([..., schema.int(1), schema.int(2)])", [1, 2, 1, 2]),
        ("schema.list([schema.int(1), schema.int(2), ...])", [1, 2, 1, 2]),
        # a length RANGE that the pinned elements already meet: nothing may be added when generating
        ("schema.list(schema.int).len(1, 3)", [1, 2]), ("schema.list.len(..., 4)", [1]), ("schema.list(schema.str).len(2, ...)", ["a", "b"]),
        ("schema.list([schema.int, ...]).len(1, 3)", [1]), ("schema.list([..., schema.int]).len(1, 3)", [1]),
        ("schema.dict({'k': schema.list(schema.int).len(..., 5)})", {"k": [1, 2]}), ("schema.list.len(0, 2)", []),
    ]
    # the property says "plain value (no ... placeholders)": the hostile zoo at every position converted by
    # from_native belongs to it (tuples, sets, subclass instances ...); where substitution succeeds the oracle applies
    for c in ssuite.make_cases(ctx, 0, depth, plain_only=False):
        if c.origin in ("zoo-grid",) and not ssuite.has_placeholder(c.value):
            cases.append(c)
    for ssrc, v in directed:
        c = ssuite.SCase()
        c.ssrc, c.schema, c.value, c.origin, c.unmodelled = ssrc, gen.build(ssrc), v, "directed", None
        cases.append(c)
    ok_cases = probes = usable_checked = 0
    rejected_own = []       # S accepts v but S % v rejects v
    dist = {}
    samples = []
    for c in cases:
        ssuite.observe(c)
        dist["outcome:" + c.outcome] = dist.get("outcome:" + c.outcome, 0) + 1
        dist["origin:" + c.origin] = dist.get("origin:" + c.origin, 0) + 1
        if c.outcome != "ok":
            continue
        ok_cases += 1
        v = c.value
        nan = pyspec.has_nan(v) or ssuite.schema_has_nan(c.schema)
        precs = ssuite.precisions(c.schema)
        anchors = ssuite.float_anchors(c.schema)
        # (a) if v conforms to S then S % v accepts v
        try:
            s_accepts = ssuite.accepts(c.schema, v)
            r_accepts = ssuite.accepts(c.result, v)
        except Exception:  # noqa
            s_accepts = r_accepts = None
        if s_accepts:
            dist["v-conforms-to-S"] = dist.get("v-conforms-to-S", 0) + 1
        if s_accepts and r_accepts is False:
            rejected_own.append(c)
            kinds = ssuite.choice_over_dicts(c.schema)
            if "F20" in kinds and not _f20_mechanism(c.schema, v):
                kinds.discard("F20")
            ex = f"S={c.ssrc}, v={c.vsrc()}"
            if "F20" in kinds and ctx.known_finding("F20", ex):
                pass
            elif "F25" in kinds and ctx.known_finding("F25", ex):
                pass
            else:
                rp = c.replay_dict()
                rp.update(observed="S accepts v, S % v rejects v", expected="S % v accepts v")
                ctx.violation("the substituted schema rejects the substituted value", rp)
        # (a') "usable": where the original generates under every tape policy and the result accepts v, the result generates too
        if r_accepts and pyspec.is_plain(v):
            orig = ssuite.gen_values(ctx, c.schema)
            if all(good for good, _g, _t in orig):
                usable_checked += 1
                for good, g, t in ssuite.gen_values(ctx, c.result):
                    if not good:
                        rp = c.replay_dict()
                        rp.update(observed=f"fake(S % v) raised {type(g).__name__}: {str(g)[:120]}", tape=list(t),
                                  expected="a value (fake(S) returns under the same tape policies, and S % v accepts v)")
                        ctx.violation(f"the substituted schema cannot be generated from ({type(g).__name__})", rp)
                        break
        # (b) everything the result accepts or generates carries v
        for origin, w in ssuite.third_values(ctx, c, limit=ctx.scale(8, 16)):
            probes += 1
            try:
                a2 = ssuite.accepts(c.result, w)
            except Exception:  # noqa
                continue
            if (a2 or origin == "generated") and not pyspec.carries(v, w, precs, anchors) and not nan:
                rp = c.replay_dict()
                rp.update(w=gen.vsrc(w), observed=f"S % v {'generates' if origin == 'generated' else 'accepts'} w, "
                          "which does not carry v", expected="scalars equal, lists element-wise, dicts on every key given")
                ctx.violation("the substituted schema is not pinned to the value", rp)
            if a2:
                dist["probe-accepted"] = dist.get("probe-accepted", 0) + 1
        # (c) unspecified dict keys keep schema and optionality
        d = ssuite.keeps_unspecified(c.schema, c.result, v)
        if d:
            rp = c.replay_dict()
            rp.update(observed=d, expected="unspecified keys keep their schema and optionality")
            ctx.violation("substitution changed an unspecified dict key: " + d, rp)
        if len(samples) < 4 and isinstance(v, dict) and v:
            samples.append({"schema": c.ssrc, "value": c.vsrc(), "result": common.srepr(c.result).replace("\n", " ")[:160]})
    for c in ssuite.bad_results(cases)[:5]:
        rp = c.replay_dict()
        rp.update(observed="substitute returned a schema with ill-typed props: " + c.unmodelled[:300],
                  expected="a schema the DSL can build", theorem_or_suite="substitute correspondence")
        ctx.violation("substitute returned an ill-formed schema object", rp)
    # the hypothesis of subst_accepts_value_partial (wf and choice_free), decided inside Coq for the original
    # schema of every successful case: where it holds, "S accepts v, S % v rejects v" has no excuse
    cf_cases = [c for c in cases if c.outcome == "ok" and c.term is not None]
    cf_terms = []
    for c in cf_cases:
        cf_terms.append(f"({absn.cschema(c.schema, absn.KeyTable())}, true)")
    not_cf = set(common.eval_cases(ctx.workdir, "c04cf", cf_terms, "cfcase", "cfcase_ok",
                                   extra_requires="Require Import D42.ChoiceFree."))
    holds = {id(c) for j, c in enumerate(cf_cases) if j not in not_cf}
    dist["hypothesis_choice_free_holds"] = len(holds)
    dist["hypothesis_choice_free_fails"] = len(not_cf)
    for c in rejected_own:
        if id(c) in holds:
            rp = c.replay_dict()
            rp.update(observed="S accepts v, S % v rejects v", expected="subst_accepts_value_partial: S % v accepts v",
                      theorem_or_suite="C04 theorem instance (subst_accepts_value_partial)")
            ctx.violation("the substituted schema rejects the substituted value although the schema is choice-free", rp)
    modelled = [c for c in cases if c.term is not None]
    bad = common.eval_cases(ctx.workdir, "c04", [c.term for c in modelled], "subcase", "subcase_ok",
                            extra_requires="Require Import D42.FromNative D42.Substitute D42.CaseSubst.")
    for i in bad[:10]:
        c = modelled[i]
        rp = c.replay_dict()
        rp.update(observed=c.outcome + (": " + common.srepr(c.result).replace("\n", " ")[:300] if c.result is not None else ""),
                  expected="the model's substitute result (theorems subst_pins / subst_accepts_value are about it)",
                  theorem_or_suite="C04 correspondence: substitute")
        ctx.violation("substitute result differs from the model's", rp, failing_input=False)
    ctx.coverage.update(
        evaluations=len(cases) + probes,
        distinct_nontrivial=len({c.term for c in modelled if c.outcome == "ok" and isinstance(c.value, (list, dict))}),
        rule="(schema, plain value) pairs as for C05 (conforming, partial dicts at every depth, perturbed, unrelated) "
             "plus directed choice-point cases; for every successful S %% v: (a) S accepts v => S %% v accepts v, "
             "(b) every w generated from S %% v (min/max/random tapes) or accepted by it (v, perturbations of v and of "
             "generated values, values conforming to S) carries v, (c) dict keys absent from v keep schema and "
             "optionality. Correspondence: substituted schema / exception class vs the model (nesting <= %d)." % depth,
        samples=samples,
        correspondence={"suite": "substitute", "cases": len(modelled), "mismatches": len(bad),
                        "unmodelled": len(cases) - len(modelled)},
        oracle_cases=ok_cases, probes=probes, distribution=dict(dist, usable_checked=usable_checked),
    )


def replay(data):
    from d42 import fake, substitute, validate
    s = gen.build(data["schema"])
    v = eval(data["value"], dict(gen.NS))
    try:
        s2 = substitute(s, v)
    except Exception as e:  # noqa
        print("substitute raised", repr(e))
        return 0
    print("S % v =", repr(s2))
    print("validate(S, v):", validate(s, v).get_errors())
    print("validate(S % v, v):", validate(s2, v).get_errors())
    if "w" in data:
        w = eval(data["w"], dict(gen.NS))
        print("validate(S % v, w):", validate(s2, w).get_errors())
    try:
        print("fake(S % v):", repr(fake(s2)))
    except Exception as e:  # noqa
        print("fake raised", repr(e))
    return 0
