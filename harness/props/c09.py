"""C09 - regex generation yields a full match or refuses loudly.

Three things are checked on every run against the code in D42_REPO:
  1. correspondence: RegexGenerator(SortedSetRandom(), max_repeat=k).generate(p) under a
     scripted tape  ==  D42.RegexGen.gen_re (default_cfg k) sort_cp (cre p) tape   (string /
     exception class / number of draws), for patterns of the supported grammar and for the
     same patterns with one unsupported construct embedded;
  2. direct oracle on the implementation alone: re.fullmatch(p, s) for every returned s,
     validate(schema.str.regex(p), s), fake(schema.str.regex(p)); refusal on mandatory
     unsupported constructs; exhaustive sweep of every candidate of single classes;
  3. semantics tie: D42.Regex.fullmatchb / searchb == re.fullmatch / re.search on generated
     strings and their one-character perturbations.
"""
import contextlib
import re
import signal
import sys
import warnings

import absn
import common
import tape as tapemod

if sys.version_info >= (3, 11):
    import re._parser as sre
    import re._constants as src
else:  # pragma: no cover
    import sre_parse as sre
    import sre_constants as src

PROPS_FILE = "props/C09.v"
MODEL_FILES = ["theories/RegexGen.v"]
EXTRA_TRUSTED = [
    "sre.parse (CPython's own regex parser) produces the tree the generator walks; harness/absn.cre maps it to "
    "D42.Regex.re (unknown opcode -> RUnsupported, inline flags -> counted unmodelled)",
    "order of \"\".join(set(letters) - set(excluded)) in _generate_not_in is CPython str hashing: theorems quantify "
    "over every permutation (hash_perm); for the correspondence the harness passes a Random subclass whose "
    "random_choice sorts the candidate string by code point when called from _generate_not_in "
    "(sys._getframe(1).f_code.co_name), the model instance is hash_perm := sort_cp (proved a permutation)",
    "\\d and \\w are read with ASCII semantics in D42.Regex; every alphabet of the generator is ASCII "
    "(default_alphabets_ascii, vm_compute on the regenerated table); semantics cases whose string has a non-ASCII "
    "Unicode word character while the pattern has a category are filtered and counted",
    "Python's re engine (fullmatch/search) is the reference for 'matches'; anchors other than ^ \\A first / $ \\Z last "
    "at top level, \\b \\B and inline flags are outside C09 (counted as out_of_scope)",
    "tape.scripted replaces random.randint/choice by tape readers (contract of the random module: DESIGN section 5)",
]

MAX_OUT = 1500          # bound on the longest string a (pattern, max_repeat) pair can generate
MAX_OUT_NESTED = 36     # the same when variable repeats are nested (the re engine backtracks exponentially)

warnings.filterwarnings("ignore", category=FutureWarning)


class EngineTimeout(Exception):
    """the re engine did not answer in time (catastrophic backtracking): no verdict"""


def _on_alarm(*_):
    raise EngineTimeout()


@contextlib.contextmanager
def time_limit(seconds=0.25):
    old = signal.signal(signal.SIGALRM, _on_alarm)
    signal.setitimer(signal.ITIMER_REAL, seconds)
    try:
        yield
    finally:
        signal.setitimer(signal.ITIMER_REAL, 0)
        signal.signal(signal.SIGALRM, old)


# ---------------------------------------------------------------- the implementation under test
def _impl():
    from d42.generation import Random, RegexGenerator

    class SortedSetRandom(Random):
        def random_choice(self, sequence):
            if isinstance(sequence, str) and sys._getframe(1).f_code.co_name == "_generate_not_in":
                sequence = "".join(sorted(sequence))
            return super().random_choice(sequence)

    return Random, RegexGenerator, SortedSetRandom


def run_gen(pattern, k, t, sorted_sets=True):
    """Run the real generator under tape t; returns ('ok', s) | ('raise', exc)."""
    Random, RegexGenerator, SortedSetRandom = _impl()
    rnd = SortedSetRandom() if sorted_sets else Random()
    g = RegexGenerator(rnd) if k is None else RegexGenerator(rnd, max_repeat=k)
    with tapemod.scripted(t):
        try:
            return "ok", g.generate(pattern)
        except RecursionError:
            raise
        except Exception as e:  # noqa
            return "raise", e


# ---------------------------------------------------------------- pattern grammar (own AST)
PLAIN = "abcdxyzABQZ0159_"
PUNCT = " -~!@#%&=:;,<>'\"/`"
META = ".^$*+?{}[]\\|()"
ESCAPES = ["\\n", "\\t", "\\x41", "\\u00e9", "\\x00", "\\-", "\\/", "\\x7f"]
NONASCII = "éßЖ中€\U0001F600§"

RANGES = [("a", "c"), ("0", "9"), ("A", "Z"), (" ", "/"), ("x", "z"), ("!", "~"), ("a", "a"),
          ("\\x00", "\\x1f"), ("é", "ü"), ("0", "5"), ("a", "z"), ("\\t", "\\r"), (":", "@"),
          ("[", "`"), ("{", "~")]
RANGES_POS_ONLY = [("\\x00", "\\uffff"), ("\\x00", "\\U0010ffff"), ("Ѐ", "ӿ")]
RANGES_NEG_WIDE = [(" ", "~"), ("\\x00", "\\x7f"), ("\\x00", "\\u07ff")]

QUANTS = ["*", "+", "?", "{0}", "{1}", "{2}", "{3}", "{0,}", "{1,}", "{2,}", "{3,}", "{0,1}", "{0,2}", "{1,3}",
          "{2,2}", "{,2}", "{0,0}", "{1,1}", "{2,5}"]
QUANTS_44 = ["{0,44}", "{43,44}", "{44}", "{44,}", "{40,44}", "{,44}"]


class G:
    """Pattern generator over the supported grammar; everything drawn from one rng."""

    def __init__(self, rng, max_depth):
        self.r = rng
        self.max_depth = max_depth
        self.names = 0

    def lit(self):
        r = self.r
        x = r.random()
        if x < 0.5:
            return ("lit", r.choice(PLAIN))
        if x < 0.62:
            return ("lit", re.escape(r.choice(PUNCT)))
        if x < 0.78:
            return ("lit", "\\" + r.choice(META))
        if x < 0.88:
            return ("lit", r.choice(ESCAPES))
        return ("lit", r.choice(NONASCII))

    def class_item(self, neg):
        r = self.r
        x = r.random()
        if x < 0.4:
            c = r.choice(PLAIN + PUNCT + "]^-[\\" + NONASCII)
            if c in "]^-[\\":
                c = "\\" + c
            return c
        if x < 0.75:
            pool = RANGES + (RANGES_NEG_WIDE if neg else RANGES_POS_ONLY) if r.random() < 0.25 else RANGES
            lo, hi = r.choice(pool)
            return f"{lo}-{hi}"
        if x < 0.9:
            return r.choice(["\\d", "\\w"])
        return r.choice(ESCAPES[:5])

    def cls(self):
        r = self.r
        neg = r.random() < 0.45
        n = r.choice([1, 1, 2, 2, 2, 3, 3, 4, 5])
        items = [self.class_item(neg) for _ in range(n)]
        # the shape the seeded literature cares about: literal/range BEFORE a category, negated
        if r.random() < 0.2:
            items = [r.choice(["a-c", "abc", "a-z", " !-/", "x", "A-Z_", "0-4"]), r.choice(["\\d", "\\w"])]
            if r.random() < 0.5:
                items.reverse()
            neg = r.random() < 0.75
        return ("class", neg, items)

    def atom(self, depth):
        r = self.r
        x = r.random()
        if depth >= self.max_depth:
            x *= 0.72
        if x < 0.36:
            return self.lit()
        if x < 0.44:
            return ("any",)
        if x < 0.54:
            return ("cat", r.choice(["\\d", "\\w"]))
        if x < 0.72:
            return self.cls()
        kind = r.choice(["cap", "non", "non", "named"])
        name = None
        if kind == "named":
            self.names += 1
            name = f"n{self.names}"
        return ("group", kind, name, self.alts(depth + 1))

    def alts(self, depth):
        r = self.r
        n = r.choice([1, 1, 1, 2, 2, 3])
        out = [self.seq(depth) for _ in range(n)]
        if n > 1 and r.random() < 0.25:
            out[r.randrange(n)] = []          # empty alternative
        return out

    def quant(self):
        r = self.r
        x = r.random()
        if x < 0.55:
            return ""
        q = r.choice(QUANTS_44) if r.random() < 0.12 else r.choice(QUANTS)
        if r.random() < 0.3:
            q += "?"
        return q

    def seq(self, depth):
        n = self.r.choice([0, 1, 1, 2, 2, 3, 4]) if depth > 0 else self.r.choice([1, 2, 2, 3, 4, 5])
        return [[self.atom(depth), self.quant()] for _ in range(n)]

    def top(self):
        r = self.r
        self.names = 0
        alts = [self.seq(0)] if r.random() < 0.8 else self.alts(0)
        beg = r.choice(["", "", "^", "\\A"])
        end = r.choice(["", "", "$", "\\Z"])
        return {"beg": beg, "end": end, "alts": alts}


def render_node(n):
    k = n[0]
    if k == "lit":
        return n[1]
    if k == "any":
        return "."
    if k == "cat":
        return n[1]
    if k == "class":
        return "[" + ("^" if n[1] else "") + "".join(n[2]) + "]"
    if k == "group":
        body = "|".join(render_seq(s) for s in n[3])
        if n[1] == "cap":
            return "(" + body + ")"
        if n[1] == "non":
            return "(?:" + body + ")"
        return f"(?P<{n[2]}>" + body + ")"
    if k == "raw":
        return n[1]
    raise AssertionError(k)


def render_seq(s):
    return "".join(render_node(n) + q for n, q in s)


def render_top(t):
    body = "|".join(render_seq(s) for s in t["alts"])
    if len(t["alts"]) > 1 and (t["beg"] or t["end"]):
        body = "(?:" + body + ")"
    return t["beg"] + body + t["end"]


def all_seqs(t):
    out = []

    def walk(s):
        out.append(s)
        for n, _ in s:
            if n[0] == "group":
                for a in n[3]:
                    walk(a)
    for s in t["alts"]:
        walk(s)
    return out


# ---------------------------------------------------------------- unsupported constructs
# label -> fragments; LISTED are the constructs named by the property, OTHER are also refused or
# outside the property (\b, inline flags, inner anchors).
LISTED = {
    "lookahead": ["(?=a)", "(?=.)", "(?=\\d)"],
    "neg-lookahead": ["(?!zz)", "(?!\\d\\d\\d)"],
    "lookbehind": ["(?<=a)", "(?<=\\w)"],
    "neg-lookbehind": ["(?<!a)", "(?<!zz)"],
    "backref-named": ["(?P<u0>x)(?P=u0)", "(?P<u0>[ab])-(?P=u0)"],
    "backref-num": ["(q)\\1", "(q)x\\1"],
    "cat-s": ["\\s", "\\s+"],
    "cat-S": ["\\S", "\\S{2}"],
    "cat-D": ["\\D", "\\D?\\D"],
    "cat-W": ["\\W", "\\W+"],
    "class-unsup-only": ["[\\s]", "[\\S\\W]", "[\\D]+"],
    "class-unsup-neg": ["[^\\s]", "[^a\\D]", "[^\\W\\d]", "[^a-c\\S]"],
    "class-unsup-mixed": ["[a\\s]", "[\\Wb-d]", "[\\d\\S]"],
    "atomic": ["(?>ab)", "(?>a|ab)c", "(?>\\d+)\\d"],
    "possessive": ["a++", "a*+", "a?+", "a{1,2}+", "a*+a", "\\d{1,3}+\\d", "[a-z]*+[a-m]x", "(?:ab?)++b",
                   "\\w++_", "x?+x"],
}
OTHER = {
    "conditional": ["(?P<u1>x)?(?(u1)a|b)"],
    "word-boundary": ["\\b", "\\B"],
    "inline-flag": ["(?i:a)", "(?s:.)", "(?-i:b)"],
    "inner-anchor": ["^", "$", "\\A", "\\Z"],
}
OUT_OF_SCOPE = {"word-boundary", "inline-flag", "inner-anchor"}


def embed(rng, t):
    """Insert one unsupported fragment at a random position of pattern tree t (in place)."""
    label = rng.choice(list(LISTED) * 3 + list(OTHER))
    frag = rng.choice((LISTED.get(label) or OTHER[label]))
    seqs = all_seqs(t)
    s = rng.choice(seqs)
    s.insert(rng.randrange(len(s) + 1), [("raw", frag, label), ""])
    return label, frag


# ---------------------------------------------------------------- facts about a parse tree (Python side)
def tree_of(pattern):
    with warnings.catch_warnings():
        warnings.simplefilter("ignore")
        return sre.parse(pattern)


_ENDS_BEG = (src.AT_BEGINNING, src.AT_BEGINNING_STRING)
_ENDS_END = (src.AT_END, src.AT_END_STRING)


def strip_top(items):
    items = list(items)
    if items and items[0][0] == src.AT and items[0][1] in _ENDS_BEG:
        items = items[1:]
    if items and items[-1][0] == src.AT and items[-1][1] in _ENDS_END:
        items = items[:-1]
    return items


def walk(items):
    for op, av in items:
        yield op, av
        if op == src.BRANCH:
            for alt in av[1]:
                yield from walk(alt)
        elif op == src.SUBPATTERN:
            yield from walk(av[3])
        elif op in (src.MAX_REPEAT, src.MIN_REPEAT, src.POSSESSIVE_REPEAT):
            yield from walk(av[2])
        elif op == src.ATOMIC_GROUP:
            yield from walk(av)
        elif op in (src.ASSERT, src.ASSERT_NOT):
            yield from walk(av[1])
        elif op == src.GROUPREF_EXISTS:
            yield from walk(av[1])
            if av[2]:
                yield from walk(av[2])


SUPPORTED_OPS = None


def _supported_ops():
    global SUPPORTED_OPS
    if SUPPORTED_OPS is None:
        SUPPORTED_OPS = {src.ANY, src.LITERAL, src.NOT_LITERAL, src.IN, src.SUBPATTERN, src.MAX_REPEAT,
                         src.MIN_REPEAT, src.BRANCH}
    return SUPPORTED_OPS


def in_supported_fragment(parsed):
    """anchors only at the ends, only supported opcodes and categories, no flags: the
    patterns the property promises a full match for."""
    if parsed.state.flags & ~src.SRE_FLAG_UNICODE:
        return False
    for op, av in walk(strip_top(parsed)):
        if op not in _supported_ops():
            return False
        if op == src.SUBPATTERN and (av[1] or av[2]):
            return False
        if op == src.IN:
            for o, a in av:
                if o == src.CATEGORY and a not in (src.CATEGORY_DIGIT, src.CATEGORY_WORD):
                    return False
    return True


def has_category(parsed):
    return any(op == src.IN and any(o == src.CATEGORY for o, _ in av) for op, av in walk(parsed))


def must_refuse(items):
    """Python twin of D42.RegexGen.must_refuse (written from the property text: an unsupported
    node on a path every run executes)."""
    return any(_must_refuse(op, av) for op, av in items)


def _must_refuse(op, av):
    if op in (src.ANY, src.LITERAL, src.NOT_LITERAL, src.AT):
        return False
    if op == src.IN:
        items = list(av)
        bad = [o == src.CATEGORY and a not in (src.CATEGORY_DIGIT, src.CATEGORY_WORD) for o, a in items]
        if items and items[0][0] == src.NEGATE:
            return any(bad[1:])
        return all(bad)
    if op == src.SUBPATTERN:
        return must_refuse(av[3])
    if op in (src.MAX_REPEAT, src.MIN_REPEAT):
        return av[0] > 0 and must_refuse(av[2])
    if op == src.BRANCH:
        return all(must_refuse(alt) for alt in av[1])
    return True


def max_len(items, k):
    """upper bound of the generated length with max_repeat=k"""
    total = 0
    for op, av in items:
        if op in (src.ANY, src.LITERAL, src.NOT_LITERAL, src.IN):
            total += 1
        elif op == src.BRANCH:
            total += max([max_len(a, k) for a in av[1]] or [0])
        elif op == src.SUBPATTERN:
            total += max_len(av[3], k)
        elif op in (src.MAX_REPEAT, src.MIN_REPEAT, src.POSSESSIVE_REPEAT):
            mn, mx, body = av
            if mx == src.MAXREPEAT:
                mx = max(k, mn)
            total += int(mx) * max_len(body, k)
        elif op == src.ATOMIC_GROUP:
            total += max_len(av, k)
    return total


def star_height(items):
    """nesting depth of repeats whose count can vary"""
    h = 0
    for op, av in items:
        if op == src.BRANCH:
            h = max([h] + [star_height(a) for a in av[1]])
        elif op == src.SUBPATTERN:
            h = max(h, star_height(av[3]))
        elif op in (src.MAX_REPEAT, src.MIN_REPEAT, src.POSSESSIVE_REPEAT):
            mn, mx, body = av
            h = max(h, star_height(body) + (1 if mx != mn else 0))
        elif op == src.ATOMIC_GROUP:
            h = max(h, star_height(av))
        elif op in (src.ASSERT, src.ASSERT_NOT):
            h = max(h, star_height(av[1]))
    return h


def neg_width(parsed):
    """widest range inside a negated class (the model enumerates it)"""
    w = 0
    for op, av in walk(parsed):
        if op == src.IN and av and av[0][0] == src.NEGATE:
            for o, a in av[1:]:
                if o == src.RANGE:
                    w = max(w, a[1] - a[0] + 1)
    return w


def nullable(items):
    for op, av in items:
        if op == src.BRANCH:
            if not any(nullable(a) for a in av[1]):
                return False
        elif op == src.SUBPATTERN:
            if not nullable(av[3]):
                return False
        elif op in (src.MAX_REPEAT, src.MIN_REPEAT):
            if av[0] > 0 and not nullable(av[2]):
                return False
        elif op != src.AT:
            return False
    return True


def deriv_blowup(items, n):
    """the derivative matcher of D42.Regex keeps no alternative-normal form: x{m,m+d} on n
    characters grows like C(d, n); nested variable repeats multiply"""
    import math
    f = 1
    for op, av in items:
        if op == src.BRANCH:
            for a in av[1]:
                f *= deriv_blowup(a, n)
        elif op == src.SUBPATTERN:
            f *= deriv_blowup(av[3], n)
        elif op in (src.MAX_REPEAT, src.MIN_REPEAT):
            mn, mx, body = av
            inner = deriv_blowup(body, n)
            if mx == src.MAXREPEAT:
                f *= inner * (min(n, 6) if inner > 1 or star_height(body) else 1)
            else:
                d = int(mx) if nullable(body) else int(mx - mn)      # copies that may be empty
                f *= math.comb(d, min(n, d // 2)) * inner ** min(int(mx), 3)
    return f


def rx_cost(items):
    """rough size of the derivative matcher's expression"""
    total = 1
    for op, av in items:
        if op == src.BRANCH:
            total += sum(rx_cost(a) for a in av[1])
        elif op == src.SUBPATTERN:
            total += rx_cost(av[3])
        elif op in (src.MAX_REPEAT, src.MIN_REPEAT):
            mn, mx, body = av
            n = mn + 1 if mx == src.MAXREPEAT else mx
            total += max(1, int(n)) * rx_cost(body)
        else:
            total += 1
    return total


# ---------------------------------------------------------------- one observed run
class Run:
    __slots__ = ("pattern", "k", "mode", "tape", "kind", "out", "exc", "stream", "label", "cre", "supported",
                 "mandatory", "order")

    def replay_dict(self):
        return {
            "pattern": self.pattern, "max_repeat": self.k, "tape": list(self.tape), "stream": self.stream,
            "label": self.label,
            "candidate_order": getattr(self, "order", "sorted by the harness (SortedSetRandom)"),
            "python": ("from d42.generation import Random, RegexGenerator; import tape\n"
                       f"with tape.scripted(tape.Tape({list(self.tape)!r})):\n"
                       f"    s = RegexGenerator(Random(){'' if self.k is None else ', max_repeat=%r' % self.k})"
                       f".generate({self.pattern!r})"),
            "observed": ("returned " + repr(self.out)) if self.kind == "ok" else "raised " + type(self.exc).__name__,
        }

    def term(self):
        if self.cre is None:
            return None
        if self.kind == "ok":
            obs = f"(Ok {absn.cstr(self.out)})"
        else:
            obs = f"(Raise {absn.cexn(self.exc)})"
        return f"({_kz(self.k)}, {self.cre}, {tapemod.ctape(self.tape)}, {obs})"


K_CHOICES = [None, 0, 1, 2, 3, 44, 100, 45, 5, 32]      # None: the constructor's default


def default_k():
    Random, RegexGenerator, _ = _impl()
    return RegexGenerator(Random())._max_repeat


def _kz(k):
    return "(Z.of_N RE_MAX_REPEAT)" if k is None else absn.cZ(k)


def observe_pattern(ctx, pattern, stream, label, n_rand, runs, stats):
    try:
        with warnings.catch_warnings():
            warnings.simplefilter("ignore")
            re.compile(pattern)
        parsed = tree_of(pattern)
    except (re.error, OverflowError, RecursionError):
        stats["invalid_patterns"] += 1
        return False
    if neg_width(parsed) > 3000:
        stats["too_wide"] += 1
        return False
    r = ctx.rng
    dk = default_k()
    limit = MAX_OUT if star_height(parsed) < 2 else MAX_OUT_NESTED
    ks = [k for k in K_CHOICES if max_len(parsed, dk if k is None else k) <= limit]
    if not ks:
        stats["too_long"] += 1
        return False
    chosen = [ks[0]] + ([r.choice(ks[1:])] if len(ks) > 1 else [])
    if 100 in ks and any(op in (src.MAX_REPEAT, src.MIN_REPEAT) and av[1] == 44 for op, av in walk(parsed)):
        chosen.append(100)                      # the opcode number of MAX_REPEAT is 44 (F17, repaired)
    try:
        c = absn.cre(pattern)
    except absn.Unmodelled:
        c = None
        stats["unmodelled"] += 1
    supported = in_supported_fragment(parsed)
    mand = must_refuse(parsed)
    for k in dict.fromkeys(chosen):
        for mode in ["min", "max", "alt"] + ["rand"] * n_rand:
            pol = tapemod.Policy(r, mode)
            kind, val = run_gen(pattern, k, pol)
            x = Run()
            x.pattern, x.k, x.mode, x.tape, x.kind, x.stream, x.label = pattern, k, mode, list(pol.used), kind, stream, label
            x.out = val if kind == "ok" else None
            x.exc = val if kind == "raise" else None
            x.cre, x.supported, x.mandatory = c, supported, mand
            x.order = "sorted by the harness (SortedSetRandom)"
            runs.append(x)
    return True


# ---------------------------------------------------------------- direct oracle
def oracle_run(ctx, x, stats, schema_cache):
    """the property itself, on the implementation's own output"""
    from d42 import schema, validate
    if x.kind == "raise":
        if x.supported:
            # a supported pattern may only be refused through an empty candidate set
            # (IndexError of random.choice: [^ -~]) or an unsatisfiable count; still loud.
            stats["supported_refused"] += 1
            stats["refusal_" + type(x.exc).__name__] = stats.get("refusal_" + type(x.exc).__name__, 0) + 1
        else:
            stats["unsupported_refused"] += 1
        return
    s = x.out
    try:
        with time_limit():
            ok = isinstance(s, str) and re.fullmatch(x.pattern, s) is not None
    except EngineTimeout:
        stats["engine_timeouts"] += 1
        return
    if not ok:
        if x.label in OUT_OF_SCOPE:
            stats["out_of_scope"] += 1
            return
        rp = x.replay_dict()
        rp.update(expected="re.fullmatch(pattern, result) is not None, or an exception",
                  theorem_or_suite="C09 oracle re.fullmatch (theorem regen_fullmatch)")
        ctx.violation(f"generated string does not match the whole pattern {x.pattern!r}: {s!r}", rp)
        return
    if x.mandatory and x.label not in OUT_OF_SCOPE:
        rp = x.replay_dict()
        rp.update(expected="an exception: the pattern has an unsupported construct on every generation path",
                  theorem_or_suite="C09 oracle refusal (theorem regen_unsupported_raises)")
        ctx.violation(f"unsupported construct {x.label} in {x.pattern!r} was not refused (returned {s!r})", rp,
                      failing_input=False)
        return
    if x.label in OUT_OF_SCOPE:
        stats["out_of_scope_matched"] += 1
    # the schema's own validation accepts it
    try:
        sch = schema_cache.get(x.pattern)
        if sch is None:
            sch = schema_cache[x.pattern] = schema.str.regex(x.pattern)
        with time_limit():
            res = validate(sch, s)
        if res.has_errors():
            rp = x.replay_dict()
            rp.update(expected="validate(schema.str.regex(pattern), result) has no errors",
                      theorem_or_suite="C09 oracle validate (theorem regen_validates)")
            ctx.violation(f"schema.str.regex({x.pattern!r}) rejects its own generated value {s!r}", rp)
    except EngineTimeout:
        stats["engine_timeouts"] += 1
    except Exception as e:  # noqa
        rp = x.replay_dict()
        rp.update(expected="validation of the generated value", observed=f"raised {type(e).__name__}: {e}")
        ctx.violation(f"schema.str.regex({x.pattern!r}) / validate raised {type(e).__name__}", rp)


def oracle_fake(ctx, pattern, stats, label, supported, mandatory):
    """fake(schema.str.regex(p)) through the public entry point, unsorted sets, scripted tape"""
    from d42 import fake, schema, validate
    try:
        sch = schema.str.regex(pattern)
    except Exception:  # noqa
        stats["declaration_refused"] += 1
        return
    for mode in ("rand", "max"):
        pol = tapemod.Policy(ctx.rng, mode)
        with tapemod.scripted(pol):
            try:
                v = fake(sch)
            except Exception as e:  # noqa
                stats["fake_refused"] += 1
                continue
        stats["fake_ok"] += 1
        try:
            with time_limit():
                bad = not isinstance(v, str) or re.fullmatch(pattern, v) is None or validate(sch, v).has_errors()
        except EngineTimeout:
            stats["engine_timeouts"] += 1
            continue
        if bad:
            if label in OUT_OF_SCOPE:
                stats["out_of_scope"] += 1
                continue
            ctx.violation(f"fake(schema.str.regex({pattern!r})) = {v!r} does not match / validate", {
                "pattern": pattern, "tape": list(pol.used), "max_repeat": None, "stream": "fake", "label": label,
                "python": f"import tape; from d42 import fake, schema\nwith tape.scripted(tape.Tape({list(pol.used)!r})):\n"
                          f"    v = fake(schema.str.regex({pattern!r}))",
                "observed": repr(v), "expected": "re.fullmatch and validate accept the value",
                "theorem_or_suite": "C09 oracle fake"})


def class_sweep(ctx, cls_src, stats, runs):
    """every candidate of one class: tape [i] for every index, real hash order and sorted order"""
    pattern = cls_src
    try:
        parsed = tree_of(pattern)
        c = absn.cre(pattern)
    except Exception:  # noqa
        return
    if neg_width(parsed) > 3000:
        return
    supported = in_supported_fragment(parsed)
    mand = must_refuse(parsed)
    seen = set()
    for i in range(100):
        for sorted_sets in (True, False):
            t = tapemod.Tape([i, i // 2, 94 - i if i < 95 else 0])
            kind, val = run_gen(pattern, None, t, sorted_sets=sorted_sets)
            x = Run()
            x.pattern, x.k, x.mode, x.tape, x.kind, x.stream, x.label = pattern, None, "sweep", list(t.used), kind, "sweep", None
            x.out = val if kind == "ok" else None
            x.exc = val if kind == "raise" else None
            x.cre, x.supported, x.mandatory = (c if sorted_sets else None), supported, mand
            x.order = "sorted by the harness (SortedSetRandom)" if sorted_sets else "CPython hash order (PYTHONHASHSEED)"
            stats["sweep_runs"] += 1
            if kind == "ok":
                if re.fullmatch(pattern, val) is None:
                    rp = x.replay_dict()
                    rp.update(expected="re.fullmatch(pattern, result) is not None",
                              theorem_or_suite="C09 oracle class sweep (theorem regen_fullmatch)")
                    ctx.violation(f"class {pattern!r} generated {val!r}, which it does not match", rp)
                    return
                if mand:
                    rp = x.replay_dict()
                    rp.update(expected="an exception", theorem_or_suite="C09 oracle refusal")
                    ctx.violation(f"class {pattern!r} with an unsupported category was not refused", rp,
                                  failing_input=False)
                    return
                seen.add(val)
            if sorted_sets and i % 7 == 0:
                runs.append(x)
    stats["sweep_distinct_chars"] += len(seen)


# ---------------------------------------------------------------- semantics tie
SAFE_CHARS = "a0_zZ9 -\n~!/:@[`{\t€\U0001F600§b5"


def perturbations(rng, s, n):
    out = [s]
    for _ in range(n):
        kind = rng.choice(["del", "ins", "rep", "app", "pre", "nl"])
        if kind == "del" and s:
            i = rng.randrange(len(s))
            out.append(s[:i] + s[i + 1:])
        elif kind == "ins":
            i = rng.randrange(len(s) + 1)
            out.append(s[:i] + rng.choice(SAFE_CHARS) + s[i:])
        elif kind == "rep" and s:
            i = rng.randrange(len(s))
            out.append(s[:i] + rng.choice(SAFE_CHARS) + s[i + 1:])
        elif kind == "app":
            out.append(s + rng.choice(SAFE_CHARS))
        elif kind == "pre":
            out.append(rng.choice(SAFE_CHARS) + s)
        else:
            out.append(s + "\n")
    return out


def unicode_word(s):
    return any(ord(ch) > 127 and (ch.isalnum() or ch.isdecimal()) for ch in s)


# ---------------------------------------------------------------- the check
def probe_custom_letters(ctx, stats):
    """RegexGenerator(random, alphabet={"letters": ...}) - the alphabet `.` and negated classes draw from is a
    constructor option: whatever letters the caller supplies (non-ASCII, control characters), a negated class of
    literals and ranges excludes exactly what it names, and the result matches the entire pattern.  (Categories are
    left out: \\d / \\w under a caller's own digit / word alphabets are not part of the statement.)"""
    Random, RegexGenerator, SortedSetRandom = _impl()
    r = ctx.rng
    cases = [("\u0430\u0431\u0432\u0433\u0434\u0435", ["[^\u0430-\u0432]", "[^\u0430-\u0432]{3}", "x[^\u0433]y", "[^\u0435\u0430]+", "."]),
             ("ab\u00e9\u00e8\u00ea", ["[^\u00e0-\u00ff]+", "[^ab]{2}", "[^\u00e9]", "[^a-b\u00e8-\u00ea]", "[^\x00-\x7f]"]),
             ("\t\n\r xyz", ["[^\x00-\x1f]{3}", "[^ -~]", "[^\t\n]{2}", "[^x-z\r]"]),
             ("\U0001F600\U0001F601\u4e2d\u6587", ["[^\u4e00-\u9fff]", "[^\U0001F600]{2}", "[^\u6587\U0001F601]"]),
             ("01", ["[^0]", "[^1]{4}", "[^2-9]", "[^0-1]?x"])]
    n = 0
    for letters, patterns in cases:
        for p in patterns:
            for mode in ("min", "max", "rand", "rand", "rand"):
                g = RegexGenerator(SortedSetRandom(), alphabet={"letters": letters}, max_repeat=3)
                pol = tapemod.Policy(r, mode)
                with tapemod.scripted(pol):
                    try:
                        out = ("ok", g.generate(p))
                    except Exception as e:  # noqa
                        out = ("raise", e)
                n += 1
                if out[0] == "ok" and re.fullmatch(p, out[1]) is None:
                    ctx.violation("with a caller-supplied letters alphabet the generated string does not match the pattern",
                                  {"kind": "input", "pattern": p, "letters": letters, "generated": out[1], "tape": list(pol.used),
                                   "expected": "a string re.fullmatch accepts, or an error"})
                    return n
    return n


def probe_history_and_long(ctx, stats):
    """(a) generators are independent of one another: building and using a generator with a custom
    alphabet does not change what another generator - or fake() - produces; (b) explicit repeat
    counts beyond the default cap and beyond a few thousand characters are honoured or refused."""
    import random as _rnd
    from d42 import fake, schema
    Random, RegexGenerator, _ = _impl()
    _rnd.seed(ctx.seed * 7919 + 13)
    probes = [".{8}", "\\d{6}", "\\w{6}", "[^a]{6}", "a.b", "^.+$", "<.*?>", "[^\\d]{4}x"]
    probes = [p.replace("\\\\", "\\") for p in probes]
    customs = [{"letters": "\n\r"}, {"digits": "x"}, {"word": "-"}, {"letters": "\n", "digits": "٣", "word": " "}]
    n = 0
    for rounds in range(ctx.scale(3, 12)):
        for alpha in customs:
            g = RegexGenerator(Random(), alphabet=dict(alpha))
            try:
                g.generate(".\\d\\w".replace("\\\\", "\\"))
            except Exception:  # noqa
                pass
            for p in probes:
                outs = []
                try:
                    outs.append(("RegexGenerator(Random())", RegexGenerator(Random()).generate(p)))
                    outs.append(("fake(schema.str.regex)", fake(schema.str.regex(p))))
                except ValueError:
                    continue
                for how, out in outs:
                    n += 1
                    if re.fullmatch(p, out) is None:
                        ctx.violation(f"generated string does not match the whole pattern {p!r} after another generator "
                                      f"was used with a custom alphabet: {out!r}",
                                      {"kind": "history", "pattern": p, "custom_alphabet": alpha, "how": how, "observed": out,
                                       "expected": "a full match (generators do not share their alphabets)"})
                        return n
    long_patterns = ["a{5000}", "(?:ab){3000}", "\\d{4097}", "x{4096}y", "(?:[0-9a-f]{2}:){1500}[0-9a-f]{2}",
                     "a{4095}b{2}", "(?:\\w{8}-){600}z", "a{10000}", "[ab]{5000,}?c", "(a{100}){50}"]
    for p in [q.replace("\\\\", "\\") for q in long_patterns]:
        for k in (None, 0, 1, 100):
            try:
                g = RegexGenerator(Random()) if k is None else RegexGenerator(Random(), max_repeat=k)
                out = g.generate(p)
            except ValueError:
                stats["supported_refused"] += 1
                continue
            n += 1
            if re.fullmatch(p, out) is None:
                ctx.violation(f"generated string (length {len(out)}) does not match the whole pattern {p!r}",
                              {"kind": "input", "pattern": p, "max_repeat": k, "observed_length": len(out),
                               "observed_tail": out[-40:], "expected": "a full match or ValueError"})
                return n
    return n


def run(ctx):
    r = ctx.rng
    depth = ctx.scale(4, 6)
    n_sup = ctx.scale(230, 2600)
    n_uns = ctx.scale(170, 1800)
    n_rand = ctx.scale(3, 7)
    stats = {k: 0 for k in ("invalid_patterns", "too_wide", "too_long", "unmodelled", "supported_refused",
                            "unsupported_refused", "out_of_scope", "out_of_scope_matched", "declaration_refused",
                            "fake_refused", "fake_ok", "sweep_runs", "sweep_distinct_chars", "ascii_filtered",
                            "sem_too_big", "engine_timeouts")}
    runs = []
    sup_patterns, uns_patterns, classes = [], [], []
    g = G(r, depth)

    # stream 0: directly nested open-ended quantifiers (through every kind of group, greedy and lazy, outer minimum 0, inner
    # minimum >= 2): every repeat count of the outer and of the inner loop is drawn separately
    for p in ["(a{2,})*", "^(?:\\w{3,})*$", "((?:xy){2,})*", "(?:a{2,}){0,}?b", "(?P<g>[ab]{3,})+?c", "((a{2,3}){2,})?", "(?:(?:\\d{2,})+x)*",
              "^((ab){2,}c)*$", "(a{2,}?)*?$", "x(?:y{3,}){1,}", "((a+)+)+b", "(a*)*b", "(?:[^a]{2,})*a",
              # literals, escapes and ranges in the surrogate block and at the ends of the code space
              "\\ud800", "[\\ud800-\\udbff][\\udc00-\\udfff]", "[\\ud7fe-\\ud801]{3}", "a\\udfffb", "[\\U0010fffe-\\U0010ffff]{2}", "\\x00[\\x00-\\x01]",
              "[\\ufffc-\\ufffe]\\ufffd"]:
        if observe_pattern(ctx, p, "supported", None, n_rand + 6, runs, stats):
            sup_patterns.append(p)
    # stream 1: the supported grammar
    tries = 0
    while len(sup_patterns) < n_sup and tries < n_sup * 6:
        tries += 1
        g.max_depth = r.randint(1, depth)
        t = g.top()
        p = render_top(t)
        if observe_pattern(ctx, p, "supported", None, n_rand, runs, stats):
            sup_patterns.append(p)
            for s in all_seqs(t):
                for n, _ in s:
                    if n[0] == "class":
                        classes.append(render_node(n))
    # stream 2: the same grammar with one unsupported construct embedded at a random position
    tries = 0
    label_count = {}
    while len(uns_patterns) < n_uns and tries < n_uns * 6:
        tries += 1
        g.max_depth = r.randint(0, max(1, depth - 1))
        t = g.top()
        label, frag = embed(r, t)
        p = render_top(t)
        if observe_pattern(ctx, p, "unsupported", label, max(1, n_rand - 1), runs, stats):
            uns_patterns.append((p, label))
            label_count[label] = label_count.get(label, 0) + 1
    # bare fragments at top level: every listed construct is seen alone at least once
    for label, frags in list(LISTED.items()) + list(OTHER.items()):
        for frag in frags:
            for p in (frag, "a" + frag, "^(?:b|" + frag + ")", "(?:" + frag + "){0,1}c"):
                if label == "inner-anchor" and p == frag:
                    continue
                if observe_pattern(ctx, p, "unsupported", label, 1, runs, stats):
                    uns_patterns.append((p, label))
                    label_count[label] = label_count.get(label, 0) + 1

    # sanity of the streams: a pattern of stream 1 must be in the supported fragment
    for x in runs:
        if x.stream == "supported" and not x.supported:
            raise common.CheckBroken(f"pattern generator left the supported grammar: {x.pattern!r}")

    # direct oracle on every run
    schema_cache = {}
    for x in runs:
        if x.stream != "sweep":
            oracle_run(ctx, x, stats, schema_cache)

    # exhaustive sweeps of single classes (every candidate index)
    cls_distinct = list(dict.fromkeys(classes))
    r.shuffle(cls_distinct)
    fixed_classes = ["[^a-c\\d]", "[^abc\\d]", "[^\\da-c]", "[^ !-/\\w]", "[^\\w]", "[^\\d]", "[^a]", "[a-c\\d]",
                     "[\\w-]", "[^ -~]", "[^\\s]", "[\\s]", "[a\\s]", "[^x\\w\\d]", "[^A-Z_\\d]", "."]
    for cs in fixed_classes + cls_distinct[:ctx.scale(25, 250)]:
        class_sweep(ctx, cs, stats, runs)

    n_fake = ctx.scale(120, 1500)
    for p in sup_patterns[:n_fake]:
        oracle_fake(ctx, p, stats, None, True, False)
    for p, label in uns_patterns[:n_fake // 2]:
        oracle_fake(ctx, p, stats, label, False, None)

    # correspondence 1: generator model on the recorded tapes
    modelled = [x for x in runs if x.cre is not None]
    terms = [x.term() for x in modelled]
    stats["history_and_long_probes"] = probe_history_and_long(ctx, stats)
    stats["custom_letters_probes"] = probe_custom_letters(ctx, stats)
    bad = common.eval_cases(ctx.workdir, "c09gen", terms, "rgcase", "regen_case_ok",
                            extra_requires="Require Import D42.PyRandom D42.RegexGen D42Gen.GenConsts.", per_file=300)
    for i in bad[:10]:
        x = modelled[i]
        rp = x.replay_dict()
        rp.update(expected="the outcome D42.RegexGen.gen_re computes on the same tape (string, exception class, "
                           "number of draws)",
                  theorem_or_suite="C09 correspondence gen_re (theorems regen_fullmatch, regen_unsupported_raises)",
                  coq_case=x.term())
        ctx.violation(f"model and implementation disagree on generate({x.pattern!r}) with max_repeat={x.k}: "
                      f"implementation {rp['observed']}", rp, failing_input=False)

    # correspondence 2: declarative semantics / derivative matcher vs the re engine
    sem_terms, sem_src = [], []
    seen_sem = set()
    per_pat = {}
    for x in runs:
        if not (x.supported and x.kind == "ok" and x.cre is not None):
            continue
        if per_pat.get(x.pattern, 0) >= ctx.scale(2, 4):
            continue
        parsed = tree_of(x.pattern)
        if len(x.out) > 24 or rx_cost(parsed) * deriv_blowup(parsed, len(x.out) + 1) > 20000:
            stats["sem_too_big"] += 1
            continue
        per_pat[x.pattern] = per_pat.get(x.pattern, 0) + 1
        cat = has_category(parsed)
        for s2 in perturbations(r, x.out, ctx.scale(3, 6)):
            if (x.pattern, s2) in seen_sem:
                continue
            seen_sem.add((x.pattern, s2))
            if cat and unicode_word(s2):
                stats["ascii_filtered"] += 1
                continue
            try:
                with time_limit():
                    fm = re.fullmatch(x.pattern, s2) is not None
                    sr = re.search(x.pattern, s2) is not None
            except EngineTimeout:
                stats["engine_timeouts"] += 1
                continue
            sem_terms.append(f"({x.cre}, {absn.cstr(s2)}, {absn.cbool(fm)}, {absn.cbool(sr)})")
            sem_src.append((x.pattern, s2, fm, sr))
    slow_sem = []          # cases on which the derivative matcher does not finish (no ACI normalisation): not a verdict
    bad_sem = common.eval_cases(ctx.workdir, "c09sem", sem_terms, "rscase", "resem_case_ok",
                                extra_requires="Require Import D42.PyRandom D42.RegexGen.", per_file=250, slow=slow_sem, limit=90)
    stats["sem_too_big"] += len(slow_sem)
    for i in bad_sem[:10]:
        p, s2, fm, sr = sem_src[i]
        ctx.violation(f"D42.Regex matcher disagrees with the re engine on {p!r} / {s2!r}", {
            "pattern": p, "string": s2, "stream": "semantics", "python": f"import re; re.fullmatch({p!r}, {s2!r}); re.search({p!r}, {s2!r})",
            "observed": f"re.fullmatch -> {fm}, re.search -> {sr}", "expected": "fullmatchb / searchb give the same answers",
            "theorem_or_suite": "C09 correspondence fullmatchb/searchb (theorems matches_top_iff_fullmatchb, fullmatch_search)",
            "coq_case": sem_terms[i]}, failing_input=False)

    # evidence
    ok_runs = [x for x in runs if x.kind == "ok"]
    dist = {
        "patterns_supported": len(sup_patterns), "patterns_unsupported": len(uns_patterns),
        "runs": len(runs), "runs_returned": len(ok_runs), "runs_raised": len(runs) - len(ok_runs),
        "runs_by_mode": {m: sum(1 for x in runs if x.mode == m) for m in ("min", "max", "alt", "rand", "sweep")},
        "runs_by_max_repeat": {("default" if k is None else str(k)): sum(1 for x in runs if x.k == k) for k in K_CHOICES},
        "unsupported_by_label": label_count,
        "mandatory_unsupported_patterns": len({x.pattern for x in runs if x.mandatory}),
        "exceptions": {n: sum(1 for x in runs if x.kind == "raise" and type(x.exc).__name__ == n)
                       for n in sorted({type(x.exc).__name__ for x in runs if x.kind == "raise"})},
        "longest_output": max([len(x.out) for x in ok_runs] or [0]),
        "false_semantics_cases": sum(1 for _, _, fm, _ in sem_src if not fm),
        "search_only_cases": sum(1 for _, _, fm, sr in sem_src if sr and not fm),
        **stats,
    }
    distinct = len({(x.pattern, x.k, tuple(x.tape)) for x in runs if x.tape})
    ctx.coverage.update(
        evaluations=len(runs) + len(sem_terms),
        distinct_nontrivial=distinct,
        rule="patterns drawn from the supported grammar (nesting <= %d: literals incl. escaped metacharacters and "
             "non-ASCII, '.', \\d, \\w, classes with ranges/negation/categories, capturing / (?:) / named groups, "
             "alternation incl. empty alternatives, greedy and lazy quantifiers with bounds 0..5, 44 and open-ended, "
             "^ \\A first and $ \\Z last) and, as a second stream, the same with one unsupported construct (%d labels) "
             "inserted at a random position of a random sub-sequence; each pattern with max_repeat in %s (bounded output) "
             "under tapes all-min, all-max, alternating and random (tape.Policy); every candidate index of single classes. "
             "Non-trivial = at least one draw; distinct by (pattern, max_repeat, tape). Compared: (1) real generate() vs "
             "gen_re on the recorded tape: string / exception class / draws consumed; (2) oracle: re.fullmatch, "
             "validate(schema.str.regex(p)), fake(); mandatory unsupported constructs raise; (3) fullmatchb/searchb vs "
             "re.fullmatch/re.search on generated strings and one-character perturbations."
             % (depth, len(LISTED) + len(OTHER), K_CHOICES),
        samples=[{"pattern": x.pattern, "max_repeat": x.k, "tape": x.tape[:12], "mode": x.mode,
                  "outcome": (x.out if x.kind == "ok" else type(x.exc).__name__), "stream": x.stream, "label": x.label}
                 for x in (runs[3:6] + [y for y in runs if y.stream == "unsupported"][4:8])],
        correspondence={"suite": "gen_re on recorded tapes + fullmatchb/searchb vs re",
                        "cases": len(terms) + len(sem_terms), "mismatches": len(bad) + len(bad_sem),
                        "unmodelled": sum(1 for x in runs if x.cre is None and x.stream != "sweep"),
                        "generator_cases": len(terms), "semantics_cases": len(sem_terms)},
        oracle_cases=len(runs) + stats["fake_ok"] + stats["fake_refused"] + stats["sweep_runs"],
        distribution=dist,
    )


def replay(data):
    from d42.generation import Random, RegexGenerator
    p = data["pattern"]
    print("pattern :", repr(p))
    if data.get("stream") == "semantics":
        s = data["string"]
        print("string  :", repr(s))
        print("re.fullmatch:", re.fullmatch(p, s) is not None, " re.search:", re.search(p, s) is not None)
        print("expected:", data.get("expected"))
        return 0
    try:
        print("sre tree:", tree_of(p))
    except Exception as e:  # noqa
        print("sre.parse raised", repr(e))
    entries = data.get("tape") or []
    print("tape    :", entries)
    t = tapemod.Tape(entries)
    if data.get("stream") == "fake":
        from d42 import fake, schema, validate
        with tapemod.scripted(t):
            try:
                v = fake(schema.str.regex(p))
                print("fake ->", repr(v), " fullmatch:", re.fullmatch(p, v) is not None,
                      " validate errors:", validate(schema.str.regex(p), v).get_errors())
            except Exception as e:  # noqa
                print("fake raised", repr(e))
        return 0
    k = data.get("max_repeat")
    for sorted_sets in (True, False):
        t = tapemod.Tape(entries)
        kind, val = run_gen(p, k, t, sorted_sets=sorted_sets)
        tag = "candidate sets sorted" if sorted_sets else "candidate sets in hash order"
        if kind == "ok":
            print(f"generate (max_repeat={k}, {tag}) -> {val!r}  fullmatch: {re.fullmatch(p, val) is not None}")
        else:
            print(f"generate (max_repeat={k}, {tag}) raised {val!r}")
    print("recorded observation:", data.get("observed"))
    print("expected:", data.get("expected"))
    return 0
