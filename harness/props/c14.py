"""C14 - from_native(value) denotes exactly that value."""
import copy

import absn
import common
import gen
import pyspec
import tape

PROPS_FILE = "props/C14.v"
MODEL_FILES = ["theories/FromNative.v", "theories/CaseSubst.v", "theories/Agree.v"]
EXTRA_TRUSTED = [
    "veq (theories/Agree.v) is the reading of 'differs in kind, content, length, key set or any nested member, "
    "leaving aside True/False ~ 1/0 and the float tolerance'; the oracle uses an independent Python statement of it "
    "(harness/pyspec.same_value)",
    "generation clause (fake(from_native(v)) == v, no draw consumed): theorem in props/C01-family files once the "
    "Generate model is in the closure; always checked by the oracle on the real code",
]


def _identical(a, b):
    """structural identity incl. type, NaN treated as identical to NaN"""
    if type(a) is not type(b):
        return False
    if isinstance(a, float):
        return a == b or (a != a and b != b)
    if isinstance(a, list):
        return len(a) == len(b) and all(_identical(x, y) for x, y in zip(a, b))
    if isinstance(a, dict):
        return list(a.keys()) == list(b.keys()) and all(_identical(a[k], b[k]) for k in a)
    return a == b


def _nonplain_values(r):
    out = []
    zoo = dict(gen.ZOO)
    for src in gen.NONPLAIN:
        z = zoo[src]
        out.append((src, z))
        out.append((f"[1, {src}]", [1, z]))
        out.append((f"{{'a': [{src}]}}", {"a": [z]}))
        out.append((f"{{'k': {src}}}", {"k": z}))                       # as a dict member
        out.append((f"[{{'a': {{'b': {src}}}}}]", [{"a": {"b": z}}]))     # as a member two dicts down
    out.append(("{...: 1}", {...: 1}))
    out.append(("[{...: 1}]", [{...: 1}]))
    out.append(("{'a': {...: ...}}", {"a": {...: ...}}))
    out.append(("Nil", gen.Nil))
    out.append(("[Nil]", [gen.Nil]))
    return out


def run(ctx):
    from d42 import fake, validate
    from d42.utils import from_native
    r = ctx.rng
    n = ctx.scale(350, 6000)
    depth = ctx.scale(3, 5)
    terms, infos = [], []
    oracle_cases = 0
    unmodelled = 0
    dist = {"plain": 0, "nonplain": 0, "perturbations": 0, "perturbations_rejected": 0, "nan_values": 0,
            "nested": 0}
    samples = []

    def record(vsrc_text, v):
        nonlocal unmodelled
        try:
            kt = absn.KeyTable()
            vt = absn.cvalue(v, kt)
            obs = absn.cresult(lambda: from_native(v), lambda s: absn.cschema(s, kt))
            terms.append(f"({vt}, {obs})")
            infos.append(vsrc_text)
        except absn.Unmodelled:
            unmodelled += 1

    # ---- plain values: accept self, generate self, reject every different value
    fixed = [float("nan"), [1.5, float("nan")], {"a": {"b": float("nan")}}, float("inf"), -0.0, True, 1, {1: 2},
             {True: 2}, [[]], {"": {}}]
    # acyclic values that reference the same list / dict OBJECT more than once (aliasing is not
    # a property of the value: they are plain), and equal-but-different-type twins side by side
    aliased_src = ["(lambda r: [r, r])([1])", "[[0] * 3] * 3", "(lambda d: {'x': d, 'y': d})({'a': 1})",
                   "(lambda e: [e, [e], {'k': e}])([])", "(lambda r: {'a': [r, r], 'b': r})([1.5, 'x'])",
                   "[True, 1, 1.0]", "[1.0, True, 1]", "{'a': 0.0, 'b': False, 'c': 0, 'd': -0.0}", "[[1], [1.0], [True]]",
                   # "at every nesting depth": chains far deeper than the random trees (lists, dicts, mixed)
                   "(lambda f: f(f, 40))(lambda f, k: [1.5] if k == 0 else [f(f, k - 1)])",
                   "(lambda f: f(f, 48))(lambda f, k: {'leaf': 'x'} if k == 0 else {'next': f(f, k - 1), 'k': k})",
                   "(lambda f: f(f, 72))(lambda f, k: None if k == 0 else ([f(f, k - 1), k] if k % 2 else {'d': f(f, k - 1)}))"]
    aliased = [eval(a, dict(gen.NS)) for a in aliased_src]
    for i in range(n):
        if i < len(fixed):
            v = fixed[i]
        elif i < len(fixed) + len(aliased):
            v = aliased[i - len(fixed)]
        else:
            v = gen.gen_plain(r, r.randint(0, depth), nan=0.03)
            if isinstance(v, list) and len(v) >= 2 and r.random() < 0.3:
                j, k = r.sample(range(len(v)), 2)          # alias one element at a second position
                v[k] = v[j]
        src = aliased_src[i - len(fixed)] if len(fixed) <= i < len(fixed) + len(aliased) else gen.vsrc(v)
        record(src, v)
        dist["plain"] += 1
        if isinstance(v, (list, dict)) and v:
            dist["nested"] += 1
        oracle_cases += 1
        before = copy.deepcopy(v)
        try:
            s = from_native(v)
        except Exception as e:  # noqa
            ctx.violation(f"from_native raised {type(e).__name__} on a plain value",
                          {"kind": "input", "value": src, "observed": repr(e), "expected": "a schema"})
            continue
        if not _identical(before, v):
            ctx.violation("from_native mutated its argument", {"kind": "input", "value": src})
        nan = pyspec.has_nan(v)
        if nan:
            dist["nan_values"] += 1
        errs = validate(s, v).get_errors()
        if errs:
            if nan and ctx.known_finding("F10", f"from_native({src}) rejects its own value"):
                pass
            else:
                ctx.violation("from_native(v) rejects v",
                              {"kind": "input", "value": src, "observed": [type(e).__name__ for e in errs],
                               "expected": "no errors"})
        # generates exactly v, consuming no randomness
        t = tape.Tape([7, 3, 11])
        try:
            with tape.scripted(t):
                g = fake(s)
            if not _identical(g, v) or t.used:
                ctx.violation("fake(from_native(v)) is not v (or consumed a random draw)",
                              {"kind": "input", "value": src, "observed": gen.vsrc(g), "draws": len(t.used)})
        except Exception as e:  # noqa
            ctx.violation(f"fake(from_native(v)) raised {type(e).__name__}", {"kind": "input", "value": src})
        # a copy is accepted, every different value is rejected
        ws = [("copy", copy.deepcopy(v))] + [("perturb", w) for w in gen.perturbations(r, v, limit=ctx.scale(14, 30))]
        for origin, w in ws:
            dist["perturbations"] += 1
            try:
                ok = not validate(s, w).get_errors()
            except Exception as e:  # noqa
                ctx.violation(f"validate(from_native(v), w) raised {type(e).__name__}",
                              {"kind": "input", "value": src, "w": gen.vsrc(w)})
                continue
            same = pyspec.same_value(v, w)
            if not ok:
                dist["perturbations_rejected"] += 1
            if ok and not same:
                ctx.violation("from_native(v) accepts a different value",
                              {"kind": "input", "value": src, "w": gen.vsrc(w), "observed": "accepted",
                               "expected": "rejected (differs in kind/content/length/key set/member)"})
            if origin == "copy" and not ok and not nan:
                ctx.violation("from_native(v) rejects the same value",
                              {"kind": "input", "value": src, "w": gen.vsrc(w), "observed": "rejected",
                               "expected": "accepted"})
        # the same conversion reached through substitution (members outside the matched window, untyped containers,
        # schema.any): the result is the schema from_native(v) gives, member by member, in v's order
        if isinstance(v, (list, dict)) and not nan:
            from d42 import schema as _schema
            routes = []
            if isinstance(v, list):
                routes.append(("schema.list % v", lambda: _schema.list % v))
                if len(v) >= 2:
                    routes += [("schema.list([from_native(v[0]), ...]) % v", lambda: _schema.list([from_native(v[0]), ...]) % v),
                               ("schema.list([..., from_native(v[-1])]) % v", lambda: _schema.list([..., from_native(v[-1])]) % v)]
                    j = r.randrange(len(v))
                    # (not where v holds dicts: an earlier dict member may merely SUBSTITUTE into the searched one - it is a
                    # partial dict for substitution - and take the window: C04's finding F25, nothing from_native does)
                    if "{" not in gen.vsrc(v):
                        routes.append(
                            (f"schema.list([..., from_native(v[{j}]), ...]) % v", lambda: _schema.list([..., from_native(v[j]), ...]) % v))
            else:
                routes.append(("schema.dict % v", lambda: _schema.dict % v))
                routes.append(("schema.dict({...: ...}) % v", None))
            routes.append(("schema.any % v", lambda: (_schema.any % v).props.types[0]))
            for rname, f in routes:
                if f is None:
                    continue
                dist["substitution_routes"] = dist.get("substitution_routes", 0) + 1
                try:
                    got = f()
                except Exception as e:  # noqa
                    got = e
                ok = not isinstance(got, Exception) and not validate(got, v).get_errors()
                if ok:
                    with tape.scripted(tape.Tape([5, 2, 9])):
                        try:
                            ok = _identical(fake(got), v)
                        except Exception:  # noqa
                            ok = False
                if not ok:
                    ctx.violation("members converted by from_native during substitution do not make up the substituted value",
                                  {"kind": "input", "value": src, "route": rname,
                                   "observed": common.srepr(got)[:300].replace("\n", " "),
                                   "expected": "a schema that accepts v and generates exactly v (as from_native(v) does)"})
                    break
        if len(samples) < 4 and isinstance(v, (list, dict)) and v:
            samples.append({"value": src, "schema": repr(s).replace("\n", " ")[:200],
                            "perturbations_tried": len(ws)})

    # ---- instances of SUBCLASSES of the plain kinds (user subclasses, enum members, OrderedDict / defaultdict / Counter,
    # datetime subclasses) are converted by isinstance: the schema accepts the very value it was made from, and
    # generates an equal one - alone, as a list member, as a dict member
    import collections
    import datetime as _dtm
    import enum

    class _DtSub(_dtm.datetime):
        pass

    class _StrEnum(str, enum.Enum):
        A = "a"
    subs = [("_IntSub(7)", gen._IntSub(7)), ("_StrSub('ab')", gen._StrSub("ab")), ("_FloatSub(1.5)", gen._FloatSub(1.5)), ("_ListSub([1])", gen._ListSub([1])),
            ("_DictSub({'a': 1})", gen._DictSub({"a": 1})), ("_IntColor.RED", gen._IntColor.RED), ("<str enum member>", _StrEnum.A),
            ("collections.OrderedDict(a=1)", collections.OrderedDict(a=1)), ("collections.defaultdict(int, {'a': 1})", collections.defaultdict(int, {"a": 1})),
            ("collections.Counter('aab')", collections.Counter("aab")), ("<datetime subclass>(2020, 1, 2)", _DtSub(2020, 1, 2)), ("True", True)]
    for src0, z in subs:
        for src, v in ((src0, z), (f"[0, {src0}]", [0, z]), (f"{{'k': {src0}}}", {"k": z})):
            dist["subclass_instances"] = dist.get("subclass_instances", 0) + 1
            oracle_cases += 1
            try:
                s = from_native(v)
                errs = [type(e).__name__ for e in validate(s, v).get_errors()]
                with tape.scripted(tape.Tape([1, 2, 3])):
                    g = fake(s)
                why = f"rejects it: {errs}" if errs else (None if g == v else f"generates {g!r}")
            except Exception as e:  # noqa
                why = f"raised {type(e).__name__}: {str(e)[:100]}"
            if why:
                ctx.violation("from_native(v) for an instance of a subclass of a plain kind does not describe v",
                              {"kind": "input", "value": src, "observed": why, "expected": "a schema that accepts v and generates a value equal to v"})
    # ---- everything else is refused with ValueError (at any depth)
    for src, v in _nonplain_values(r):
        record(src, v)
        dist["nonplain"] += 1
        oracle_cases += 1
        try:
            s = from_native(v)
            ctx.violation("from_native accepted a non-plain value",
                          {"kind": "input", "value": src, "observed": repr(s)[:200], "expected": "ValueError"})
        except ValueError:
            pass
        except Exception as e:  # noqa
            ctx.violation(f"from_native refused a non-plain value with {type(e).__name__}, not ValueError",
                          {"kind": "input", "value": src, "observed": type(e).__name__, "expected": "ValueError"})

    bad = common.eval_cases(ctx.workdir, "c14", terms, "fncase", "fncase_ok",
                            extra_requires="Require Import D42.FromNative D42.Substitute D42.CaseSubst.")
    for i in bad[:10]:
        ctx.violation("from_native result differs from the model's",
                      {"kind": "input", "value": infos[i],
                       "theorem_or_suite": "C14 correspondence: from_native (theorems fn_accepts / fn_rejects_different "
                                           "are about the model's result)"},
                      failing_input=False)
    ctx.coverage.update(
        evaluations=oracle_cases + dist["perturbations"],
        distinct_nontrivial=len(set(terms)),
        rule="plain values from boundary pools (ints up to 10**30, floats incl. nan/inf/-0.0/neighbours, str incl. "
             "non-ASCII, bytes, uuid4, naive/aware datetimes, dates, nested lists/dicts with str/int/None/bool/float/"
             "bytes keys, depth <= %d); for each: from_native, validate(self), fake under a tape (must consume no "
             "draw), a deep copy and one-step perturbations at every depth judged by an independent statement of "
             "'same value'; non-plain stream: %d zoo members alone and nested, `...` keys, Nil. Correspondence: the "
             "resulting schema / exception class vs the model. distinct_nontrivial = distinct canonical values."
             % (depth, len(gen.NONPLAIN)),
        samples=samples,
        correspondence={"suite": "from_native", "cases": len(terms), "mismatches": len(bad), "unmodelled": unmodelled},
        oracle_cases=oracle_cases, distribution=dist,
    )


def replay(data):
    from d42 import fake, validate
    from d42.utils import from_native
    v = eval(data["value"], dict(gen.NS))
    try:
        s = from_native(v)
    except Exception as e:  # noqa
        print("from_native raised", repr(e))
        return 0
    print("schema:", repr(s))
    print("validate(self):", validate(s, v).get_errors())
    print("fake:", repr(fake(s)))
    if "w" in data:
        w = eval(data["w"], dict(gen.NS))
        print("validate(w):", validate(s, w).get_errors())
    return 0
