"""C12 - substitution fails only with SubstitutionError and is idempotent."""
import common
import gen
import pyspec
import ssuite

PROPS_FILE = "props/C12.v"
MODEL_FILES = ["theories/Substitute.v", "theories/CaseSubst.v", "theories/HSat.v", "theories/CaseHSat.v"]
EXTRA_TRUSTED = [
    "'usable' is checked on the real generator/validator: if every sub-schema of S generates accepted values under "
    "the min/max/random tapes (S hereditarily generable) then so must S % v",
    "values with `...` placeholders in the middle of a list (F22) are outside the theorem's well_placed hypothesis",
]


def run(ctx):
    from d42 import substitute
    from d42.substitution.errors import SubstitutionError
    n = ctx.scale(200, 4000)
    depth = ctx.scale(3, 5)
    cases = ssuite.make_cases(ctx, n, depth, plain_only=False, zoo_rate=0.5)
    r = ctx.rng
    # members that cannot be converted, extra keys under relaxed dicts nested in any / contains lists
    directed = [
        ("schema.list([..., schema.int, ...])", "[1, object()]"),
        ("schema.any(schema.dict({'a': schema.int, ...: ...}))", "{'a': 1, 'b': 2}"),
        ("schema.list", "[{...: 1}]"), ("schema.dict", "{'x': {...: 1}}"), ("schema.any", "(1, 2)"),
        ("schema.list([..., schema.dict({'a': schema.int, ...: ...}), ...])", "[{'a': 1, 'zz': 2}]"),
        ("schema.dict({'a': schema.list(schema.any(schema.int, schema.dict({...: ...})))})", "{'a': [1, {'q': {1, 2}}]}"),
        ("schema.list(schema.int)", "[1, ..., 2]"), ("schema.list", "[1, ..., 2]"),
        ("schema.dict({'a': schema.int})", "{'a': ...}"), ("schema.float", "float('nan')"),
        ("schema.list([schema.float])", "[float('nan')]"),
        # the substitutor's OWN messages (not the validation formatter's) print the value: F38
        ("schema.any", "(7**6000,)"), ("schema.dict", "{'a': (7**6000,)}"), ("schema.list", "[1, {7**6000}]"),
        ("schema.any(schema.dict({'a': schema.int(1), ...: ...}))", "{'a': 1, 'b': (7**6000,)}"),
        ("schema.any(schema.any(schema.dict({'': schema.datetime, ...: ...})))", "{'': 7**6000}"),
        ("schema.any(schema.dict({'a': schema.int, ...: ...}), schema.list)", "{'a': 1, 'b': {10**5000: 1, 'k': (0,)}}"),
        ("schema.dict({'a': schema.int, ...: ...})", "{7**6000: 1}"), ("schema.dict({...: ...})", "{(7**6000,): (1,)}"),
    ]
    for ssrc, vsrc in directed:
        c = ssuite.SCase()
        c.ssrc, c.schema, c.value, c.origin, c.unmodelled = ssrc, gen.build(ssrc), eval(vsrc, dict(gen.NS)), "directed", None
        cases.append(c)
    # window stress, enumerated: every element-list form x inner schemas x convertible /
    # unconvertible members before and after the window x intact / broken / truncated window
    import itertools
    inner_pool = ["schema.int", "schema.str", "schema.none"]
    good = {"schema.int": "1", "schema.str": "'x'", "schema.none": "None"}
    pads = ["1", "(0,)"]
    inners = [[a] for a in inner_pool] + [[a, b] for a in inner_pool for b in inner_pool]
    befores = [[]] + [[a] for a in pads] + [[a, b] for a in pads for b in pads]
    afters = [[]] + [[a] for a in pads]
    for form, inner, before, after, variant in itertools.product(
            ["body", "head", "tail", "exact"], inners, befores, afters, ["intact", "broken", "short"]):
        if not ctx.thorough() and r.random() < 0.35:
            continue
        es = {"body": ["..."] + inner + ["..."], "head": inner + ["..."], "tail": ["..."] + inner,
              "exact": inner}[form]
        ssrc = "schema.list([" + ", ".join(es) + "])"
        window = [good[e] for e in inner]
        if variant == "broken":
            window[-1] = "(0,)"
        elif variant == "short":
            window = window[:-1]
        vsrc = "[" + ", ".join(before + window + after) + "]"
        c = ssuite.SCase()
        c.ssrc, c.schema, c.value, c.origin, c.unmodelled = ssrc, gen.build(ssrc), eval(vsrc, dict(gen.NS)), "window", None
        c.vtext = vsrc
        cases.append(c)
    dist = {}
    samples = []
    usable_checked = idem_checked = 0
    # the hypothesis of subst_result_can_be_generated_from (wf and hsatb of the ORIGINAL schema), decided inside
    # Coq for every case with a plain value: where it holds, S % v must generate accepted values - no heuristic
    # about S is consulted
    import absn
    import gsuite
    hs_cases, hs_terms = [], []
    for c in cases:
        if pyspec.is_plain(c.value):
            try:
                hs_terms.append(f"({gsuite.world_term()}, {absn.cschema(c.schema, absn.KeyTable())}, true)")
                hs_cases.append(c)
            except absn.Unmodelled:
                pass
    not_hs = set(common.eval_cases(ctx.workdir, "c12hsat", hs_terms, "hsatcase", "hsatcase_ok",
                                   extra_requires="Require Import D42.PyRandom D42.RegexGen D42.Generate D42.SatB D42.HSat D42.CaseHSat."))
    hsat_holds = {id(c) for j, c in enumerate(hs_cases) if j not in not_hs}
    dist["hypothesis_hsat_holds"] = len(hsat_holds)
    dist["hypothesis_hsat_fails"] = len(not_hs)
    for c in cases:
        ssuite.observe(c)
        dist["outcome:" + c.outcome] = dist.get("outcome:" + c.outcome, 0) + 1
        dist["origin:" + c.origin] = dist.get("origin:" + c.origin, 0) + 1
        if c.outcome in ("decl", "raise"):
            # F28: the message of the SubstitutionError cannot be rendered for ints beyond the int->str limit
            if isinstance(c.exc, ValueError) and "integer string conversion" in str(c.exc) and \
                    pyspec.has_huge_int(c.value) and \
                    ctx.known_finding("F28", f"substitute({c.ssrc}, <int with more than 4300 digits>)"):
                continue
            rp = c.replay_dict()
            rp.update(observed=f"{type(c.exc).__name__}: {c.exc}", expected="a schema or SubstitutionError")
            ctx.violation(f"substitute raised {type(c.exc).__name__}", rp)
            continue
        if c.outcome != "ok":
            continue
        v = c.value
        placeholder = ssuite.has_placeholder(v)
        plain = pyspec.is_plain(v)
        nan = pyspec.has_nan(v) or ssuite.schema_has_nan(c.schema)
        # usable: S hereditarily generable => S % v generates values it accepts
        if placeholder:
            # a result built from placeholders must still be a schema one can validate against
            try:
                for good, g, used in ssuite.gen_values(ctx, c.result, modes=("min",)):
                    if good:
                        ssuite.accepts(c.result, g)
            except Exception as e:  # noqa
                ex = f"S={c.ssrc}, v={c.vsrc()}"
                if ssuite.ell_in_middle(v) and ctx.known_finding("F22", ex):
                    pass
                else:
                    rp = c.replay_dict()
                    rp.update(observed=f"validate(S % v, fake(S % v)) raised {type(e).__name__}: {e}",
                              expected="a usable schema")
                    ctx.violation("substitution returned a schema on which validation raises", rp)
        if id(c) in hsat_holds or ssuite.hereditarily_generable(ctx, c.schema):
            usable_checked += 1
            for good, g, used in ssuite.gen_values(ctx, c.result):
                if not good:
                    rp = c.replay_dict()
                    rp.update(observed=f"fake(S % v) raised {type(g).__name__}: {g}", tape=used,
                              expected="a value (S and all its members generate fine)")
                    ctx.violation("substitution returned a schema that cannot be generated from", rp)
                    break
                try:
                    okv = ssuite.accepts(c.result, g)
                except Exception:  # noqa
                    okv = False
                if not okv:
                    rp = c.replay_dict()
                    rp.update(observed=f"fake(S % v) = {gen.vsrc(g)} is rejected by S % v", tape=used,
                              expected="an accepted value")
                    ctx.violation("substitution returned a schema whose generated value it rejects", rp)
                    break
        # idempotence for plain values
        if plain or not placeholder:   # every value without a `...` placeholder, not only plain ones
            idem_checked += 1
            try:
                again = substitute(c.result, v)
                same = (again == c.result)
                why = "different schema" if not same else ""
            except Exception as e:  # noqa
                again, same, why = None, False, f"{type(e).__name__}: {e}"
            if same:
                try:
                    same = repr(again) == repr(c.result)
                    why = "different printed form" if not same else ""
                except ValueError:
                    # repr() of a schema holding an int beyond CPython's int->str limit raises (as
                    # repr([10**5000]) does): not a statement about substitution
                    pass
            if not same:
                ex = f"S={c.ssrc}, v={c.vsrc()}"
                if nan and ctx.known_finding("F10", ex):
                    pass
                else:
                    rp = c.replay_dict()
                    rp.update(observed="second substitution: " + why, expected="an equal schema")
                    ctx.violation("substitution is not idempotent", rp)
        # chains (theorems subst_chain_only_substerr / subst_chain_idempotent_at_end): a second plain value
        # substituted into the RESULT ends in a schema or in SubstitutionError, and is idempotent there too
        if plain and isinstance(v, (list, dict)) and ctx.rng.random() < 0.25:
            from props import c05
            for origin2, v2 in c05.chain_values(ctx, c)[1:4]:
                dist["chain:tried"] = dist.get("chain:tried", 0) + 1
                rp2 = {"kind": "input", "schema": "substitute(%s, %s)" % (c.ssrc, c.vsrc()), "value": gen.vsrc(v2),
                       "origin": "chain-" + origin2}
                try:
                    r2 = substitute(c.result, v2)
                except SubstitutionError:
                    dist["chain:subst"] = dist.get("chain:subst", 0) + 1
                    continue
                except Exception as e:  # noqa
                    rp2.update(observed=f"(S % v) % v2 raised {type(e).__name__}: {e}", expected="a schema or SubstitutionError")
                    ctx.violation(f"a chained substitution raised {type(e).__name__}", rp2)
                    continue
                dist["chain:ok"] = dist.get("chain:ok", 0) + 1
                try:
                    r3 = substitute(r2, v2)
                    ok3 = (r3 == r2)
                    why3 = "" if ok3 else "different schema"
                except Exception as e:  # noqa
                    ok3, why3 = False, f"{type(e).__name__}: {e}"
                if not ok3 and not (pyspec.has_nan(v2) and ctx.known_finding("F10", rp2["schema"])):
                    rp2.update(observed="((S % v) % v2) % v2: " + why3, expected="equal to (S % v) % v2")
                    ctx.violation("substitution is not idempotent at the end of a chain", rp2)
        if len(samples) < 4 and c.origin in ("zoo", "placeholder"):
            samples.append({"schema": c.ssrc, "value": c.vsrc(), "outcome": c.outcome})
    for c in ssuite.bad_results(cases)[:5]:
        rp = c.replay_dict()
        rp.update(observed="substitute returned a schema with ill-typed props: " + c.unmodelled[:300],
                  expected="a schema the DSL can build", theorem_or_suite="substitute correspondence")
        ctx.violation("substitute returned an ill-formed schema object", rp)
    modelled = [c for c in cases if c.term is not None]
    bad = common.eval_cases(ctx.workdir, "c12", [c.term for c in modelled], "subcase", "subcase_ok",
                            extra_requires="Require Import D42.FromNative D42.Substitute D42.CaseSubst.")
    for i in bad[:10]:
        c = modelled[i]
        rp = c.replay_dict()
        rp.update(observed=c.outcome + (": " + common.srepr(c.result).replace("\n", " ")[:300] if c.result is not None else ""),
                  expected="the model's substitute outcome (theorems subst_only_substerr / subst_idempotent are about it)",
                  theorem_or_suite="C12 correspondence: substitute")
        ctx.violation("substitute outcome differs from the model's", rp, failing_input=False)
    ctx.coverage.update(
        evaluations=len(cases),
        distinct_nontrivial=len({c.term for c in modelled if c.outcome != "ok" or isinstance(c.value, (list, dict))}),
        rule="(schema, value) pairs: conforming, partial, perturbed, `...` placeholders at every list/dict position, "
             "hostile zoo members injected at random positions, unrelated values, directed cases (unconvertible members, "
             "extra keys under relaxed dicts inside any/contains-lists). Oracle on /repo: outcome is a schema or "
             "SubstitutionError; when S is hereditarily generable, S %% v generates values it accepts under min/max/"
             "random tapes; for plain v a second substitution returns an equal schema. Correspondence: outcome and "
             "resulting schema vs the model (nesting <= %d)." % depth,
        samples=samples,
        correspondence={"suite": "substitute", "cases": len(modelled), "mismatches": len(bad),
                        "unmodelled": len(cases) - len(modelled)},
        oracle_cases=len(cases), usable_checked=usable_checked, idempotence_checked=idem_checked, distribution=dist,
    )


def replay(data):
    from d42 import fake, substitute
    s = gen.build(data["schema"])
    v = eval(data["value"], dict(gen.NS))
    try:
        s2 = substitute(s, v)
    except Exception as e:  # noqa
        print("substitute raised", type(e).__name__, e)
        return 0
    print("S % v =", repr(s2))
    try:
        print("fake(S % v):", repr(fake(s2)))
    except Exception as e:  # noqa
        print("fake raised", repr(e))
    try:
        print("(S % v) % v == S % v:", substitute(s2, v) == s2)
    except Exception as e:  # noqa
        print("second substitute raised", repr(e))
    return 0
