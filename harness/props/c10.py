"""C10 - a declaration either fails cleanly or yields a self-consistent schema."""
from niltype import Nil

import common
import gen
import declsuite as ds
from absn import KeyTable, Unmodelled, clist, cschema

PROPS_FILE = "props/C10.v"
MODEL_FILES = ["theories/Declare.v", "theories/CaseDeclare.v"]
EXTRA_TRUSTED = [
    "re.compile / re.search are not modelled: a str offered to regex() reaches the model with its sre parse "
    "tree and the flag 're.compile accepted it' (harness), value-vs-pattern uses the matcher of Regex.v",
    "sys.float_info.dig == 15 (asserted on every run)",
    "Python arity errors (TypeError / AttributeError for a wrong number of arguments or a missing method) "
    "are outside the property: only arity-correct calls are generated; the model maps them to Raise",
]


class Node:
    __slots__ = ("schema", "src", "depth", "term", "ops")

    def __init__(self, s, src, depth, ops):
        self.schema, self.src, self.depth, self.ops = s, src, depth, ops
        self.term = None


class Suite:
    def __init__(self, ctx):
        self.ctx = ctx
        self.calls = 0
        self.outcomes = {"ok": 0, "decl": 0, "raise": 0}
        self.cases = {}          # term -> replay source
        self.unmodelled = 0
        self.fixed_checked = 0
        self.redeclared = 0
        self.per_kind = {}
        self.samples = []
        self.f10 = 0

    # -------------------------------------------------- oracle on one call
    def oracle(self, node, meth, args, kind, res, unchanged):
        ctx = self.ctx
        src = node.src + ds.call_src(meth, args)
        rp = {"chain": src, "theorem_or_suite": "C10 direct oracle"}
        if kind == "raise":
            rp.update(observed=f"raises {type(res).__name__}: {res}", expected="DeclarationError or a schema")
            ctx.violation(f"declaration call lets {type(res).__name__} escape: {src}", rp)
            return
        if not unchanged:
            rp.update(observed="receiver changed by the call", expected="receiver unchanged")
            ctx.violation(f"declaration call changed its receiver: {src}", rp)
        if ds.prop_declared(node.schema, meth):
            self.redeclared += 1
            if kind != "decl":
                rp.update(observed="returned a schema", expected="DeclarationError (property already declared)")
                ctx.violation(f"re-declaration accepted: {src}", rp)
        if kind == "ok":
            if not isinstance(res, ds.Schema) or type(res) is not type(node.schema) or res is node.schema:
                rp.update(observed=f"returned {type(res).__name__}", expected="a new schema of the receiver's type")
                ctx.violation(f"declaration call returned something else than a new schema: {src}", rp)
                return
            has, v = ds.fixed_value(res)
            if has:
                self.fixed_checked += 1
                try:
                    errs = ds.validate(res, v).get_errors()
                    crash = None
                except Exception as e:  # noqa
                    errs, crash = [], e
                if errs or crash is not None:
                    if crash is None and ds.has_nan(v) and ctx.known_finding("F10", src):
                        self.f10 += 1
                        return
                    rp.update(observed=f"validate(result, fixed value) -> {crash or errs}",
                              expected="the schema accepts its own fixed value")
                    ctx.violation(f"returned schema rejects its own fixed value: {src}", rp)

    def extra_oracles(self, node, meth, args, kind, res, argvals):
        """(a) the returned schema is self-contained: changing a list / dict that was passed in afterwards does not
        change it; (b) a list declared by concrete elements only (no `...`) admits exactly len(elements) members, so
        a successful length declaration cannot contradict that (the value built from conforming members must meet it)."""
        ctx = self.ctx
        src = node.src + ds.call_src(meth, args)
        if kind != "ok" or not isinstance(res, ds.Schema):
            return
        before = repr(res)
        for a in argvals:
            try:
                if type(a) is list:
                    a.append(ds.ev("schema.none"))
                elif type(a) is dict:
                    a["__added_later__"] = ds.ev("schema.none")
            except Exception:  # noqa
                pass
        after = common.srepr(res)
        if after != before:
            ctx.violation(f"the returned schema changes when the caller's argument is changed afterwards: {src}",
                          {"kind": "input", "chain": src, "observed": after[:300], "expected": before[:300]})
            return
        if type(res) is ds.ListSchema and meth in ("len", "call"):
            es = res.props.get("elements")
            if es is not Nil and all(e is not ... for e in es) and res.props.get("type") is Nil:
                try:
                    cand = [gen.conform(ctx.rng, e) for e in es]
                    errs = [type(e).__name__ for e in ds.validate(res, cand).get_errors()]
                except Exception:  # noqa
                    return
                lens = [e for e in errs if "Length" in e]
                if lens and len(lens) == len(errs):
                    ctx.violation(f"a list declared by {len(es)} concrete elements was given a length it cannot have: {src}",
                                  {"kind": "input", "chain": src, "observed": f"validate(result, {gen.vsrc(cand)}) -> {errs}",
                                   "expected": "a value with exactly the declared members conforms (or the declaration is rejected)"})

    # -------------------------------------------------- one call: run, oracle, case
    def call(self, node, meth, args):
        kind, res, unchanged, argvals = ds.run_call(node.schema, meth, args)
        self.calls += 1
        self.outcomes[kind] += 1
        self.oracle(node, meth, args, kind, res, unchanged)
        try:
            kt = KeyTable()
            recv = cschema(node.schema, kt)
            term = f"({recv}, [{ds.cop(meth, argvals, kt)}], {ds.coutcome(kind, res, kt)})"
            if term not in self.cases:
                self.cases[term] = node.src + ds.call_src(meth, args)
        except Unmodelled:
            self.unmodelled += 1
        self.extra_oracles(node, meth, args, kind, res, argvals)      # last: it changes the argument objects
        return kind, res

    def tree(self, kind_name, max_depth, ops=None):
        ops = ops if ops is not None else ds.OPS[kind_name]
        root = Node(ds.ev(f"schema.{kind_name}"), f"schema.{kind_name}", 0, [])
        level = [root]
        frontier = []
        for depth in range(max_depth):
            nxt = []
            seen = set()
            for node in level:
                for meth, args in ops:
                    kind, res = self.call(node, meth, args)
                    if kind == "ok" and isinstance(res, ds.Schema):
                        child = Node(res, node.src + ds.call_src(meth, args), depth + 1,
                                     node.ops + [(meth, args)])
                        key = repr(res.props._registry)
                        if key not in seen:        # same state reached by another chain: expand once
                            seen.add(key)
                            nxt.append(child)
            level = nxt
            frontier = nxt
        self.per_kind[kind_name] = self.calls
        return frontier

    def walks(self, kind_name, starts, n, max_len):
        """random continuations of chains up to max_len calls; the whole chain from the bare
        type is one case for [run]"""
        ops = ds.OPS[kind_name]
        r = self.ctx.rng
        if not ops:
            return
        for _ in range(n):
            node = r.choice(starts) if starts else None
            if node is None:
                return
            cur = node
            while cur.depth < max_len:
                meth, args = r.choice(ops)
                kind, res = self.call(cur, meth, args)
                chain = cur.ops + [(meth, args)]
                self.chain_case(kind_name, chain, kind, res)
                if kind != "ok" or not isinstance(res, ds.Schema):
                    break
                cur = Node(res, cur.src + ds.call_src(meth, args), cur.depth + 1, chain)

    def chain_case(self, kind_name, chain, kind, res):
        try:
            kt = KeyTable()
            recv = cschema(ds.ev(f"schema.{kind_name}"), kt)
            opst = clist([ds.cop(m, [ds.ev(a) for a in args], kt) for m, args in chain])
            term = f"({recv}, {opst}, {ds.coutcome(kind, res, kt)})"
            src = f"schema.{kind_name}" + "".join(ds.call_src(m, a) for m, a in chain)
            self.cases.setdefault(term, src)
        except Unmodelled:
            self.unmodelled += 1


def probe_operators(ctx):
    """`s | x` with a right operand that is not a schema: DeclarationError (as schema.any(s, x) raises), never another
    exception and never a non-schema result; the receiver is unchanged.  (`d + x` raising TypeError is pinned by the
    existing tests and left alone.)"""
    from d42.declaration import DeclarationError
    n = 0
    recv = ["schema.none", "schema.bool", "schema.int.min(1)", "schema.float(1.5)", "schema.str.len(2)", "schema.list(schema.int)",
            "schema.dict({'a': schema.int})", "schema.any", "schema.any(schema.int, schema.str)", "schema.bytes", "schema.uuid4",
            "schema.datetime", "schema.date", "schema.alias('A', schema.int)"]
    operands = ["5", "'x'", "None", "[]", "{}", "1.5", "...", "object()", "True", "b'x'", "(schema.int,)", "[schema.int]", "int", "Nil", "2**70"]
    for rs in recv:
        s = ds.ev(rs)
        before = repr(s)
        for xs in operands:
            x = eval(xs, dict(ds.NS, object=object, int=int))
            n += 1
            try:
                out = ("ok", s | x)
            except DeclarationError:
                out = ("decl", None)
            except Exception as e:  # noqa
                out = ("raise", e)
            rp = {"kind": "input", "chain": f"{rs} | {xs}", "expected": "DeclarationError"}
            if out[0] == "raise":
                rp["observed"] = repr(out[1])
                ctx.violation(f"declaration call lets {type(out[1]).__name__} escape: {rs} | {xs}", rp)
            elif out[0] == "ok":
                rp["observed"] = repr(out[1])[:200]
                ctx.violation(f"`|` with an operand that is not a schema returned something: {rs} | {xs}", rp)
            if repr(s) != before:
                ctx.violation(f"`|` changed its receiver: {rs} | {xs}", rp)
    return n


def probe_unprintable_arguments(ctx):
    """Chains whose arguments (or the values already fixed in the receiver) cannot be printed - ints beyond
    CPython's int -> str digit limit, lists nested deeper than the recursion limit: "arguments of any type" covers
    them, so the outcome is a schema or DeclarationError, never the ValueError / RecursionError of a message that
    could not be built (F39); the receiver is unchanged (observed through props, not through repr)."""
    from d42.declaration import DeclarationError
    H, deep = 10 ** 5000, []
    for _ in range(5000):
        deep = [deep]
    sc = ds.ev("schema")
    ns = dict(ds.NS, H=H, deep=deep)
    chains = ["schema.int(H).min(H * 10)", "schema.int.min(H * 10)(H)", "schema.int(H)(1)", "schema.int(1).max(-H)", "schema.int(H)(H)",
              "schema.int.min(H).max(1)", "schema.int.min(H).min(H)", "schema.int(H).max(H).min(H + 1)", "schema.int(deep)",
              "schema.float.min(H)", "schema.float(H)", "schema.float.precision(H)", "schema.float(1.5).min(H)", "schema.float.max(-H)",
              "schema.str.len(H).len(1)", "schema.str('a').len(H)", "schema.str('a').len(H, ...)", "schema.str('a').len(..., -H)",
              "schema.str(H)", "schema.str.alphabet(H)", "schema.str.regex(H)", "schema.str.contains(H)", "schema.str.len(1, H).len(2)",
              "schema.str('abc').len(..., H).alphabet('x')", "schema.str('abc').len(..., H).contains('x')", "schema.str('abc').len(1, H).contains('x')",
              "schema.str('abc').len(3, H).alphabet('abc').contains('z')", "schema.str.regex('(?a)(?u)x')", "schema.str('x').regex('(?L)x')",
              "schema.str.regex('(?a)(?u)x').len(1)", "schema.str.len(1).regex('(?a)(?u)x')",
              "schema.list([schema.int(H)]).len(3)", "schema.list([schema.int(H)])([])", "schema.list(H)", "schema.list([H])",
              "schema.list([schema.int]).len(H)", "schema.list(schema.int(H))(schema.int)", "schema.list(deep)",
              "schema.any(schema.int(H))(schema.int)", "schema.any(H)", "schema.any(schema.int, H)", "schema.int(H) | H",
              "schema.dict({H: ...})", "schema.dict({...: H})", "schema.dict({'a': H})", "schema.dict({'a': schema.int(H)})({})",
              "schema.dict({H: schema.int})({})", "schema.dict({optional(H): ...})", "schema.dict(H)", "schema.dict({'a': deep})",
              "schema.bool(H)", "schema.bytes(H)", "schema.uuid4(H)", "schema.datetime(H)", "schema.date(H)", "schema.bool(True)(H)",
              "schema.alias(H, schema.int)", "schema.alias('A', H)"]
    n = 0
    for src in chains:
        n += 1
        try:
            out = eval(src, ns)
            ok = isinstance(out, ds.Schema)
            what = "returned " + type(out).__name__
        except DeclarationError:
            continue
        except Exception as e:  # noqa
            ok, what = False, f"raised {type(e).__name__}: {str(e)[:120]}"
        if not ok:
            ctx.violation(f"declaration call lets another exception escape (or returns a non-schema): {src}",
                          {"kind": "input", "chain": src, "where": "H = 10**5000; deep = a list nested 5000 levels",
                           "observed": what, "expected": "a schema or DeclarationError"})
    return n


def run(ctx):
    ds.check_environment()
    ds.extra_known(ctx)
    st = Suite(ctx)
    depth = ctx.scale(2, 3)
    n_walks = ctx.scale(150, 4000)
    for kind_name in ds.OPS:
        frontier = st.tree(kind_name, depth)
        st.walks(kind_name, frontier, n_walks, 4)
    # interactions of three or four refinements over a focused universe (exhaustive)
    for kind_name, (ops, d) in ds.FOCUS.items():
        st.tree(kind_name, d, ops=ops)
    operator_probes = probe_operators(ctx)
    unprintable_probes = probe_unprintable_arguments(ctx)
    terms = list(st.cases)
    bad = common.eval_cases(ctx.workdir, "c10", terms, "dcase", "dcase_ok", extra_requires=ds.REQUIRES)
    for i in bad[:10]:
        src = st.cases[terms[i]]
        ctx.violation(f"declaration model and implementation disagree on {src}",
                      {"chain": src, "case": terms[i], "theorem_or_suite": "C10 correspondence (Declare.run)",
                       "expected": "outcome predicted by the model (see case term)"},
                      failing_input=False)
    ctx.coverage.update(
        evaluations=st.calls,
        distinct_nontrivial=len(terms),
        rule="call chains from every bare type over every refinement method with arguments from the boundary "
             "universe (valid, boundary, contradictory, wrongly typed incl. None/True/1.5/'x'/b'x'/[]/{}/.../Nil/-1/"
             f"2**70/nan/inf; all len forms): exhaustive to length {depth} (a state reached twice is expanded "
             "once), random continuations to length 4. Per call: exception class, receiver repr/props unchanged, "
             "validate(result, fixed value), re-declaration rejected; the call (receiver state, method, "
             "arguments, outcome) is compared with Declare.decl/run inside Coq. Distinct = distinct case terms.",
        samples=[{"chain": st.cases[t]} for t in terms[:3] + terms[len(terms) // 2: len(terms) // 2 + 3]],
        correspondence={"suite": "Declare.run vs implementation", "cases": len(terms),
                        "mismatches": len(bad), "unmodelled": st.unmodelled},
        oracle_cases=st.calls,
        distribution={"outcomes": st.outcomes, "fixed_value_checked": st.fixed_checked,
                      "redeclarations": st.redeclared, "f10_nan_cases": st.f10,
                      "calls_cumulative_by_type": st.per_kind, "unprintable_argument_probes": unprintable_probes},
    )


def replay(data):
    src = data["chain"]
    print("chain:", src)
    try:
        s = ds.ev(src)
        print("returned:", repr(s))
        has, v = ds.fixed_value(s)
        if has:
            print("fixed value:", repr(v), "->", ds.validate(s, v).get_errors())
    except Exception as e:  # noqa
        print("raised", type(e).__name__, e)
    print("expected:", data.get("expected"))
    return 0
