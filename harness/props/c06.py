"""C06 - repr(schema) is DSL source that rebuilds an equal schema."""
import ast
import datetime
import math
import uuid

import common
import declsuite as ds
import gen
from absn import KeyTable, Unmodelled, cbool, ckey, clist, cre, cschema, cstr, cvalue
from d42 import optional, represent, schema
from d42.declaration import DeclarationError, Schema
from d42.utils import make_required

PROPS_FILE = "props/C06.v"
MODEL_FILES = ["theories/Declare.v", "theories/Represent.v", "theories/CaseRepresent.v"]
EXTRA_TRUSTED = [
    "the text layer of repr is not modelled (repr of int/float/str/bytes/UUID/datetime literals, indentation, "
    "commas): the harness parses repr(S) with ast.parse, evaluates literal sub-expressions with Python, and "
    "compares the resulting call-chain tree with Represent.represent of the abstracted schema; the direct "
    "oracle evaluates the whole text on the implementation",
    "the normaliser ast -> expr term (harness/props/c06.py)",
]

REQUIRES = "Require Import D42.Declare D42.Represent D42.CaseRepresent."

# the names the property allows in the text
EVAL_NS = {"schema": schema, "optional": optional, "UUID": uuid.UUID, "datetime": datetime}
LIT_NS = {"UUID": uuid.UUID, "datetime": datetime}

# repr of a hashable dict key may use a builtin constructor (frozenset() is the only one met);
# eval() supplies builtins by itself, so this is not counted as a name outside the property's list
BUILTIN_LITERAL_NAMES = {"frozenset", "float"}     # builtins: present in every eval namespace

KINDS = {"none": "KdNone", "bool": "KdBool", "int": "KdInt", "float": "KdFloat", "str": "KdStr",
         "list": "KdList", "dict": "KdDict", "any": "KdAny", "bytes": "KdBytes", "uuid4": "KdUuid",
         "datetime": "KdDatetime", "date": "KdDate"}
METHODS = {"min", "max", "precision", "len", "alphabet", "contains", "regex"}


class NotDsl(Exception):
    """the text is not an expression of the DSL shape (reported as a violation)"""


class NonFinite(Exception):
    """a bare name inf / nan occurs where a literal is expected (F15)"""


def _literal(node, text):
    """value of a literal sub-expression (the unmodelled text layer)"""
    for n in ast.walk(node):
        if isinstance(n, ast.Name) and n.id in ("inf", "nan"):
            raise NonFinite(n.id)
        if isinstance(n, ast.Name) and n.id not in LIT_NS and n.id not in BUILTIN_LITERAL_NAMES:
            raise NotDsl(f"name {n.id!r} in a literal")
    seg = ast.get_source_segment(text, node)
    return eval(seg, dict(LIT_NS))


def _is_schema_expr(node):
    while True:
        if isinstance(node, ast.Call):
            node = node.func
        elif isinstance(node, ast.Attribute):
            if isinstance(node.value, ast.Name) and node.value.id == "schema":
                return True
            node = node.value
        else:
            return False


def norm(node, text, kt, as_pattern=False):
    """ast of repr text -> Coq term of type Represent.expr"""
    if isinstance(node, ast.Attribute) and isinstance(node.value, ast.Name) and node.value.id == "schema":
        if node.attr not in KINDS:
            raise NotDsl(f"schema.{node.attr}")
        return f"(EBase {KINDS[node.attr]})"
    if isinstance(node, ast.Call) and _is_schema_expr(node):
        if node.keywords:
            raise NotDsl("keyword argument")
        f = node.func
        if isinstance(f, ast.Attribute) and f.attr in METHODS and _is_schema_expr(f.value):
            recv, meth = norm(f.value, text, kt), f.attr
        else:
            recv, meth = norm(f, text, kt), "call"
        args = [norm(a, text, kt, as_pattern=(meth == "regex")) for a in node.args]
        return f"(EMeth {recv} {ds.METH[meth]} {clist(args)})"
    if isinstance(node, ast.List):
        return "(EListD " + clist([norm(e, text, kt) for e in node.elts]) + ")"
    if isinstance(node, ast.Dict):
        items = []
        for k, v in zip(node.keys, node.values):
            if k is None:
                raise NotDsl("dict unpacking")
            if isinstance(k, ast.Call) and isinstance(k.func, ast.Name) and k.func.id == "optional":
                if len(k.args) != 1 or k.keywords:
                    raise NotDsl("optional(...) arity")
                ks = f"(DOpt {ckey(_literal(k.args[0], text), kt)})"
            else:
                ks = f"(DKey {ckey(_literal(k, text), kt)})"
            items.append(f"({ks}, {norm(v, text, kt)})")
        return "(EDictD " + clist(items) + ")"
    v = _literal(node, text)
    if as_pattern and type(v) is str:
        return f"(EPat {cstr(v)} {cre(v)})"
    return f"(ELit {cvalue(v, kt)})"


# ------------------------------------------------------------------ classification (F15)
def _nonfinite(x):
    return isinstance(x, float) and (x != x or x in (math.inf, -math.inf))


def nonfinite_float_literal(s, depth=0, keys_only=False, nan_only=False):
    """a non-finite float occurs as a parameter or dict key anywhere in the schema
    (keys_only: only as - part of - a dict key; nan_only: only NaN parameters count)"""
    if depth > 40 or not isinstance(s, Schema):
        return False
    rec = lambda e: nonfinite_float_literal(e, depth + 1, keys_only, nan_only)   # noqa: E731
    for name in s.props:
        x = s.props.get(name)
        if _nonfinite(x) and not keys_only and (x != x or not nan_only):
            return True
        if isinstance(x, Schema) and rec(x):
            return True
        if isinstance(x, (list, tuple)) and any(rec(e) for e in x):
            return True
        if isinstance(x, dict):
            for k, p in x.items():
                if not nan_only and (_nonfinite(k) or (isinstance(k, tuple) and any(_nonfinite(c) for c in k))):
                    return True
                if isinstance(p, tuple) and rec(p[0]):
                    return True
    return False


# ------------------------------------------------------------------ schema sources
HASHABLE_KEYS = ["'k'", "0", "1", "-7", "True", "None", "b'k'", "''", "1.5", "(1, 2)", "()", "('a', (1, None))",
                 "(1,)", "('a',)", "('a', ('b',))", "((),)", "(None,)",
                 "2**70", "'\\n'", "'\"'", "frozenset()", "-0.5", "'é'"]

BOUNDARY = [s for s in gen.LEAF_SCHEMAS if "alias" not in s] + [
    # declarable although contradictory, declared in either order: the printed (canonical) order must be declarable too
    "schema.int.max(4).min(5)", "schema.int.min(5).max(4)", "schema.int.max(0).min(1)", "schema.float.max(1.0).min(2.0)",
    "schema.float.min(2.0).max(1.0)", "schema.float.max(-0.5).min(0.0).precision(2)", "schema.float.precision(2).max(0.0).min(0.5)",
    "schema.str.alphabet('ab').contains('ba')", "schema.str.contains('ba').alphabet('ab')", "schema.str.contains('z').alphabet('ab')",
    "schema.list(schema.int.max(4).min(5))", "schema.dict({'a': schema.float.max(1.0).min(2.0)})",
    "schema.str.len(0, 5)", "schema.str.len(0, 0)", "schema.str.len(0, ...)", "schema.str.len(..., 0)",
    "schema.list.len(0, ...)", "schema.list.len(..., 0)", "schema.list(schema.int).len(0, 3)", "schema.str.len(0)",
    "schema.list([]).len(0)", "schema.list([]).len(0, ...)", "schema.list([...]).len(2)", "schema.str.len(5, 2)",
    "schema.str('').alphabet('').contains('').len(0)", "schema.str('ab').regex('a')", "schema.str.regex('')",
    "schema.str.regex('\\\\d+\\'\"')", "schema.int(True).min(False).max(True)", "schema.int(-1).min(-2**70).max(2**70)",
    "schema.float(-0.0).min(-0.0).max(0.0).precision(15)", "schema.float.precision(True)", "schema.bool(False)",
    "schema.float(5e-324)", "schema.float(1e22)", "schema.float(0.1).min(float('-inf'))", "schema.float(float('nan'))",
    "schema.bytes(b'\\x00\\'')", "schema.str('a\\'b\"\\n')", "schema.dict({...: ..., 'id': schema.int})",
    "schema.dict({'id': schema.int, ...: ...}) + schema.dict({optional('name'): schema.str})",
    "schema.dict({...: ...}) + schema.dict({'id': schema.int})", "schema.dict + schema.dict",
    "schema.dict({'a': schema.int}) + schema.dict({optional('a'): schema.str, 'b': schema.none})",
    "schema.any(schema.any)", "schema.any(schema.any(schema.int, schema.any(schema.str)), schema.none)",
    "schema.any(schema.dict({'a': schema.list([schema.any(schema.int, schema.none)])}))",
    "schema.list([schema.list([schema.list([schema.list([schema.int(1), ...]).len(1, ...)])])])",
    "schema.dict({'a': schema.dict({'b': schema.dict({'c': schema.dict({optional('d'): schema.str.len(0, 1)})})})})",
    "schema.list(schema.list(schema.list(schema.dict({...: ...}))))", "schema.list([..., schema.int, ...]).len(1, 9)",
    "schema.datetime(datetime.datetime(2020, 1, 2, 5, 4, 5, tzinfo=datetime.timezone(datetime.timedelta(hours=2))))",
    "schema.date(datetime.datetime(2020, 1, 2, 3, 4, 5))", "schema.dict({float('inf'): schema.int})",
    # refinement chains with long arguments: however long the text gets, it stays ONE evaluable expression
    "schema.str.alphabet('abcdefghijklmnopqrstuvwxyzABCDEFGHIJKLMNOPQRSTUVWXYZ0123456789_-').contains('abcdefghijklmnopqrstuvwxyz').len(26, 1000)",
    "schema.str('abcdefghijklmnopqrstuvwxyz' * 4).alphabet('abcdefghijklmnopqrstuvwxyz').contains('xyzabc').len(104)",
    "schema.str.regex('^[a-z]{3}-[0-9]{4}-[A-Z]{2}-(?:alpha|beta|gamma|delta|epsilon|zeta|eta|theta)-[0-9a-f]{8}-[0-9a-f]{4}$')",
    "schema.float(123456.123456).min(-123456789.123456789).max(123456789.123456789).precision(6)", "schema.int(12345678901234567890).min(-12345678901234567890123456789).max(1234567890123456789012345678901234567890)",
    "schema.list(schema.str.alphabet('abcdefghijklmnopqrstuvwxyzABCDEFGHIJKLMNOPQRSTUVWXYZ').contains('abcdefghijklmnopqrstuvwxyz').len(26, 99)).len(1, 1000000)",
    "schema.bytes(b'0123456789abcdef' * 8)", "schema.list([schema.int(1), schema.int(2), schema.int(3), schema.int(4), schema.int(5), schema.int(6), schema.int(7), schema.int(8), schema.int(9), schema.int(10), schema.int(11), schema.int(12), schema.int(13), schema.int(14), schema.int(15), ...]).len(15, 1000)",
    # aware datetimes whose offset is not a whole number of hours, or not even of minutes
    "schema.datetime(datetime.datetime(2020, 1, 2, 3, 4, 5, tzinfo=datetime.timezone(datetime.timedelta(hours=5, minutes=30))))",
    "schema.datetime(datetime.datetime(2020, 1, 2, 3, 4, 5, tzinfo=datetime.timezone(datetime.timedelta(hours=-3, minutes=-30))))",
    "schema.datetime(datetime.datetime(1999, 12, 31, 23, 59, 59, 999999, tzinfo=datetime.timezone(datetime.timedelta(seconds=3723), 'X')))",
    "schema.list([schema.datetime(datetime.datetime(2020, 1, 2, tzinfo=datetime.timezone(datetime.timedelta(minutes=45)))), ...])",
    "schema.dict({'at': schema.datetime(datetime.datetime(2020, 1, 2, tzinfo=datetime.timezone(-datetime.timedelta(hours=9, minutes=30))))})",
    # empty element lists with every len form
    "schema.list([]).len(0, ...)", "schema.list([]).len(..., 3)", "schema.list([]).len(0, 4)", "schema.dict({'l': schema.list([]).len(0)})",
    # ints beyond the float range (but printable): int parameters are printed as ints, whatever floats can hold
    "schema.int(10**400)", "schema.int.min(-10**400).max(10**400)", "schema.int(-10**309).min(-10**310)",
    "schema.list([schema.int(10**400), ...]).len(1, 10**400)", "schema.dict({10**400: schema.int.max(2**1024)})",
    "schema.str.len(10**400)", "schema.str.len(0, 10**400)", "schema.list.len(2**1024, ...)", "schema.any(schema.int(2**1024), schema.float(1e308))",
]


def gen_sources(ctx, n, depth):
    r = ctx.rng
    out = list(BOUNDARY)
    for _ in range(n):
        c = r.random()
        if c < 0.55:
            src, _ = gen.gen_schema(r, r.randint(0, depth), {"no_alias": True})
        elif c < 0.7:       # dict with arbitrary hashable keys
            ks = r.sample(HASHABLE_KEYS, r.randint(1, 4))
            items = []
            for k in ks:
                inner, _ = gen.gen_schema(r, r.randint(0, max(0, depth - 1)), {"no_alias": True})
                items.append((f"optional({k})" if r.random() < 0.35 else k) + ": " + inner)
            if r.random() < 0.4:
                items.insert(r.randint(0, len(items)), "...: ...")
            src = "schema.dict({" + ", ".join(items) + "})"
        elif c < 0.85:      # d1 + d2
            a = _dict_src(r, depth)
            b = _dict_src(r, depth)
            src = f"({a} + {b})"
            if r.random() < 0.3:
                src = f"({src} + {_dict_src(r, depth)})"
        else:               # make_required
            a = _dict_src(r, depth)
            try:
                d = gen.build(a)
                keys = [k for k in d.keys() if k is not ...] if isinstance(d, Schema) else []
            except Exception:  # noqa
                keys = []
            if keys and r.random() < 0.6:
                sub = r.sample(keys, r.randint(0, len(keys)))
                src = f"make_required({a}, [{', '.join(repr(k) for k in sub)}])"
            else:
                src = f"make_required({a})"
        if r.random() < 0.12:
            # a chain of refinement calls in an arbitrary order (incl. contradictory bounds declared
            # max-before-min etc.): whatever the DSL lets through must print in a form it lets through
            kind = r.choice(list(ds.FOCUS) * 3 + [k for k in ds.OPS if ds.OPS[k]])
            pool = ds.FOCUS[kind][0] if (kind in ds.FOCUS and r.random() < 0.7) else ds.OPS[kind]
            src = f"schema.{kind}" + "".join(ds.call_src(m, a) for m, a in r.sample(pool, r.randint(1, 3)))
        if r.random() < 0.08:
            # ONE sub-schema object placed at two different depths (the text is per position)
            share = r.choice(["(lambda a: schema.dict({{'home': a, 'office': schema.dict({{'address': a}})}}))({})",
                              "(lambda a: schema.list([a, schema.list([a, ...])]))({})",
                              "(lambda a: schema.any(a, schema.list(a), schema.dict({{'k': schema.list([a])}})))({})",
                              "(lambda a: schema.dict({{'x': a}}) + schema.dict({{'y': schema.dict({{'z': a}})}}))({})",
                              "(lambda a: make_required(schema.dict({{optional('p'): a, 'q': schema.list([a])}})))({})"])
            src = share.format(src)
        if r.random() < 0.25:
            wrap = r.choice(["schema.list([{}, ...])", "schema.list({})", "schema.dict({{'w': {}}})",
                             "schema.any({}, schema.none)", "schema.list([..., {}]).len(1, ...)",
                             "schema.dict({{optional(('t', 1)): {}, ...: ...}})"])
            src = wrap.format(src)
        out.append(src)
    return out


def _dict_src(r, depth):
    for _ in range(20):
        names = r.sample(gen.KEYS, r.randint(0, 3))
        items = []
        for nm in names:
            inner, _ = gen.gen_schema(r, r.randint(0, max(0, depth - 1)), {"no_alias": True})
            items.append((f"optional({nm!r})" if r.random() < 0.4 else repr(nm)) + ": " + inner)
        if r.random() < 0.4:
            items.insert(r.randint(0, len(items)), "...: ...")
        if r.random() < 0.1 and not items:
            return "schema.dict"
        return "schema.dict({" + ", ".join(items) + "})"
    return "schema.dict"


NS = dict(gen.NS, make_required=make_required, re=__import__("re"))


def build(src):
    return eval(src, dict(NS))


# ------------------------------------------------------------------ classification (F43)
class _StrColor(str, __import__("enum").Enum):
    A = "a"


NS["_StrColor"] = _StrColor
_BUILTIN_REPRS = ((bool, bool.__repr__), (int, int.__repr__), (float, float.__repr__), (str, str.__repr__),
                  (bytes, bytes.__repr__))


def _own_repr(x):
    """x is an instance of a SUBCLASS of int/float/str/bytes that prints differently from the built-in
    (an enum member: <Color.RED: 1>)"""
    for base, base_repr in _BUILTIN_REPRS:
        if isinstance(x, base):
            return type(x) is not base and type(x).__repr__ is not base_repr
    return False


def own_repr_parameter(s, depth=0):
    """a parameter or dict key anywhere in the schema is such an instance"""
    if depth > 40 or not isinstance(s, Schema):
        return False
    for name in s.props:
        x = s.props.get(name)
        if _own_repr(x):
            return True
        if isinstance(x, Schema) and own_repr_parameter(x, depth + 1):
            return True
        if isinstance(x, (list, tuple)) and any(own_repr_parameter(e, depth + 1) for e in x):
            return True
        if isinstance(x, dict):
            for k, p in x.items():
                if _own_repr(k) or (isinstance(k, tuple) and any(_own_repr(c) for c in k)):
                    return True
                if isinstance(p, tuple) and own_repr_parameter(p[0], depth + 1):
                    return True
    return False


# parameters that are instances of subclasses of the built-in types: accepted by every declaration that accepts
# the built-in (isinstance), so the schemas are "declarable"; the first five print like the built-in value
SUBCLASS_PARAM_SOURCES = [
    "schema.int(_IntSub(7))", "schema.str(_StrSub('ab'))", "schema.float(_FloatSub(1.5))", "schema.str.len(_IntSub(2))",
    "schema.list([schema.int.min(_IntSub(1))]).len(_IntSub(1))",
    "schema.int(_IntColor.RED)", "schema.int.min(_IntColor.RED)", "schema.int.max(_IntColor.RED)",
    "schema.str(_StrColor.A)", "schema.str.contains(_StrColor.A)", "schema.str.len(_IntColor.RED)",
    "schema.list.len(_IntColor.RED, ...)", "schema.float.precision(_IntColor.RED)",
    "schema.list([schema.int(_IntColor.RED), ...])", "schema.dict({'k': schema.str(_StrColor.A)})",
    "schema.dict({_IntColor.RED: schema.int})", "schema.any(schema.int(_IntColor.RED), schema.none)",
]


# ------------------------------------------------------------------ the check
def oracle(ctx, src, s, stats):
    """direct oracle on the implementation; returns False when the case is settled"""
    rp = {"schema": src, "theorem_or_suite": "C06 direct oracle"}
    nonfinite = nonfinite_float_literal(s)
    try:
        text = repr(s)
        text2 = represent(s)
    except Exception as e:  # noqa
        rp.update(observed=f"repr raises {type(e).__name__}: {e}", expected="a text")
        ctx.violation(f"repr raises on {src}", rp)
        return None
    rp["repr"] = text
    if text != text2 or repr(s) != text:
        rp.update(observed="repr(S), represent(S) or a second repr(S) differ", expected="one deterministic text")
        ctx.violation(f"repr is not deterministic / differs from represent on {src}", rp)
        return None
    variants = [("repr(S)", text)]
    for ind in (3, 8):
        try:
            variants.append((f"represent(S, indent={ind})", represent(s, indent=ind)))
        except Exception as e:  # noqa
            rp.update(observed=f"represent(indent={ind}) raises {type(e).__name__}: {e}")
            ctx.violation(f"represent(indent={ind}) raises on {src}", rp)
            return None
    for label, t in variants:
        try:
            rebuilt = eval(t, dict(EVAL_NS))
            problem = None
            if not isinstance(rebuilt, Schema):
                problem = f"eval({label}) is a {type(rebuilt).__name__}"
            elif not (rebuilt == s and s == rebuilt):
                problem = f"eval({label}) != S   (rebuilt repr: {rebuilt!r})"
            elif repr(rebuilt) != text:
                problem = f"repr(eval({label})) = {rebuilt!r} differs from repr(S)"
        except Exception as e:  # noqa
            problem = f"eval({label}) raises {type(e).__name__}: {e}"
        if problem:
            # F15 (since its repair: only non-finite floats inside dict keys print as bare names);
            # a NaN parameter rebuilds fine but is unequal to itself (F10)
            if nonfinite_float_literal(s, keys_only=True) and ctx.known_finding("F15", src):
                stats["f15"] += 1
                return None
            if own_repr_parameter(s) and ctx.known_finding("F43", src):
                stats["f43"] = stats.get("f43", 0) + 1
                return None
            if nonfinite_float_literal(s, nan_only=True) and "!= S" in problem and ctx.known_finding("F10", src):
                stats["f10"] = stats.get("f10", 0) + 1
                return None
            rp.update(observed=problem, expected="eval(repr(S)) == S and repr(eval(repr(S))) == repr(S)")
            ctx.violation(f"repr does not round-trip: {src}", rp)
            return None
    return text


def probe_history(ctx):
    """The printed form is a function of the schema alone: the same schemas print identically before
    and after other representations - including ones that RAISE part-way (a nested int beyond
    CPython's int->str digit limit, a custom type whose __represent__ raises)."""
    from d42.custom_type import CustomSchema, Props
    from d42.representation import represent

    class Boom(CustomSchema[Props]):
        def __represent__(self, visitor, *, indent=0, **kwargs):
            raise RuntimeError("boom")

    r = ctx.rng
    srcs = ["schema.dict({'a': schema.list([schema.int, schema.str.len(2)]), 'b': schema.dict({'c': schema.any(schema.none, schema.list(schema.int))})})",
            "schema.list([schema.dict({'k': schema.list([schema.int(1), ...])}), ...])", "schema.any(schema.dict({'x': schema.int}), schema.list([schema.str]))"]
    for _ in range(ctx.scale(20, 200)):
        srcs.append(gen.gen_schema(r, 3, {"no_alias": True})[0])
    schemas = [build(x) for x in srcs]
    before = [(repr(s), represent(s, indent=4)) for s in schemas]
    failing = ["schema.list([schema.int(10**4310)])", "schema.dict({'a': schema.list([schema.dict({'b': schema.int.min(10**4310)})])})",
               "schema.list([schema.list([schema.list([schema.dict({'x': schema.int(-10**4400)})])])])"]
    raised = 0
    for fsrc in failing:
        try:
            repr(build(fsrc))
        except Exception:  # noqa
            raised += 1
    for wrap in (lambda b: schema.list([b]), lambda b: schema.dict({"a": schema.list([schema.dict({"b": b})])})):
        try:
            repr(wrap(Boom()))
        except Exception:  # noqa
            raised += 1
    for i, s in enumerate(schemas):
        now = (repr(s), represent(s, indent=4))
        if now != before[i]:
            ctx.violation("the printed form of a schema changed after other (failing) representations: " + srcs[i][:80],
                          {"kind": "history", "schema": srcs[i], "failing_representations_before": failing + ["<custom type whose __represent__ raises, nested>"],
                           "observed": now[0][:400], "expected": before[i][0][:400]})
            break
    return len(schemas), raised


def run(ctx):
    ds.extra_known(ctx)
    n = ctx.scale(2500, 30000)
    depth = ctx.scale(3, 4)
    stats = {"built": 0, "declaration_errors": 0, "f15": 0, "nonfinite_skipped_in_model": 0}
    terms, srcs = [], []
    unmodelled = 0
    seen = set()
    sizes = []
    for src in SUBCLASS_PARAM_SOURCES + list(gen_sources(ctx, n, depth)):
        try:
            s = build(src)
        except DeclarationError:
            stats["declaration_errors"] += 1
            continue
        if not isinstance(s, Schema):
            continue
        stats["built"] += 1
        text = oracle(ctx, src, s, stats)
        if text is None:
            if nonfinite_float_literal(s):
                stats["nonfinite_skipped_in_model"] += 1
            continue
        if text in seen:
            continue
        seen.add(text)
        sizes.append(text.count("schema."))
        # correspondence: the text, parsed, is the model's tree for the abstracted schema
        try:
            kt = KeyTable()
            st = cschema(s, kt)
            tree = ast.parse(text, mode="eval").body
            et = norm(tree, text, kt)
            terms.append(f"({st}, {et})")
            srcs.append((src, text))
        except Unmodelled:
            unmodelled += 1
        except (NotDsl, NonFinite, SyntaxError) as e:
            ctx.violation(f"repr text is not a DSL expression ({type(e).__name__}: {e}): {src}",
                          {"schema": src, "repr": text, "theorem_or_suite": "C06 correspondence (text shape)",
                           "expected": "an expression over schema / optional / UUID / datetime"})
    stats["history_probe_schemas"], stats["history_probe_failing_reprs"] = probe_history(ctx)
    bad = common.eval_cases(ctx.workdir, "c06", terms, "rcase", "rcase_ok", extra_requires=REQUIRES)
    for i in bad[:10]:
        src, text = srcs[i]
        ctx.violation(f"repr text differs from the model's represent (or the model does not round-trip): {src}",
                      {"schema": src, "repr": text, "case": terms[i],
                       "theorem_or_suite": "C06 correspondence (Represent.represent / eval / dsl_inv)",
                       "expected": "ast of repr(S) == represent S, dsl_inv S, eval (represent S) = S in the model"},
                      failing_input=False)
    ctx.coverage.update(
        evaluations=stats["built"],
        distinct_nontrivial=len(seen),
        rule="schemas built through the public DSL from source text: boundary list (every type, every len form incl. "
             f"0 bounds, empty containers, markers first/middle/last, escapes), random schemas (nesting <= {depth}, "
             "gen.gen_schema without aliases), dicts with arbitrary hashable keys (tuples, bytes, None, bool, floats, "
             "frozenset), results of + (2 and 3 operands) and make_required (all / subset of keys), each optionally "
             "wrapped once more. Oracle on the implementation: repr deterministic and == represent(S); "
             "eval(text) == S both ways and repr(eval(text)) == text for repr(S) and represent(S, indent=3|8), in the "
             "namespace {schema, optional, UUID, datetime}. Correspondence: ast.parse(repr(S)) normalised to a "
             "call-chain tree == Represent.represent(abstracted S), dsl_inv(S), model eval round-trips. "
             "Distinct = distinct repr texts.",
        samples=[{"schema": a, "repr": b} for a, b in srcs[:2] + srcs[len(srcs) // 2: len(srcs) // 2 + 2]],
        correspondence={"suite": "ast(repr(S)) vs Represent.represent; dsl_inv; model round-trip",
                        "cases": len(terms), "mismatches": len(bad), "unmodelled": unmodelled},
        oracle_cases=stats["built"],
        distribution=dict(stats, max_schema_nodes=max(sizes or [0]),
                          mean_schema_nodes=round(sum(sizes) / max(1, len(sizes)), 2)),
    )


def replay(data):
    s = build(data["schema"])
    text = repr(s)
    print("schema:", data["schema"])
    print("repr  :", text)
    try:
        rebuilt = eval(text, dict(EVAL_NS))
        print("eval(repr) == S:", rebuilt == s, "| repr stable:", repr(rebuilt) == text)
    except Exception as e:  # noqa
        print("eval(repr) raises", type(e).__name__, e)
    print("expected:", data.get("expected"))
    return 0
