"""C15 - schema equality is structural; `schema == value` means the value validates.

Families of schemas: a generated schema (also results of +, |, make_required, %), an
independent rebuild of it from the same source text, EVERY kind of single-parameter variant
(each prop of each type changed / dropped / added / stored as an explicit Nil, one element /
key / alternative dropped, added or replaced, a `...` marker or an optionality flag
toggled, key order, 1 vs True, 0.0 vs -0.0, alias name/target) at every nesting level, a few
strangers of other classes, and fixed seed families with the shapes of the known findings.
Every member is built by evaluating its own source text, so two members never share a
parameterised sub-object (CPython's list/tuple/dict comparison takes `is` before `==`);
the comparison of one object with itself is a separate case of the model.

Correspondence (Coq model SchemaEq.v, evaluated by vm_compute inside coqc):
  s1 == s2, s2 == s1, s1 != s2, s2 != s1   vs  schema_eqb / schema_neb
  s == s (same object)                        vs  schema_eqb_self
  s == v, s != v for non-schema v            vs  schema_eq_value / schema_ne_value (verdict)
Direct oracle on the implementation, independent of the model: reflexive, symmetric, != is
the negation, rebuild equal, transitive on every triple of a family, equal members have
identical verdicts on the probe set (= a variant some probe discriminates is unequal),
s == v iff validate(s, v) reports nothing.
"""
import collections
import datetime
import math
import uuid

from niltype import Nil

import absn
import common
import gen
from absn import Unmodelled

from d42 import optional, schema, substitute
from d42.custom_type import CustomSchema, Props
from d42.declaration import Schema
from d42.declaration import types as T
from d42.utils import make_required
from d42.validation import validate

PROPS_FILE = "props/C15.v"
MODEL_FILES = ["theories/SchemaEq.v"]
EXTRA_TRUSTED = [
    "C15: CPython 3.12 rich comparison as described in theories/SchemaEq.v (reflected method when the "
    "right operand's class is a proper subclass or the left one returns NotImplemented; list/tuple/dict "
    "member-wise `==` with the identity shortcut; dict equality by key lookup) - modelled, tied by the "
    "correspondence on every run",
    "C15: the forwarding custom type used for SCustom is defined in harness/props/c15.py (FwdSchema)",
    "C15: every compared schema is built by evaluating its own source text (no shared parameterised "
    "sub-objects between the two operands); same-object comparison is the separate model function "
    "schema_eqb_self",
]


# ------------------------------------------------------------------ forwarding custom type
class FwdProps(Props):
    @property
    def inner(self):
        return self.get("inner")


class FwdSchema(CustomSchema[FwdProps], absn.Fwd):
    def __call__(self, inner):
        return self.__class__(self.props.update(inner=inner))

    def __validate__(self, visitor, *, value=Nil, path=Nil, **kwargs):
        return self.props.inner.__accept__(visitor, value=value, path=path, **kwargs)

    def __represent__(self, visitor, *, indent=0, **kwargs):
        return "fwd(" + self.props.inner.__accept__(visitor, indent=indent, **kwargs) + ")"


fwd = FwdSchema()

NS = dict(gen.NS)
NS.update({n: getattr(T, n) for n in T.__all__})
NS.update(FwdSchema=FwdSchema, FwdProps=FwdProps, fwd=fwd, substitute=substitute,
          make_required=make_required)


def build(src):
    return eval(src, dict(NS))


# ------------------------------------------------------------------ source text of any schema object
def registry(s):
    return [(k, s.props.get(k)) for k in s.props]


def val_src(v):
    if isinstance(v, Schema):
        return src_of(v)
    if v is ...:
        return "..."
    if v is Nil:
        return "Nil"
    if type(v) is list:
        return "[" + ", ".join(val_src(x) for x in v) + "]"
    if type(v) is tuple:
        return "(" + ", ".join(val_src(x) for x in v) + ("," if len(v) == 1 else "") + ")"
    if type(v) is dict:
        return "{" + ", ".join(f"{gen.vsrc(k)}: {val_src(x)}" for k, x in v.items()) + "}"
    return gen.vsrc(v)


def src_of(s):
    """Constructor-level source text (public classes) that rebuilds s with the same registry,
    key order and explicit Nils included."""
    items = ", ".join(f"{k!r}: {val_src(v)}" for k, v in registry(s))
    return f"{type(s).__name__}({type(s.props).__name__}({{{items}}}))"


def mk(s, reg):
    return type(s)(type(s.props)(dict(reg)))


def setp(s, name, val):
    reg = dict(registry(s))
    reg[name] = val
    return mk(s, reg.items())


def delp(s, name):
    return mk(s, [(k, v) for k, v in registry(s) if k != name])


# ------------------------------------------------------------------ sub-schema positions
def children(s):
    """(path step, child schema) for every schema directly inside s."""
    out = []
    for name, v in registry(s):
        if isinstance(v, Schema):
            out.append(((name,), v))
        elif type(v) in (list, tuple):
            for i, x in enumerate(v):
                if isinstance(x, Schema):
                    out.append(((name, i), x))
        elif type(v) is dict:
            for k, pair in v.items():
                if isinstance(pair, tuple) and isinstance(pair[0], Schema):
                    out.append(((name, k), pair[0]))
    return out


def replace_child(s, step, new):
    name = step[0]
    v = s.props.get(name)
    if len(step) == 1:
        return setp(s, name, new)
    if type(v) is list:
        w = list(v)
        w[step[1]] = new
        return setp(s, name, w)
    if type(v) is tuple:
        w = list(v)
        w[step[1]] = new
        return setp(s, name, tuple(w))
    w = dict(v)
    w[step[1]] = (new, v[step[1]][1])
    return setp(s, name, w)


def nodes(s, depth=0):
    """(lift, node): lift(new_node) rebuilds the whole schema with the node replaced."""
    yield (lambda x: x), s, depth
    if depth > 8:
        return
    for step, ch in children(s):
        for lift, node, d in nodes(ch, depth + 1):
            yield (lambda x, step=step, lift=lift: replace_child(s, step, lift(x))), node, d


# ------------------------------------------------------------------ classifiers (by input shape)
def has_nan(s, depth=0):
    """Some float parameter of the schema (at any depth) is NaN (reported in replays; NaN
    parameters get no special treatment: two NaN parameters are the same declaration)."""
    if depth > 40:
        return False
    for _, v in registry(s):
        if isinstance(v, float) and v != v:
            return True
    return any(has_nan(ch, depth + 1) for _, ch in children(s))


def universal(s, depth=0):
    """The schema validates the `...` / Nil marker: an untyped any, an any with such an
    alternative, an alias or forwarding custom type of one."""
    if depth > 40:
        return False
    if type(s) is T.AnySchema:
        ts = s.props.get("types")
        return ts is Nil or any(universal(t, depth + 1) for t in ts)
    if isinstance(s, T.GenericTypeAliasSchema):
        t = s.props.get("type")
        return isinstance(t, Schema) and universal(t, depth + 1)
    if isinstance(s, FwdSchema):
        t = s.props.get("inner")
        return isinstance(t, Schema) and universal(t, depth + 1)
    return False


def _faces(x, y, depth):
    xs, ys = isinstance(x, Schema), isinstance(y, Schema)
    if xs and ys:
        return marker_faces(x, y, depth + 1)
    if xs and (y is ... or y is Nil):
        return universal(x)
    if ys and (x is ... or x is Nil):
        return universal(y)
    return False


def marker_faces(a, b, depth=0):
    """F19: at some aligned position a marker (`...`, or an absent/Nil prop) on one side
    faces a sub-schema on the other side that validates the marker."""
    if depth > 40 or type(a) is not type(b):
        return False
    names = list(dict.fromkeys([k for k in a.props] + [k for k in b.props]))
    for name in names:
        x, y = a.props.get(name), b.props.get(name)
        if type(x) in (list, tuple) and type(y) is type(x):
            if len(x) == len(y) and any(_faces(u, w, depth) for u, w in zip(x, y)):
                return True
        elif type(x) is dict and type(y) is dict:
            for k, pair in x.items():
                if k in y and isinstance(pair, tuple) and isinstance(y[k], tuple):
                    if _faces(pair[0], y[k][0], depth):
                        return True
        elif _faces(x, y, depth):
            return True
    return False


# ------------------------------------------------------------------ single-parameter variants
POOL_SRC = ["schema.any", "schema.alias('x', schema.any)", "schema.int", "schema.str('a')", "schema.none",
            "schema.any(schema.int, schema.any)", "fwd(schema.any)", "schema.list([...])", "schema.float",
            "schema.any(schema.none)", "fwd(schema.int)", "schema.dict", "schema.bool(True)"]
MARKER_POOL_SRC = ["schema.any", "schema.alias('x', schema.any)", "fwd(schema.any)",
                   "schema.any(schema.str, schema.any)"]

ADDABLE = {
    "IntSchema": [("value", 3), ("min", 0), ("max", 10)],
    "FloatSchema": [("value", 1.5), ("min", 0.5), ("max", 9.5), ("precision", 2)],
    "StrSchema": [("value", "ab"), ("len", 2), ("min_len", 1), ("max_len", 5), ("alphabet", "ab"),
                  ("substr", "a"), ("pattern", "a.c")],
    "ListSchema": [("len", 2), ("min_len", 1), ("max_len", 4)],
    "BoolSchema": [("value", True)],
    "BytesSchema": [("value", b"x")],
    "UUID4Schema": [("value", gen.UUIDS[1])],
    "DateTimeSchema": [("value", gen.DATETIMES[0])],
    "DateSchema": [("value", gen.DATES[0])],
    "NoneSchema": [],
    "DictSchema": [],
    "AnySchema": [],
}
MANDATORY = {("TypeAliasSchema", "name"), ("TypeAliasSchema", "type"), ("FwdSchema", "inner")}


def elements_ok(es):
    n = len(es)
    for i, e in enumerate(es):
        if e is ... and i not in (0, n - 1):
            return False
    return not (n == 2 and es[0] is ... and es[1] is ...)


def _int_edits(name, v):
    out = []
    if name in ("len", "min_len", "max_len"):
        out = [v + 1] + ([v - 1] if v > 0 else [])
    elif name == "precision":
        out = ([v + 1] if v < 15 else []) + ([v - 1] if v > 1 else [])
    else:
        out = [v + 1, v - 1]
    if isinstance(v, bool):
        out.append(int(v))                       # True -> 1: equal
    elif v in (0, 1) and name != "precision":
        out.append(bool(v))                      # 1 -> True: equal
    return [x for x in out if not (name == "precision" and isinstance(x, bool))]


def _float_edits(v):
    if v != v:
        return [1.0, math.nan]
    if v in (math.inf, -math.inf):
        return [-v, 1e308]
    out = [math.nextafter(v, math.inf), v + 1.0, math.nan]
    out.append(-v)                               # 0.0 -> -0.0: equal
    if v != 0.0:
        # constants inside / just outside each other's isclose band: still different declarations
        out += [v * (1 + 5e-10), v * (1 + 1.4e-9)]
    return out


def _str_edits(name, v):
    if name == "pattern":
        return [p for p, _, _ in gen.PATTERNS if p != v][:2]
    return [v + "a"] + ([v[:-1]] if v else [])


def _scalar_edits(cls, name, v):
    if isinstance(v, bool) and cls == "BoolSchema":
        return [not v]
    if isinstance(v, int):
        return _int_edits(name, v)
    if isinstance(v, float):
        return _float_edits(v)
    if isinstance(v, str):
        return _str_edits(name, v)
    if isinstance(v, bytes):
        return [v + b"x"]
    if isinstance(v, uuid.UUID):
        return [u for u in gen.UUIDS if u != v][:1]
    if isinstance(v, datetime.datetime):
        out = [v + datetime.timedelta(microseconds=1)]
        out.append(v.replace(tzinfo=datetime.timezone.utc) if v.tzinfo is None else v.replace(tzinfo=None))
        if cls == "DateSchema":
            out.append(v.date())
        return out
    if isinstance(v, datetime.date):
        return [v + datetime.timedelta(days=1), datetime.datetime(v.year, v.month, v.day)]
    return []


def local_variants(r, s, pool, mpool):
    """(label, variant) for every single-parameter change of the node s itself."""
    cls = type(s).__name__
    out = []
    reg = registry(s)
    present = {k for k, _ in reg}
    for name, v in reg:
        if v is Nil:
            out.append((f"{name}:drop-stored-Nil", delp(s, name)))
            continue
        if (cls, name) not in MANDATORY:
            out.append((f"{name}:drop", delp(s, name)))
        if isinstance(v, Schema):
            for q in r.sample(pool, 2) + r.sample(mpool, 1):
                out.append((f"{name}:replace", setp(s, name, q)))
        elif type(v) is list:                                         # elements
            n = len(v)
            for i in range(n):
                w = v[:i] + v[i + 1:]
                if elements_ok(w):
                    out.append(("elements:drop-one", setp(s, name, w)))
                if v[i] is not ...:
                    for q in r.sample(pool, 1) + r.sample(mpool, 1):
                        out.append(("elements:replace-one", setp(s, name, v[:i] + [q] + v[i + 1:])))
                    w = v[:i] + [...] + v[i + 1:]
                    if elements_ok(w):
                        out.append(("elements:element->marker", setp(s, name, w)))
                else:
                    for q in mpool[:2] + r.sample(pool, 1):
                        out.append(("elements:marker->element", setp(s, name, v[:i] + [q] + v[i + 1:])))
            q = r.choice(pool)
            if n and v[-1] is ...:
                out.append(("elements:add-one", setp(s, name, v[:-1] + [q, ...])))
            else:
                out.append(("elements:add-one", setp(s, name, v + [q])))
            for w in ([...] + v if not (n and v[0] is ...) else v[1:],
                      v + [...] if not (n and v[-1] is ...) else v[:-1]):
                if elements_ok(w):
                    out.append(("elements:toggle-marker", setp(s, name, w)))
        elif type(v) is tuple:                                        # types
            n = len(v)
            for i in range(n):
                if n > 1:
                    out.append(("types:drop-one", setp(s, name, v[:i] + v[i + 1:])))
                for q in r.sample(pool, 1) + r.sample(mpool, 1):
                    out.append(("types:replace-one", setp(s, name, v[:i] + (q,) + v[i + 1:])))
            out.append(("types:add-one", setp(s, name, v + (r.choice(pool),))))
            if n > 1:
                out.append(("types:swap", setp(s, name, (v[-1],) + v[1:-1] + (v[0],))))
        elif type(v) is dict:                                         # keys
            for k, (val, opt) in list(v.items()):
                w = dict(v)
                del w[k]
                out.append(("keys:toggle-relaxed" if k is ... else "keys:drop-one", setp(s, name, w)))
                if k is ...:
                    continue
                out.append(("keys:toggle-optional", setp(s, name, {**v, k: (val, not opt)})))
                for q in r.sample(pool, 1) + r.sample(mpool, 1):
                    out.append(("keys:replace-one", setp(s, name, {**v, k: (q, opt)})))
                if type(k) is int and k in (0, 1):
                    out.append(("keys:1->True", setp(s, name, {(bool(k) if kk == k else kk): vv
                                                                for kk, vv in v.items()})))
            if ... not in v:
                out.append(("keys:toggle-relaxed", setp(s, name, {**v, ...: (..., False)})))
            out.append(("keys:add-one", setp(s, name, {**v, "zz": (r.choice(pool), r.random() < 0.3)})))
            if len(v) > 1:
                out.append(("keys:reorder", setp(s, name, dict(reversed(list(v.items()))))))
        else:
            for x in _scalar_edits(cls, name, v):
                out.append((f"{name}:change", setp(s, name, x)))
    for name, sample in ADDABLE.get(cls, []):
        if name not in present:
            out.append((f"{name}:add", setp(s, name, sample)))
            out.append((f"{name}:store-Nil", setp(s, name, Nil)))
    if cls == "ListSchema" and "elements" not in present and "type" not in present:
        out.append(("type:add", setp(s, "type", r.choice(pool))))
        out.append(("type:add", setp(s, "type", r.choice(mpool))))
        out.append(("elements:add", setp(s, "elements", [r.choice(pool)])))
        out.append(("type:store-Nil", setp(s, "type", Nil)))
        out.append(("elements:store-Nil", setp(s, "elements", Nil)))
    if cls == "ListSchema" and "elements" in present and "type" not in present:
        out.append(("type:store-Nil", setp(s, "type", Nil)))
    if cls == "DictSchema" and "keys" not in present:
        out.append(("keys:add", setp(s, "keys", {})))
        out.append(("keys:store-Nil", setp(s, "keys", Nil)))
    if cls == "AnySchema" and "types" not in present:
        out.append(("types:add", setp(s, "types", (r.choice(pool),))))
        out.append(("types:store-Nil", setp(s, "types", Nil)))
    return out


def all_variants(r, s, pool, mpool, cap):
    """Single-parameter variants at every nesting level, sampled down to cap but keeping at
    least one of every kind of edit that occurs."""
    found = []
    for lift, node, d in nodes(s):
        for label, var in local_variants(r, node, pool, mpool):
            try:
                found.append((label + (f"@{d}" if d else ""), lift(var)))
            except Exception:  # noqa
                continue
    if len(found) <= cap:
        return found
    r.shuffle(found)
    keep, seen, rest = [], set(), []
    for item in found:
        kind = item[0].split("@")[0]
        if kind not in seen:
            seen.add(kind)
            keep.append(item)
        else:
            rest.append(item)
    return (keep + rest)[:max(cap, len(keep))]


# ------------------------------------------------------------------ families
SEED_FAMILIES = [
    # F19 shapes: a marker facing a schema that validates it
    ["schema.list([schema.any])", "schema.list([...])", "schema.list([schema.alias('x', schema.any)])",
     "schema.list([fwd(schema.any)])", "schema.list([schema.int])", "schema.list([schema.any(schema.int, schema.any)])"],
    ["schema.list(schema.any)", "schema.list", "schema.list(schema.alias('x', schema.any))", "schema.list(schema.int)",
     "schema.list(fwd(schema.any))"],
    ["schema.list([schema.any, schema.int])", "schema.list([..., schema.int])", "schema.list([schema.int, schema.any])",
     "schema.list([schema.int, ...])", "schema.list([schema.alias('x', schema.any), schema.int])"],
    ["schema.dict({'a': schema.list([schema.any, schema.int, ...])})", "schema.dict({'a': schema.list([..., schema.int, ...])})",
     "schema.dict({'a': schema.list([schema.any(schema.any), schema.int, ...])})"],
    # NaN parameters directly, under schema-valued props, inside containers (must behave like any other)
    ["schema.float(float('nan'))", "schema.float.min(float('nan'))", "schema.float(1.0)",
     "schema.list(schema.float(float('nan')))", "schema.list([schema.float(float('nan'))])",
     "schema.dict({'a': schema.float.max(float('nan'))})", "schema.any(schema.float(float('nan')))",
     "schema.alias('n', schema.float(float('nan')))", "fwd(schema.float(float('nan')))",
     "schema.list([schema.list(schema.float(float('nan')))])", "schema.float.max(float('nan'))",
     "schema.float(float('nan')).precision(2)", "schema.float.min(float('nan')).max(float('nan'))", "schema.float"],
    # equal although written differently
    ["schema.float(0.0)", "schema.float(-0.0)", "schema.float.min(0.0).max(-0.0)", "schema.float.min(-0.0).max(0.0)",
     "schema.float(0.0).precision(2)", "schema.float(-0.0).precision(2)"],
    ["schema.int(1)", "schema.int(True)", "schema.int(0)", "schema.int(False)", "schema.int.min(1).max(True)",
     "schema.int.min(True).max(1)", "schema.bool(True)", "schema.str.len(1)", "schema.str.len(True)",
     "schema.str.len(1, 1)"],
    ["schema.dict({'a': schema.int, 'b': schema.str})", "schema.dict({'b': schema.str, 'a': schema.int})",
     "schema.dict({1: schema.int})", "schema.dict({True: schema.int})", "schema.dict({1.0: schema.int})",
     "schema.dict({'a': schema.int, optional('b'): schema.str})", "schema.dict({'a': schema.int, 'b': schema.str, ...: ...})",
     "schema.dict({})", "schema.dict", "schema.dict({...: ...})"],
    # classes
    ["schema.any", "schema.int", "schema.any(schema.int)", "schema.alias('x', schema.any)", "schema.alias('y', schema.any)",
     "schema.alias('x', schema.int)", "fwd(schema.any)", "fwd(schema.int)", "schema.none", "schema.date", "schema.datetime",
     "schema.list", "schema.dict", "schema.str", "schema.bytes", "schema.bool", "schema.float", "schema.uuid4"],
    ["schema.date(datetime.date(2020, 1, 2))", "schema.date(datetime.datetime(2020, 1, 2))",
     "schema.date(datetime.datetime(2020, 1, 2, 0, 0, 0, 1))",
     "schema.datetime(datetime.datetime(2020, 1, 2, 3, 4, 5, tzinfo=datetime.timezone.utc))",
     "schema.datetime(datetime.datetime(2020, 1, 2, 5, 4, 5, tzinfo=datetime.timezone(datetime.timedelta(hours=2))))",
     "schema.datetime(datetime.datetime(2020, 1, 2, 3, 4, 5))"],
    # stored Nil vs absent
    ["substitute(schema.list(schema.int), [1, 2])", "schema.list([schema.int(1), schema.int(2)])",
     "ListSchema(ListProps({'elements': [schema.int(1), schema.int(2)], 'type': Nil, 'len': Nil}))",
     "schema.list([schema.int(1), schema.int(2)]).len(2)"],
]


def gen_base(r, depth):
    """Source text of a base schema: a generated schema or the result of +, |, make_required, %."""
    c = r.random()
    try:
        if c < 0.62:
            return gen.gen_schema(r, r.randint(0, depth))[0]
        if c < 0.70:
            a, _ = gen.gen_schema(r, r.randint(0, depth - 1))
            b, _ = gen.gen_schema(r, r.randint(0, depth - 1))
            src = f"({a}) | ({b})"
        elif c < 0.80:
            parts = []
            for _ in range(2):
                names = r.sample(gen.KEYS[:6], r.randint(0, 3))
                items = [(f"optional({nm!r})" if r.random() < 0.4 else repr(nm)) + ": " +
                         gen.gen_schema(r, r.randint(0, depth - 1))[0] for nm in names]
                if r.random() < 0.3:
                    items.append("...: ...")
                parts.append("schema.dict({" + ", ".join(items) + "})" if r.random() < 0.9 else "schema.dict")
            src = f"({parts[0]}) + ({parts[1]})"
            if r.random() < 0.5:
                src = f"make_required({src})"
        elif c < 0.88:
            names = r.sample(gen.KEYS[:6], r.randint(1, 3))
            items = [f"optional({nm!r}): " + gen.gen_schema(r, r.randint(0, depth - 1))[0] for nm in names]
            src = "make_required(schema.dict({" + ", ".join(items) + "}), [" + repr(names[0]) + "])"
        else:
            a, s = gen.gen_schema(r, r.randint(0, depth), {"no_alias": True})
            v = gen.conform(r, s)
            src = f"substitute({a}, {gen.vsrc(v)})"
        build(src)
        return src
    except Exception:  # noqa  (DeclarationError, SubstitutionError, unreplayable value ...)
        return gen.gen_schema(r, r.randint(0, depth))[0]


class Member:
    __slots__ = ("src", "obj", "label", "kt_ok")

    def __init__(self, src, obj, label):
        self.src, self.obj, self.label = src, obj, label


def make_family(r, base_src, cap, pool, mpool, strangers):
    fam = [Member(base_src, build(base_src), "base"), Member(base_src, build(base_src), "rebuild")]
    for label, var in all_variants(r, fam[0].obj, pool, mpool, cap):
        try:
            src = src_of(var)
            fam.append(Member(src, build(src), label))
        except Exception:  # noqa
            continue
    for src in strangers:
        fam.append(Member(src, build(src), "stranger"))
    return fam


def safe(fn):
    try:
        return fn()
    except Exception as e:  # noqa
        return e


def accepts(s, v):
    return not validate(s, v).has_errors()


def probes_for(r, fam, n_members, limit):
    out = []
    for m in [fam[0]] + r.sample(fam[2:], min(n_members, len(fam) - 2)):
        try:
            v = gen.conform(r, m.obj)
        except Exception:  # noqa
            continue
        out.append(v)
        out += gen.perturbations(r, v, limit=6)
    out += r.sample(gen.UNRELATED, 6)
    out += [z for _, z in r.sample(gen.ZOO, 2)]
    out += [..., Nil, [], [1]]
    if len(out) > limit:
        out = out[:3] + r.sample(out[3:], limit - 3)
    return [v for v in out if not isinstance(v, Schema)]


# ------------------------------------------------------------------ the check
def probe_user_subclasses(ctx):
    """Schemas of user-defined subclasses of the built-in schema classes (outside the model's
    universe): == returns a bool, != is its negation, == is reflexive and symmetric, in every pairing
    of a derived instance with a base instance."""
    from d42.declaration.types import DictSchema, FloatSchema, IntSchema, ListSchema, StrSchema

    class PortSchema(IntSchema):
        pass

    class RatioSchema(FloatSchema):
        pass

    class NameSchema(StrSchema):
        pass

    class RowSchema(DictSchema):
        pass

    class TagsSchema(ListSchema):
        pass

    from d42 import schema
    fams = [
        (PortSchema, schema.int, [lambda s: s, lambda s: s.min(1), lambda s: s(5), lambda s: s.min(1).max(9)]),
        (RatioSchema, schema.float, [lambda s: s, lambda s: s.min(0.5), lambda s: s(1.5).precision(1)]),
        (NameSchema, schema.str, [lambda s: s, lambda s: s.len(2), lambda s: s("ab"), lambda s: s.alphabet("ab")]),
        (RowSchema, schema.dict, [lambda s: s, lambda s: s({"a": schema.int}), lambda s: s({"a": schema.int, ...: ...})]),
        (TagsSchema, schema.list, [lambda s: s, lambda s: s(schema.int), lambda s: s([schema.int, ...]).len(1, 3)]),
    ]
    n = 0
    for cls, base0, builds in fams:
        insts = [(f"{cls.__name__}{i}", b(cls())) for i, b in enumerate(builds)] + \
                [(f"base{i}", b(base0)) for i, b in enumerate(builds)]
        for na, a in insts:
            for nb, b in insts:
                n += 1
                try:
                    e, ne = (a == b), (a != b)
                except Exception as ex:  # noqa
                    ctx.violation(f"== / != between a user subclass instance and a base instance raises {type(ex).__name__}",
                                  {"kind": "input", "left": na, "right": nb, "class": cls.__name__, "observed": repr(ex)})
                    return n
                bad = None
                if not isinstance(e, bool) or not isinstance(ne, bool):
                    bad = f"== returned {e!r}, != returned {ne!r} (not booleans)"
                elif ne != (not e):
                    bad = f"== is {e} but != is {ne}"
                elif a is b and not e:
                    bad = "s == s is False"
                else:
                    try:
                        e2 = (b == a)
                    except Exception as ex:  # noqa
                        e2 = repr(ex)
                    if e2 != e:
                        bad = f"a == b is {e} but b == a is {e2}"
                if bad:
                    ctx.violation("equality laws fail for a user-defined subclass of a schema class: " + bad,
                                  {"kind": "input", "left": f"{na} ({type(a).__name__}, {a!r})",
                                   "right": f"{nb} ({type(b).__name__}, {b!r})", "observed": bad,
                                   "expected": "booleans, != the negation of ==, s == s"})
                    return n
    return n


def run(ctx):
    r = ctx.rng
    depth = ctx.scale(3, 5)
    n_fam = ctx.scale(170, 1800)
    cap = ctx.scale(22, 60)
    probe_limit = ctx.scale(26, 48)
    pair_budget = ctx.scale(5200, 48000)
    value_budget = ctx.scale(2000, 16000)
    pool = [build(x) for x in POOL_SRC]
    mpool = [build(x) for x in MARKER_POOL_SRC]

    stats = collections.Counter()
    labels = collections.Counter()
    pair_cases, self_cases, value_cases = [], [], []     # (term, replay dict)
    unmodelled = collections.Counter()
    samples = []
    oracle = 0

    def report(kind, what, members, fid_shape, value=Nil, observed=None, expected=None):
        """fid_shape: None, or "F19" when the input has the shape of that finding."""
        rp = {"kind": "input", "check": kind, "schemas": [m.src for m in members],
              "labels": [m.label for m in members], "observed": observed, "expected": expected,
              "theorem_or_suite": "C15 direct oracle: " + kind}
        if value is not Nil or kind.startswith("value"):
            rp["value"] = gen.vsrc(value)
        if fid_shape:
            example = f"{kind}: " + " ; ".join(m.src for m in members)
            if ctx.known_finding(fid_shape, example[:400]):
                stats["known:" + fid_shape] += 1
                return
        stats["violations"] += 1
        if stats["violations"] <= 40:
            ctx.violation(what, rp)

    def term_pair(a, b, e12, e21, n12, n21):
        kt = absn.KeyTable()
        return (f"(EqPair {absn.cschema(a.obj, kt)} {absn.cschema(b.obj, kt)} {absn.cbool(e12)} "
                f"{absn.cbool(e21)} {absn.cbool(n12)} {absn.cbool(n21)})")

    families = [("seed", [Member(s, build(s), "seed") for s in fam]) for fam in SEED_FAMILIES]
    for i in range(n_fam):
        base_src = gen_base(r, depth)
        strangers = [gen.gen_schema(r, r.randint(0, 2))[0], r.choice(POOL_SRC)]
        families.append(("gen", make_family(r, base_src, cap, pool, mpool, strangers)))

    for origin, fam in families:
        n = len(fam)
        stats["families"] += 1
        stats["members"] += n
        for m in fam:
            labels[m.label.split("@")[0]] += 1
        E = [[safe(lambda a=a, b=b: a.obj == b.obj) for b in fam] for a in fam]
        NE = [[safe(lambda a=a, b=b: a.obj != b.obj) for b in fam] for a in fam]
        nan = [has_nan(m.obj) for m in fam]
        raised = False
        for i in range(n):
            for j in range(n):
                oracle += 1
                if not isinstance(E[i][j], bool) or not isinstance(NE[i][j], bool):
                    raised = True
                    report("total", f"schema == schema did not return a bool: {E[i][j]!r} / {NE[i][j]!r}",
                           [fam[i], fam[j]], None, observed=common.srepr((E[i][j], NE[i][j])), expected="two bools")
        if raised:
            continue
        # reflexive (one object), != is the negation, symmetric
        for i in range(n):
            if E[i][i] is not True:
                report("reflexive", "s == s is False", [fam[i]], None,
                       observed="s == s -> False", expected="True")
            for j in range(n):
                if NE[i][j] != (not E[i][j]):
                    report("ne-negation", "s1 != s2 is not the negation of s1 == s2", [fam[i], fam[j]], None,
                           observed=f"== {E[i][j]}, != {NE[i][j]}", expected="!= is not ==")
                if i < j and E[i][j] != E[j][i]:
                    report("symmetric", "s1 == s2 differs from s2 == s1", [fam[i], fam[j]], None,
                           observed=f"s1 == s2 -> {E[i][j]}, s2 == s1 -> {E[j][i]}", expected="the same answer")
        # independent rebuild of every member
        for i in range(n):
            fresh = build(fam[i].src)
            ab, ba = safe(lambda: fam[i].obj == fresh), safe(lambda: fresh == fam[i].obj)
            oracle += 2
            stats["rebuild_pairs"] += 1
            if ab is not True or ba is not True:
                report("rebuild", "two builds of one declaration are unequal", [fam[i], fam[i]],
                       None, observed=f"{ab!r} / {ba!r}", expected="True both ways")
        # transitive
        eqs = [[j for j in range(n) if j != i and E[i][j]] for i in range(n)]
        for i in range(n):
            for j in eqs[i]:
                for k in eqs[j]:
                    if k == i:
                        continue
                    oracle += 1
                    stats["transitivity_triples"] += 1
                    if not E[i][k]:
                        trio = [fam[i], fam[j], fam[k]]
                        shape = None
                        if (marker_faces(fam[i].obj, fam[j].obj) or marker_faces(fam[j].obj, fam[k].obj)
                                or marker_faces(fam[i].obj, fam[k].obj)):
                            shape = "F19"
                        report("transitive", "s1 == s2 and s2 == s3 but s1 != s3", trio, shape,
                               observed="s1 == s2, s2 == s3, not s1 == s3", expected="s1 == s3")
        # equal members accept the same values; a discriminated variant is unequal
        probes = probes_for(r, fam, 3, probe_limit)
        V = []
        for m in fam:
            row = []
            for v in probes:
                row.append(safe(lambda: accepts(m.obj, v)))
            V.append(row)
        oracle += n * len(probes)
        for i in range(n):
            for j in range(i + 1, n):
                diff = [p for p in range(len(probes)) if V[i][p] is not V[j][p]]
                if diff:
                    stats["discriminated_pairs"] += 1
                    if fam[i].label == "base" and fam[j].label not in ("rebuild", "stranger"):
                        stats["discriminated_variants"] += 1
                if E[i][j]:
                    stats["equal_pairs"] += 1
                    if fam[i].label == "base" and fam[j].label not in ("rebuild", "stranger", "base"):
                        stats["equal_variants"] += 1
                if diff and (E[i][j] or E[j][i]):
                    shape = "F19" if marker_faces(fam[i].obj, fam[j].obj) else None
                    report("same-verdicts", "equal schemas give different verdicts (a discriminated variant is equal)",
                           [fam[i], fam[j]], shape, value=probes[diff[0]],
                           observed=f"s1 == s2 -> {E[i][j]}; validate: {V[i][diff[0]]!r} vs {V[j][diff[0]]!r}",
                           expected="unequal, or the same verdict")
        # s == v  iff  validate(s, v) has no errors; v == s is the reflected call
        picks = [0] + r.sample(range(2, n), min(3, n - 2)) if n > 2 else list(range(n))
        for i in picks:
            for p, v in enumerate(probes):
                ev, nv = safe(lambda: fam[i].obj == v), safe(lambda: fam[i].obj != v)
                oracle += 1
                ok = ev is V[i][p] and isinstance(ev, bool) and nv is (not ev)
                if ok and type(v) in (type(None), bool, int, float, str, bytes, list, dict, type(...)):
                    rv = safe(lambda: v == fam[i].obj)
                    ok = rv is ev
                if not ok:
                    report("value-eq", "schema == value differs from `value validates`", [fam[i]], None, value=v,
                           observed=f"== {ev!r}, != {nv!r}, validate accepts: {V[i][p]!r}", expected="== iff no errors")
                if isinstance(ev, bool) and isinstance(nv, bool):
                    try:
                        kt = absn.KeyTable()
                        t = (f"(EqValue {absn.cschema(fam[i].obj, kt)} {absn.cvalue(v, kt)} "
                             f"{absn.cbool(ev)} {absn.cbool(nv)})")
                        value_cases.append((t, {"check": "value-eq", "schemas": [fam[i].src], "value": gen.vsrc(v),
                                                "observed": f"== {ev}, != {nv}"}))
                    except Unmodelled as u:
                        unmodelled[str(u)[:40]] += 1
        # correspondence cases: base vs everything, a sample of the other pairs, every self
        want = set()
        for j in range(1, n):
            want.add((0, j))
        others = [(i, j) for i in range(1, n) for j in range(i + 1, n)]
        for ij in r.sample(others, min(len(others), n if origin == "gen" else len(others))):
            want.add(ij)
        for i, j in sorted(want):
            try:
                pair_cases.append((term_pair(fam[i], fam[j], E[i][j], E[j][i], NE[i][j], NE[j][i]),
                                   {"check": "pair", "schemas": [fam[i].src, fam[j].src],
                                    "observed": f"== {E[i][j]}/{E[j][i]}, != {NE[i][j]}/{NE[j][i]}"}))
            except Unmodelled as u:
                unmodelled[str(u)[:40]] += 1
        for i in range(n):
            if origin == "seed" or i == 0 or nan[i] or r.random() < 0.15:
                try:
                    kt = absn.KeyTable()
                    self_cases.append((f"(EqSelf {absn.cschema(fam[i].obj, kt)} {absn.cbool(E[i][i])} {absn.cbool(NE[i][i])})",
                                       {"check": "self", "schemas": [fam[i].src], "observed": f"== {E[i][i]}"}))
                except Unmodelled as u:
                    unmodelled[str(u)[:40]] += 1
        if len(samples) < 6 and origin == "gen" and n > 4:
            j = r.randrange(2, n)
            samples.append({"s1": fam[0].src, "s2": fam[j].src, "edit": fam[j].label, "s1 == s2": E[0][j],
                            "probe verdicts differ": any(V[0][p] is not V[j][p] for p in range(len(probes)))})

    # keep the correspondence inside its budget (seed families first, then a seeded sample)
    def trim(cases, budget):
        if len(cases) <= budget:
            return cases
        head = cases[:budget // 4]
        return head + r.sample(cases[budget // 4:], budget - len(head))
    n_pairs_all, n_values_all = len(pair_cases), len(value_cases)
    pair_cases = trim(pair_cases, pair_budget)
    value_cases = trim(value_cases, value_budget)
    self_cases = trim(self_cases, ctx.scale(500, 4000))
    all_cases = pair_cases + self_cases + value_cases
    bad = common.eval_cases(ctx.workdir, "c15", [t for t, _ in all_cases], "eqcase", "eqcase_ok",
                            extra_requires="Require Import D42.SchemaEq.")
    for i in bad[:12]:
        t, rp = all_cases[i]
        rp = dict(rp)
        rp.update(kind="input", expected="the model's answer (schema_eqb / schema_eqb_self / verdict) differs",
                  theorem_or_suite="C15 correspondence with theories/SchemaEq.v", model_term=t[:1500])
        ctx.violation("== / != on the implementation differs from the structural model (" + rp["check"] + ")", rp,
                      failing_input=False)

    distinct = len({t for t, _ in all_cases})
    stats["user_subclass_pairs"] = probe_user_subclasses(ctx)
    ctx.coverage.update(
        evaluations=oracle,
        distinct_nontrivial=distinct,
        rule="families: a schema from the seeded DSL generator (nesting <= %d; also results of |, +, make_required, %%), "
             "its independent rebuild, single-parameter variants at every nesting level (every prop changed/dropped/"
             "added/stored as Nil; one element/key/alternative dropped, added, replaced; `...` markers, optional flags, "
             "relaxed entry toggled; key order; 1/True; 0.0/-0.0), strangers, and %d fixed seed families with the shapes "
             "of F19 and NaN parameters. All ordered pairs and all triples inside a family go through the direct oracle (reflexive, "
             "symmetric, != negation, rebuild, transitive, same verdicts on the probe set, s == v iff validates). "
             "Correspondence: base-vs-member pairs plus a sample of the others, same-object cases, (schema, value) "
             "cases; distinct by canonical Coq term." % (depth, len(SEED_FAMILIES)),
        samples=samples,
        correspondence={"suite": "schema_eqb/schema_neb both directions, schema_eqb_self, schema_eq_value",
                        "cases": len(all_cases), "pairs": len(pair_cases), "self": len(self_cases),
                        "values": len(value_cases), "pairs_generated": n_pairs_all, "values_generated": n_values_all,
                        "mismatches": len(bad), "unmodelled": sum(unmodelled.values()),
                        "unmodelled_reasons": dict(unmodelled)},
        oracle_cases=oracle,
        distribution={**{k: v for k, v in stats.items()}, "edit_kinds": dict(labels)},
    )


# ------------------------------------------------------------------ replay
def replay(data):
    srcs = data.get("schemas", [])
    objs = [build(s) for s in srcs]
    for i, s in enumerate(srcs):
        print(f"s{i + 1} = {s}")
    print("check:", data.get("check"), "| recorded:", data.get("observed"), "| expected:", data.get("expected"))
    for i, a in enumerate(objs):
        print(f"s{i + 1} == s{i + 1} (same object): {safe(lambda: a == a)!r}; "
              f"against a rebuild: {safe(lambda: a == build(srcs[i]))!r}; NaN parameter: {has_nan(a)}")
        for j, b in enumerate(objs):
            if i != j:
                print(f"s{i + 1} == s{j + 1}: {safe(lambda: a == b)!r}   s{i + 1} != s{j + 1}: {safe(lambda: a != b)!r}"
                      f"   marker faces accepting schema: {marker_faces(a, b)}")
    if "value" in data:
        v = eval(data["value"], dict(NS))
        for i, a in enumerate(objs):
            print(f"s{i + 1} == value: {safe(lambda: a == v)!r}; s{i + 1} != value: {safe(lambda: a != v)!r}; "
                  f"validate errors: {safe(lambda: validate(a, v).get_errors())!r}")
    return 0
