"""C05 - substitution only narrows a schema, never widens it."""
import common
import gen
import ssuite

PROPS_FILE = "props/C05.v"
MODEL_FILES = ["theories/Substitute.v", "theories/CaseSubst.v"]
EXTRA_TRUSTED = ["plain values only (no `...`/Nil placeholders, no opaque objects), as the property says"]


def run(ctx):
    n = ctx.scale(220, 4000)
    depth = ctx.scale(3, 5)
    cases = ssuite.make_cases(ctx, n, depth, plain_only=True)
    # values that spell a declared key as optional(key) - the DECLARATION's spelling used in a value: whatever
    # the substitutor makes of it, a result must still refine S (a required key stays required)
    from d42 import optional
    extra = []
    seen = set()
    for c in cases:
        if c.origin not in ("conform", "partial", "twins") or c.ssrc in seen:
            continue
        pos = [p for p in gen.positions(c.value) if type(gen.at(c.value, p)) is dict and gen.at(c.value, p)
               and all(type(k) is str for k in gen.at(c.value, p))]
        if not pos:
            continue
        seen.add(c.ssrc)
        for p in pos[:3]:
            d = gen.at(c.value, p)
            k0 = sorted(d)[0]
            for variant in ({(optional(k) if k == k0 else k): x for k, x in d.items()},
                            {optional(k): x for k, x in d.items()},
                            {optional(k0): d[k0]}):
                c2 = ssuite.SCase()
                c2.ssrc, c2.schema, c2.origin, c2.unmodelled = c.ssrc, c.schema, "optional-key", None
                c2.value = gen.replace_at(c.value, p, variant)
                extra.append(c2)
    cases = cases + extra
    ok_cases = 0
    probes = 0
    dist = {}
    samples = []
    chained = []
    chain_budget = ctx.scale(150, 3000)
    for c in cases:
        ssuite.observe(c)
        if c.origin == "optional-key":
            # the model's values have no `optional` objects among their keys: these cases are decided by the
            # refinement oracle on /repo alone, not by the correspondence
            c.term, c.unmodelled = None, None
        dist["outcome:" + c.outcome] = dist.get("outcome:" + c.outcome, 0) + 1
        dist["origin:" + c.origin] = dist.get("origin:" + c.origin, 0) + 1
        if c.outcome != "ok":
            continue
        ok_cases += 1
        for origin, w in ssuite.third_values(ctx, c, limit=ctx.scale(8, 16)):
            probes += 1
            try:
                a2 = ssuite.accepts(c.result, w)
                a1 = ssuite.accepts(c.schema, w)
            except Exception as e:  # noqa
                continue        # a raising validator is C08's concern
            dist["probe:" + origin] = dist.get("probe:" + origin, 0) + 1
            if a2:
                dist["probe-accepted-by-result"] = dist.get("probe-accepted-by-result", 0) + 1
            if a2 and not a1:
                rp = c.replay_dict()
                rp.update(w=gen.vsrc(w), observed="S % v accepts w, S rejects w", expected="S accepts w")
                ctx.violation("substitution widened the schema", rp)
        # chained substitution (theorem subst_chain_narrows): (S % v) % v2 refines S % v and S
        if isinstance(c.value, (list, dict)) and chain_budget > 0 and ctx.rng.random() < 0.3:
            for origin2, v2 in chain_values(ctx, c):
                chain_budget -= 1
                c2 = ssuite.SCase()
                c2.ssrc = "substitute(%s, %s)" % (c.ssrc, c.vsrc())
                c2.schema, c2.value, c2.origin, c2.unmodelled = c.result, v2, "chain-" + origin2, None
                ssuite.observe(c2)
                chained.append(c2)
                dist["chain:" + c2.outcome] = dist.get("chain:" + c2.outcome, 0) + 1
                if c2.outcome != "ok":
                    continue
                for origin, w in ssuite.third_values(ctx, c2, limit=ctx.scale(4, 8)):
                    probes += 1
                    try:
                        a3 = ssuite.accepts(c2.result, w)
                        a2 = ssuite.accepts(c.result, w)
                        a1 = ssuite.accepts(c.schema, w)
                    except Exception as e:  # noqa
                        continue
                    dist["chain-probe:" + origin] = dist.get("chain-probe:" + origin, 0) + 1
                    if a3 and not (a2 and a1):
                        rp = c2.replay_dict()
                        rp.update(w=gen.vsrc(w), first_schema=c.ssrc, first_value=c.vsrc(),
                                  observed="(S %% v) %% v2 accepts w, %s rejects w" % ("S % v" if not a2 else "S"),
                                  expected="every schema earlier in the chain accepts w")
                        ctx.violation("chained substitution widened the schema", rp)
        if len(samples) < 4 and isinstance(c.value, (list, dict)) and c.value:
            samples.append({"schema": c.ssrc, "value": c.vsrc(), "result": common.srepr(c.result).replace("\n", " ")[:160]})
    for c in ssuite.bad_results(cases)[:5]:
        rp = c.replay_dict()
        rp.update(observed="substitute returned a schema with ill-typed props: " + c.unmodelled[:300],
                  expected="a schema the DSL can build", theorem_or_suite="substitute correspondence")
        ctx.violation("substitute returned an ill-formed schema object", rp)
    for c in ssuite.bad_results(chained)[:5]:
        rp = c.replay_dict()
        rp.update(observed="substitute returned a schema with ill-typed props: " + c.unmodelled[:300],
                  expected="a schema the DSL can build", theorem_or_suite="substitute correspondence (chained)")
        ctx.violation("substitute returned an ill-formed schema object", rp)
    modelled = [c for c in cases + chained if c.term is not None]
    bad = common.eval_cases(ctx.workdir, "c05", [c.term for c in modelled], "subcase", "subcase_ok",
                            extra_requires="Require Import D42.FromNative D42.Substitute D42.CaseSubst.")
    for i in bad[:10]:
        c = modelled[i]
        rp = c.replay_dict()
        rp.update(observed=c.outcome + (": " + common.srepr(c.result).replace("\n", " ")[:300] if c.result is not None else ""),
                  expected="the model's substitute result (theorem subst_narrows is about that result)",
                  theorem_or_suite="C05 correspondence: substitute")
        ctx.violation("substitute result differs from the model's", rp, failing_input=False)
    ctx.coverage.update(
        evaluations=len(cases) + probes,
        distinct_nontrivial=len({c.term for c in modelled if c.outcome == "ok" and isinstance(c.value, (list, dict))}),
        rule="(schema, plain value) pairs: schemas through the public DSL (nesting <= %d), values = conforming, partial "
             "dicts at every depth, one-step perturbations, unrelated; for every successful S %% v third values w "
             "(v, values generated from S %% v under min/max/random tapes, perturbations of v and of generated values, "
             "values conforming to S): validate(S %% v, w) ok must imply validate(S, w) ok. Correspondence: structure of "
             "the substituted schema / exception class vs the model. Chained substitution (theorem subst_chain_narrows): for "
             "about a third of the successful container substitutions, second values v2 (v again, values generated from S %% v "
             "and partial forms of them, perturbations of v) are substituted into the RESULT; (S %% v) %% v2 must refine both "
             "S %% v and S on its own third values, and the second step is compared with the model like the first. distinct_nontrivial = distinct successful "
             "substitutions of container values." % depth,
        samples=samples,
        correspondence={"suite": "substitute", "cases": len(modelled), "mismatches": len(bad),
                        "unmodelled": len(cases) + len(chained) - len(modelled), "chained_cases": len(chained)},
        oracle_cases=ok_cases, probes=probes, distribution=dist,
    )


def chain_values(ctx, c):
    """second values for (S % v) % v2: v again, values generated from S % v (they fill what v left open),
    conforming values of S % v with optional members dropped, one-step perturbations of v"""
    import pyspec
    r = ctx.rng
    out = [("same", c.value)]
    for good, g, _t in ssuite.gen_values(ctx, c.result, modes=("rand",)):
        if good:
            out.append(("generated", g))
            out += [("partial-generated", p) for p in ssuite.partials(r, g, limit=2)]
    out += [("perturbed", p) for p in gen.perturbations(r, c.value, limit=2)]
    return [(o, v) for o, v in out if pyspec.is_plain(v)][:5]


def replay(data):
    from d42 import substitute, validate
    s = gen.build(data["schema"])
    v = eval(data["value"], dict(gen.NS))
    try:
        s2 = substitute(s, v)
    except Exception as e:  # noqa
        print("substitute raised", repr(e))
        return 0
    print("S % v =", repr(s2))
    if "w" in data:
        w = eval(data["w"], dict(gen.NS))
        print("validate(S % v, w):", validate(s2, w).get_errors())
        print("validate(S, w):", validate(s, w).get_errors())
    return 0
