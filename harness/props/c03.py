"""C03 - every validation error is true and points at the offending sub-value."""
import copy
import datetime
import math
import re
import uuid

import common
import gen
import vsuite

PROPS_FILE = "props/C03.v"
MODEL_FILES = ["theories/Validate.v", "theories/Format.v"]


def _resolve(root, path):
    cur = root
    for op in path:
        cur = op(cur)
    return cur


def _same(a, b):
    if a is b:
        return True
    try:
        return type(a) is type(b) and (a == b or (a != a and b != b))
    except Exception:
        return False


def _path_text(operands):
    return "_" + "".join(f"[{k!r}]" for k in operands)


def _fact(e, validator):
    """Re-evaluate in plain Python the fact the error states about e.actual_value."""
    n = type(e).__name__
    a = e.actual_value
    if n == "TypeValidationError":
        return not isinstance(a, e.expected_type)
    if n == "ValueValidationError":
        return bool(a != e.expected_value)
    if n == "MinValueValidationError":
        return bool(a < e.min_value)
    if n == "MaxValueValidationError":
        return bool(a > e.max_value)
    if n == "LengthValidationError":
        return len(a) != e.length
    if n == "MinLengthValidationError":
        return len(a) < e.min_length
    if n == "MaxLengthValidationError":
        return len(a) > e.max_length
    if n == "AlphabetValidationError":
        return isinstance(a, str) and any(ch not in e.alphabet for ch in a)
    if n == "SubstrValidationError":
        return isinstance(a, str) and e.substr not in a
    if n == "RegexValidationError":
        return isinstance(a, str) and re.search(e.pattern, a) is None
    if n == "MissingElementValidationError":
        return isinstance(a, list) and not (0 <= e.index < len(a))
    if n == "ExtraElementValidationError":
        return isinstance(a, list) and 0 <= e.index < len(a)
    if n == "MissingKeyValidationError":
        return isinstance(a, dict) and e.missing_key not in a
    if n == "ExtraKeyValidationError":
        return isinstance(a, dict) and e.extra_key in a
    if n == "SchemaMismatchValidationError":
        return all(t.__accept__(validator, value=a).has_errors() for t in e.expected_schemas)
    if n == "InvalidUUIDVersionValidationError":
        return isinstance(a, uuid.UUID) and a.version == e.actual_version and a.version != 4
    return False


def oracle(c, ctx, fmt, validator):
    """Direct check of the property on the implementation's own error list."""
    bad = []
    for e in c.errors:
        operands = [op.operand for op in e.path]
        before = list(operands)
        try:
            reached = _resolve(c.value, e.path)
            located = _same(reached, e.actual_value)
        except Exception as ex:  # noqa
            located = False
            reached = f"<{type(ex).__name__}>"
        if not located:
            bad.append(f"{type(e).__name__}: path {_path_text(operands)} reaches {reached!r}, "
                       f"error reports {e.actual_value!r}")
            continue
        try:
            if not _fact(e, validator):
                bad.append(f"{type(e).__name__} at {_path_text(operands)}: stated fact is false of {e.actual_value!r}")
                continue
        except Exception as ex:  # noqa
            bad.append(f"{type(e).__name__}: fact not evaluable ({type(ex).__name__})")
            continue
        msg1 = e.format(fmt)
        msg2 = e.format(fmt)
        after = [op.operand for op in e.path]
        n = type(e).__name__
        if n == "MissingKeyValidationError":
            want = f"Key {_path_text(before + [e.missing_key])} does not exist"
            named = want in msg1
        elif n == "MissingElementValidationError":
            want = f"Element {_path_text(before + [e.index])} does not exist"
            named = want in msg1
        elif before:
            want = " at " + _path_text(before)
            named = want in msg1
        else:
            want = "(no ' at ' fragment for the root)"
            named = " at _" not in msg1
        if not named:
            bad.append(f"{n}: message {msg1!r} does not name the path ({want})")
        elif msg1 != msg2 or after != before:
            bad.append(f"{n}: rendering is not repeatable / changes the error's path: {msg1!r} then {msg2!r}")
    return bad


def run(ctx):
    from d42.validation import Formatter, Validator
    from d42.substitution import SubstitutorValidator
    n = ctx.scale(260, 5000)
    depth = ctx.scale(3, 5)
    cases = vsuite.make_cases(ctx, n, depth, zoo_rate=0.15, perturb=ctx.scale(10, 16))
    # the partial validator shares the paths (d42/substitution/_validator.py)
    cases += vsuite.make_cases(ctx, n // 4, depth, zoo_rate=0.1, perturb=6, modes=("Subst",))
    fmt = Formatter()
    vals = {"Plain": Validator(), "Subst": SubstitutorValidator()}
    oracle_cases = 0
    nested_errors = 0
    for c in cases:
        vsuite.observe(c)
        if c.obs_kind != "ok":
            continue
        oracle_cases += 1
        nested_errors += sum(1 for e in c.errors if len(e.path) >= 1)
        probs = oracle(c, ctx, fmt, vals[c.mode])
        for pr in probs[:1]:
            rp = c.replay_dict()
            rp.update(observed=pr, expected="path resolves to the reported value, fact true, message names the path")
            ctx.violation(pr, rp)
    modelled = [c for c in cases if c.term is not None]
    bad = common.eval_cases(ctx.workdir, "c03", [c.term for c in modelled], "vcase", "vcase_ok")
    dist, kinds = vsuite.distribution(cases)
    ctx.coverage.update(
        evaluations=len(cases),
        distinct_nontrivial=vsuite.distinct_nontrivial(cases),
        rule="(schema, value) pairs as for C02, both validators; non-trivial = rejected/raised/container value, "
             "distinct by canonical Coq term. Correspondence: the whole ordered error list (kind, path, actual value, "
             "parameter) vs the model. Oracle on the implementation: th-path resolves to actual_value, the stated "
             "fact re-evaluated in Python, message names the path, rendering repeatable.",
        samples=[{"schema": c.ssrc, "value": c.vsrc(),
                  "errors": [(type(e).__name__, [op.operand for op in e.path]) for e in (c.errors or [])]}
                 for c in [x for x in modelled if x.errors and any(len(e.path) > 1 for e in x.errors)][:5]],
        correspondence={"suite": "validate error lists", "cases": len(modelled), "mismatches": len(bad),
                        "unmodelled": len(cases) - len(modelled)},
        oracle_cases=oracle_cases, errors_below_root=nested_errors, distribution=dist, error_kinds=kinds,
    )
    already = {id(rp) for _, rp, _ in ctx.violations}
    for i in bad[:10]:
        c = modelled[i]
        rp = c.replay_dict()
        rp.update(observed=[(type(e).__name__, [op.operand for op in e.path], repr(e.actual_value)[:80])
                            for e in (c.errors or [])] if c.obs_kind == "ok" else f"raised {type(c.exc).__name__}",
                  expected="the model's error list (theorem errors_located_true is about that list)",
                  theorem_or_suite="C03 correspondence: validate error lists")
        ctx.violation("error list differs from the model's", rp, failing_input=False)


def replay(data):
    from d42.validation import Formatter, Validator
    from d42.substitution import SubstitutorValidator
    s = gen.build(data["schema"])
    v = eval(data["value"], dict(gen.NS))
    validator = Validator() if data.get("mode", "Plain") == "Plain" else SubstitutorValidator()
    res = s.__accept__(validator, value=v)
    fmt = Formatter()
    for e in res.get_errors():
        print(type(e).__name__, [op.operand for op in e.path], repr(e.actual_value), "|", e.format(fmt))
    print("expected:", data.get("expected"))
    return 0
