"""C03 - every validation error is true and points at the offending sub-value."""
import copy
import datetime
import math
import re
import uuid

import common
import gen
import vsuite

PROPS_FILE = "props/C03.v"
MODEL_FILES = ["theories/Validate.v", "theories/Format.v"]


def _resolve(root, path):
    cur = root
    for op in path:
        cur = op(cur)
    return cur


def _same(a, b):
    if a is b:
        return True
    try:
        return type(a) is type(b) and (a == b or (a != a and b != b))
    except Exception:
        return False


def _path_text(operands):
    return "_" + "".join(f"[{k!r}]" for k in operands)


def _fact(e, validator):
    """Re-evaluate in plain Python the fact the error states about e.actual_value."""
    n = type(e).__name__
    a = e.actual_value
    if n == "TypeValidationError":
        return not isinstance(a, e.expected_type)
    if n == "ValueValidationError":
        return bool(a != e.expected_value)
    if n == "MinValueValidationError":
        return bool(a < e.min_value)
    if n == "MaxValueValidationError":
        return bool(a > e.max_value)
    if n == "LengthValidationError":
        return len(a) != e.length
    if n == "MinLengthValidationError":
        return len(a) < e.min_length
    if n == "MaxLengthValidationError":
        return len(a) > e.max_length
    if n == "AlphabetValidationError":
        return isinstance(a, str) and any(ch not in e.alphabet for ch in a)
    if n == "SubstrValidationError":
        return isinstance(a, str) and e.substr not in a
    if n == "RegexValidationError":
        return isinstance(a, str) and re.search(e.pattern, a) is None
    if n == "MissingElementValidationError":
        return isinstance(a, list) and not (0 <= e.index < len(a))
    if n == "ExtraElementValidationError":
        return isinstance(a, list) and 0 <= e.index < len(a)
    if n == "MissingKeyValidationError":
        return isinstance(a, dict) and e.missing_key not in a
    if n == "ExtraKeyValidationError":
        return isinstance(a, dict) and e.extra_key in a
    if n == "SchemaMismatchValidationError":
        return all(t.__accept__(validator, value=a).has_errors() for t in e.expected_schemas)
    if n == "InvalidUUIDVersionValidationError":
        return isinstance(a, uuid.UUID) and a.version == e.actual_version and a.version != 4
    return False


def probe_identity_keys(ctx):
    """Dict keys that hash by identity (plain objects, e.g. enum-less sentinels): the path of an
    error below such a key must still be followable from the root value.  Outside the model's value
    universe (keys are abstracted by equality), so this is a direct probe."""
    from d42 import schema, validate

    class K:
        def __repr__(self):
            return "K()"

    k1, k2 = K(), K()
    probes = [
        ("schema.dict({k: schema.dict({'a': schema.int})})", schema.dict({k1: schema.dict({"a": schema.int})}), {k1: {"a": "x"}}),
        ("schema.dict({k: schema.list([schema.int])})", schema.dict({k1: schema.list([schema.int])}), {k1: ["x"]}),
        ("schema.dict({k: schema.int})", schema.dict({k1: schema.int}), {k1: "x"}),
        ("schema.dict({'o': schema.dict({k: schema.dict({'a': schema.str})})})",
         schema.dict({"o": schema.dict({k2: schema.dict({"a": schema.str})})}), {"o": {k2: {"a": 1}}}),
    ]
    n = 0
    for src, s, v in probes:
        for e in validate(s, v).get_errors():
            n += 1
            try:
                reached = _resolve(v, e.path)
                ok = _same(reached, e.actual_value)
                why = f"path reaches {reached!r}, error reports {e.actual_value!r}"
            except Exception as ex:  # noqa
                ok, why = False, f"following the path raises {type(ex).__name__}"
            if not ok:
                ex_ = f"validate({src}, <value with the same key object>): {why}"
                if len(e.path) >= 2 and ctx.known_finding("F35", ex_):
                    continue
                ctx.violation("an error below a dict key that hashes by identity cannot be located: " + why,
                              {"kind": "input", "schema": src, "observed": why,
                               "expected": "the path resolves to the reported sub-value"})
    return n


def probe_unprintable_keys(ctx):
    """Errors located at or below a dict key that repr() cannot print (an int beyond the int -> str digit limit): the
    message still names the error's whole path - every printable step, and the missing key / index of a
    "does not exist" error as its last step."""
    from d42 import schema, validate
    from d42.validation import Formatter
    big = 10 ** 5000
    fmt = Formatter("root")
    cases = [
        (schema.dict({big: schema.dict({"name": schema.str, "id": schema.int})}), {big: {"id": 1}}, ["root[", "['name']"]),
        (schema.dict({big: schema.list([schema.int, schema.str])}), {big: [1]}, ["root[", "[1]"]),
        (schema.dict({"o": schema.dict({big: schema.dict({"a": schema.dict({"b": schema.int})})})}), {"o": {big: {"a": {"b": "x"}}}}, ["root['o'][", "['a']['b']"]),
        (schema.dict({big: schema.dict({"k": schema.list(schema.int)})}), {big: {"k": [1, "x"]}}, ["root[", "['k'][1]"]),
        (schema.dict({"a": schema.dict({big: schema.int, "z": schema.int})}), {"a": {big: 1}}, ["root['a']['z']"]),
        (schema.dict({big: schema.dict({big: schema.int, "q": schema.int})}), {big: {big: 1}}, ["root[", "['q']"]),
    ]
    n = 0
    for s, v, want in cases:
        for e in validate(s, v).get_errors():
            n += 1
            try:
                text = e.format(fmt)
            except Exception as ex:  # noqa
                text = f"<format raised {type(ex).__name__}>"
            missing = [w for w in want if w not in text]
            if missing:
                ctx.violation("the message of an error below a key that repr() cannot print does not name the error's path",
                              {"kind": "input", "schema": "a dict schema declaring the key 10**5000 (see the case list of probe_unprintable_keys)",
                               "observed": text[:300], "expected": f"a message containing {want}"})
                return n
    return n


def oracle(c, ctx, fmt, validator):
    """Direct check of the property on the implementation's own error list."""
    bad = []
    for e in c.errors:
        operands = [op.operand for op in e.path]
        before = list(operands)
        try:
            reached = _resolve(c.value, e.path)
            located = _same(reached, e.actual_value)
        except Exception as ex:  # noqa
            located = False
            reached = f"<{type(ex).__name__}>"
        if not located:
            bad.append(f"{type(e).__name__}: path {_path_text(operands)} reaches {reached!r}, "
                       f"error reports {e.actual_value!r}")
            continue
        try:
            if not _fact(e, validator):
                bad.append(f"{type(e).__name__} at {_path_text(operands)}: stated fact is false of {e.actual_value!r}")
                continue
        except Exception as ex:  # noqa
            bad.append(f"{type(e).__name__}: fact not evaluable ({type(ex).__name__})")
            continue
        msg1 = e.format(fmt)
        msg2 = e.format(fmt)
        # the same error through format_result with a formatter of the caller's (its own root name)
        try:
            from d42.validation import Formatter, ValidationResult, format_result
            single = ValidationResult()
            single.add_error(e)
            custom_lines = format_result(single, Formatter("response.body"))
            own = e.format(Formatter("response.body"))
            if len(custom_lines) != 2 or own not in custom_lines[1]:
                bad.append(f"{type(e).__name__}: format_result(result, Formatter('response.body')) renders {custom_lines[1:]!r}, "
                           f"the formatter itself renders {own!r}")
                continue
        except Exception as ex:  # noqa
            bad.append(f"{type(e).__name__}: format_result with a custom formatter raised {type(ex).__name__}")
            continue
        after = [op.operand for op in e.path]
        n = type(e).__name__
        if n == "MissingKeyValidationError":
            want = f"Key {_path_text(before + [e.missing_key])} does not exist"
            named = want in msg1
        elif n == "MissingElementValidationError":
            want = f"Element {_path_text(before + [e.index])} does not exist"
            named = want in msg1
        elif before:
            want = " at " + _path_text(before)
            named = want in msg1
        else:
            want = "(no ' at ' fragment for the root)"
            named = " at _" not in msg1
        if not named:
            bad.append(f"{n}: message {msg1!r} does not name the path ({want})")
        elif msg1 != msg2 or after != before:
            bad.append(f"{n}: rendering is not repeatable / changes the error's path: {msg1!r} then {msg2!r}")
    return bad


def run(ctx):
    from d42.validation import Formatter, Validator
    from d42.substitution import SubstitutorValidator
    n = ctx.scale(260, 5000)
    depth = ctx.scale(3, 5)
    cases = vsuite.make_cases(ctx, n, depth, zoo_rate=0.15, perturb=ctx.scale(10, 16))
    # the partial validator shares the paths (d42/substitution/_validator.py)
    sub_cases = vsuite.make_cases(ctx, n // 4, depth, zoo_rate=0.1, perturb=6, modes=("Subst",))
    cases += sub_cases
    # the substitution-mode validator skips `...` placeholders: errors of the OTHER members must still be located
    import ssuite
    r = ctx.rng
    for c0 in r.sample(sub_cases, min(len(sub_cases), ctx.scale(400, 4000))):
        if isinstance(c0.value, (list, dict)) and c0.value:
            for pv in ssuite.with_placeholders(r, c0.value)[:3]:
                c = vsuite.Case()
                c.ssrc, c.schema, c.value, c.origin, c.mode, c.unmodelled = c0.ssrc, c0.schema, pv, "placeholder", "Subst", None
                cases.append(c)
    for ssrc, vtext in [("schema.list(schema.int)", "[..., 1, 'a']"), ("schema.list(schema.int)", "['a', 1, ...]"),
                        ("schema.list(schema.str.len(1))", "[..., 'ab', 'c', 'de']"), ("schema.list(schema.int).len(2)", "[..., 1, 2, 'x']"),
                        ("schema.dict({'k': schema.list(schema.int)})", "{'k': [..., 'x']}"),
                        ("schema.list([schema.int, schema.str])", "[..., 'x']"), ("schema.list([..., schema.int])", "[..., 'x']"),
                        ("schema.dict({'a': schema.int, 'b': schema.str})", "{'a': ..., 'b': 1}")]:
        c = vsuite.Case()
        c.ssrc, c.schema, c.value, c.origin, c.mode, c.unmodelled = ssrc, gen.build(ssrc), eval(vtext, dict(gen.NS)), "placeholder", "Subst", None
        cases.append(c)
    fmt = Formatter()
    vals = {"Plain": Validator(), "Subst": SubstitutorValidator()}
    oracle_cases = 0
    nested_errors = 0
    for c in cases:
        vsuite.observe(c)
        if c.obs_kind != "ok":
            continue
        oracle_cases += 1
        nested_errors += sum(1 for e in c.errors if len(e.path) >= 1)
        probs = oracle(c, ctx, fmt, vals[c.mode])
        for pr in probs[:1]:
            rp = c.replay_dict()
            rp.update(observed=pr, expected="path resolves to the reported value, fact true, message names the path")
            ctx.violation(pr, rp)
    identity_key_errors = probe_identity_keys(ctx) + probe_unprintable_keys(ctx)
    modelled = [c for c in cases if c.term is not None]
    bad = common.eval_cases(ctx.workdir, "c03", [c.term for c in modelled], "vcase", "vcase_ok")
    dist, kinds = vsuite.distribution(cases)
    ctx.coverage.update(
        evaluations=len(cases),
        distinct_nontrivial=vsuite.distinct_nontrivial(cases),
        rule="(schema, value) pairs as for C02, both validators; non-trivial = rejected/raised/container value, "
             "distinct by canonical Coq term. Correspondence: the whole ordered error list (kind, path, actual value, "
             "parameter) vs the model. Oracle on the implementation: th-path resolves to actual_value, the stated "
             "fact re-evaluated in Python, message names the path, rendering repeatable.",
        samples=[{"schema": c.ssrc, "value": c.vsrc(),
                  "errors": [(type(e).__name__, [op.operand for op in e.path]) for e in (c.errors or [])]}
                 for c in [x for x in modelled if x.errors and any(len(e.path) > 1 for e in x.errors)][:5]],
        correspondence={"suite": "validate error lists", "cases": len(modelled), "mismatches": len(bad),
                        "unmodelled": len(cases) - len(modelled)},
        oracle_cases=oracle_cases, errors_below_root=nested_errors, distribution=dist, error_kinds=kinds,
    )
    already = {id(rp) for _, rp, _ in ctx.violations}
    for i in bad[:10]:
        c = modelled[i]
        rp = c.replay_dict()
        rp.update(observed=[(type(e).__name__, [op.operand for op in e.path], repr(e.actual_value)[:80])
                            for e in (c.errors or [])] if c.obs_kind == "ok" else f"raised {type(c.exc).__name__}",
                  expected="the model's error list (theorem errors_located_true is about that list)",
                  theorem_or_suite="C03 correspondence: validate error lists")
        ctx.violation("error list differs from the model's", rp, failing_input=False)


def replay(data):
    from d42.validation import Formatter, Validator
    from d42.substitution import SubstitutorValidator
    s = gen.build(data["schema"])
    v = eval(data["value"], dict(gen.NS))
    validator = Validator() if data.get("mode", "Plain") == "Plain" else SubstitutorValidator()
    res = s.__accept__(validator, value=v)
    fmt = Formatter()
    for e in res.get_errors():
        print(type(e).__name__, [op.operand for op in e.path], repr(e.actual_value), "|", e.format(fmt))
    print("expected:", data.get("expected"))
    return 0
