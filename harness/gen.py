"""Seeded generators: schemas (as DSL source text, so every case is replayable), values
conforming to a schema (built independently of d42's own generator), one-step
perturbations at every depth, the hostile-value zoo.
"""
import collections
import datetime
import decimal
import enum
import fractions
import math
import uuid

from niltype import Nil

import d42
from d42 import optional, schema
from d42.declaration import DeclarationError, Schema
from d42.declaration.types import (
    AnySchema, BoolSchema, BytesSchema, DateSchema, DateTimeSchema, DictSchema, FloatSchema,
    GenericTypeAliasSchema, IntSchema, ListSchema, NoneSchema, StrSchema, UUID4Schema,
)

UUID = uuid.UUID

NS = {
    "schema": schema, "optional": optional, "UUID": uuid.UUID, "datetime": datetime,
    "date": datetime.date, "uuid": uuid, "Decimal": decimal.Decimal,
    "Fraction": fractions.Fraction, "float": float, "math": math, "Nil": Nil,
    "collections": collections, "substitute": d42.substitute,
}


def _late_ns():
    from d42 import substitute
    from d42.utils import make_required
    NS.update(make_required=make_required, substitute=substitute)


INTS = [0, 1, -1, 2, 3, 5, 15, 16, 17, 31, 32, 33, 100, -100, 2 ** 63 - 1, 2 ** 63, -(2 ** 63),
        -(2 ** 63) - 1, 2 ** 64, 10 ** 30, -(10 ** 30)]
SMALL_INTS = [0, 1, 2, 3, 5, -1, -3, 10]
FLOATS = [0.0, -0.0, 0.1, 0.15, 0.29, 0.57, 1.0, 1.5, -2.25, 3.14, 100.0, 2.0 ** 53, 1e308, -1e308,
          5e-324, 1e-9, 1.0000000001, 0.9999999999, 123.456, 1e22, 1e23]
SPECIAL_FLOATS = [math.inf, -math.inf, math.nan]
STRS = ["", "a", "b", "ab", "abc", "banana", "aaa", "xyz", "0", "12", "a1", "hello world", "caf\u00e9", "cafe\u0301", "\u212b",
        "Ab_9", "é", "日本", "\U0001f600", "a\nb", " ", "-"]
ALPHABETS = ["ab", "abn", "abc", "0123456789", "", "xyz", "abnéz", "a",
             # characters that mean something to re / fnmatch / format: an alphabet is a plain set of characters
             "a-f0-9", "^ab", "ab]", "\\]x-", "+-*", "[a]", ".", "a|b", "\\d", "{}%s", "a\nb"]
SUBSTRS = ["", "a", "an", "ab", "nan", "z", "é"]
# (pattern, matching examples, non-matching examples) ; all inside the matcher's fragment
PATTERNS = [
    ("[a-c]+", ["a", "abcabc", "xxbxx"], ["", "xyz", "123"]),
    (r"\d{2,3}", ["12", "123", "a99b", "1234"], ["1", "a", ""]),
    ("x|yz", ["x", "yz", "ayzb"], ["y", "z", ""]),
    ("^ab?$", ["a", "ab", "a\n"], ["abb", "ba", "", "ab\n\n"]),
    (r"^\w+\Z", ["abc", "a_1"], ["", "a b", "abc\n"]),
    ("a.c", ["abc", "xa-cx"], ["ac", "a\nc"]),
    ("[^a-z]", ["A", "1", "ab1", "\n"], ["", "abc"]),
    ("(ab){2}", ["abab", "xababx"], ["ab", "aab"]),
    ("(?:a|b)*?c", ["c", "abc", "zzc"], ["ab", ""]),
    (r"^[\w-]{1,4}$", ["a-b", "abcd"], ["", "abcde", "a b"]),
    ("(?P<n>x)y?", ["x", "xy", "axb"], ["y", ""]),
    (r"^\d*$", ["", "123", "\n"], ["a", "1a"]),
    ("a{0,2}b", ["b", "ab", "aab", "aaab"], ["a", ""]),
    ("[ab][^ab]", ["ac", "b1"], ["ab", "a", "cc"]),
    (r"^[^\w\d]{1,3}$", ["-", " !"], ["a", "_", "", "-_"]),
    (r"[^\d]x", ["ax", "_x"], ["1x", "x"]),
    (r"^[^\w]+\Z", ["-+", "!"], ["_", "a-", ""]),
    (r"^a.{12}b$", ["a" + "x" * 12 + "b", "a" + "-" * 12 + "b"], ["ab", "a" + "\n" * 12 + "b"]),
    (r"^\w{12}\d{6}$", ["a" * 12 + "1" * 6], ["a" * 12, "-" * 18]),
    (r"^[^\w]{4,8}$", ["----", "!!!!!!"], ["____", "-a--", "---"]),
    (r"[^\d\w]{6}|[^a-zA-Z0-9]{6}", ["------", "______"], ["-----", "abcdef"]),
    (r"^[^\w ]{3}\Z", ["---", "!?!"], ["- -", "_--", "----"]),
    (r"[a-c]{2,}x|[^a-z]\d", ["aax", "-1", "abcx"], ["ax", "a1", ""]),
    # inline flags and cased non-ASCII literals (outside Regex.v's fragment: decided by `re` and the direct oracles only)
    ("(?i)stra\u00dfe", ["stra\u00dfe", "STRA\u00dfE"], ["strasse", ""]), ("stra\u00dfe", ["stra\u00dfe"], ["strasse"]),
    ("(?i:\ufb01)x{2}", ["\ufb01xx"], ["fixx", "x"]), ("(?i)\u0130\u0149\u01f0", ["\u0130\u0149\u01f0"], ["i"]),
    ("^[\u00df\u0130]{3}$", ["\u00df\u0130\u00df"], ["sss", ""]), ("(?i)[\u00df]{2}", ["\u00df\u00df"], ["ss"]),
    ("(?s)a.b", ["a\nb", "axb"], ["ab"]), ("(?s)a(?-s:.)b", ["axb", "a-b"], ["a\nb"]), ("(?s:a.)(?-s:.)c", ["a\nxc"], ["a\n\nc"]),
    ("(?s)(a.)(?-s:b.)c", ["a\nbxc"], ["axb\nc"]), ("(?m)^ab$", ["ab", "x\nab\ny"], ["abc"]), ("(?x) a b # comment", ["ab"], ["a b"]),
    ("(?a)\\w{3}\\d", ["abc1"], ["\u00e9\u00e9\u00e91"]),
]
# witnesses for patterns that only C01's directed list uses (known finding F42: IGNORECASE with a negation) - never drawn by
# gen_schema_src, so no other check meets them
EXTRA_PATTERNS = [
    ("(?i)[^a]", ["b", "1"], ["a", "A"]), ("(?i)[^a-z]{3}", ["123", "-_-"], ["abc", "ABC"]), ("(?i:[^b])x", ["ax", "1x"], ["bx", "Bx"]),
    ("(?i)a[^a]", ["ab", "A1"], ["aa", "aA"]), ("(?i)[^a-y]", ["z", "Z", "1"], ["a", "Y"]),
]
UUIDS = [uuid.UUID(int=5, version=4), uuid.UUID("886313e1-3b8a-4372-9b90-0c9aee199e5d"),
         uuid.UUID(int=2 ** 127 + 12345, version=4)]
BAD_UUIDS = [uuid.UUID("00000000-0000-0000-0000-000000000000"),
             uuid.UUID(int=5, version=1), uuid.UUID(int=7, version=3), uuid.UUID(int=9, version=5),
             uuid.UUID("886313e1-3b8a-4372-db90-0c9aee199e5d")]   # v4 nibble, non-RFC variant
DATETIMES = [datetime.datetime(2020, 1, 2, 3, 4, 5), datetime.datetime(1999, 12, 31, 23, 59, 59, 999999),
             datetime.datetime(2020, 1, 2, 3, 4, 5, tzinfo=datetime.timezone.utc),
             datetime.datetime(2020, 1, 2, 5, 4, 5, tzinfo=datetime.timezone(datetime.timedelta(hours=2))),
             datetime.datetime(2020, 1, 2)]
DATES = [datetime.date(2020, 1, 2), datetime.date(1, 1, 1), datetime.date(2024, 2, 29)]
KEYS = ["a", "b", "c", "id", 1, 0, "é", "", None]


# ------------------------------------------------------------------ value source text
def vsrc(v):
    """Python source text that rebuilds v (for replays)."""
    if v is ...:
        return "..."
    if v is Nil:
        return "Nil"
    if isinstance(v, bool) or v is None:
        return repr(v)
    if isinstance(v, float):
        if v != v:
            return "float('nan')"
        if v in (math.inf, -math.inf):
            return "float('inf')" if v > 0 else "float('-inf')"
        return repr(v)
    if type(v) is int and abs(v) >= 10 ** 4000:
        return hex(v)                  # repr() of such an int hits CPython's int-to-str digit limit
    if type(v) in (int, str, bytes):
        return repr(v)
    if type(v) is uuid.UUID:
        return f"UUID({str(v)!r})"
    if type(v) is datetime.datetime:
        return "datetime." + repr(v)[9:] if repr(v).startswith("datetime.") else repr(v)
    if type(v) is datetime.date:
        return repr(v)
    if type(v) is list:
        return "[" + ", ".join(vsrc(x) for x in v) + "]"
    if type(v) is dict:
        return "{" + ", ".join(f"{vsrc(k)}: {vsrc(x)}" for k, x in v.items()) + "}"
    if type(v) is collections.Counter:
        return "collections.Counter(" + vsrc(dict(v)) + ")"
    if type(v) is collections.OrderedDict:
        return "collections.OrderedDict(" + vsrc(dict(v)) + ")"
    if type(v) is collections.defaultdict and v.default_factory in (int, list, dict, str, None):
        f = v.default_factory
        return f"collections.defaultdict({f.__name__ if f else 'None'}, " + vsrc(dict(v)) + ")"
    if isinstance(v, optional):
        return f"optional({vsrc(v.key)})"
    src = getattr(v, "_verif_src", None)
    if src:
        return src
    if isinstance(v, Schema):
        return repr(v)                 # a schema passed as a VALUE: its repr is DSL source (C06)
    for s, obj in ZOO:
        if obj is v:
            return s
    return f"<unreplayable {type(v).__name__}>"


# ------------------------------------------------------------------ hostile zoo
class _IntSub(int):
    pass


class _StrSub(str):
    pass


class _FloatSub(float):
    pass


class _ListSub(list):
    pass


class _DictSub(dict):
    pass


class _Color(enum.Enum):
    RED = 1


class _IntColor(enum.IntEnum):
    RED = 1


ZOO_NS = {"_IntSub": _IntSub, "_StrSub": _StrSub, "_FloatSub": _FloatSub, "_ListSub": _ListSub,
          "_DictSub": _DictSub, "_Color": _Color, "_IntColor": _IntColor}
NS.update(ZOO_NS)
_late_ns()

_ZOO_SRC = [
    "float('inf')", "float('-inf')", "float('nan')", "10**400", "-10**400", "10**5000", "Decimal('1.5')",
    "Decimal('NaN')", "Fraction(1, 3)", "complex(1, 2)", "(1, 2)", "()", "{1, 2}", "frozenset()",
    "bytearray(b'ab')", "memoryview(b'ab')", "range(3)", "_IntSub(7)", "_StrSub('ab')",
    "_FloatSub(1.5)", "_ListSub([1])", "_DictSub({'a': 1})", "_Color.RED", "_IntColor.RED",
    "uuid.UUID(int=5, version=1)", "uuid.UUID(int=7, version=3)", "uuid.UUID(int=9, version=5)",
    "uuid.UUID('00000000-0000-0000-0000-000000000000')",
    "uuid.UUID('886313e1-3b8a-4372-db90-0c9aee199e5d')",
    "datetime.datetime(2020, 1, 2, 3, 4, 5)",
    "datetime.datetime(2020, 1, 2, 3, 4, 5, tzinfo=datetime.timezone.utc)",
    "datetime.date(2020, 1, 2)", "datetime.time(1, 2)", "datetime.timedelta(1)",
    "{None: 1}", "{(1, 2): 1}", "{1: 1}", "{b'k': 1}", "{frozenset(): 1}", "{1.5: 2}",
    "object()", "(lambda: 0)", "int", "NotImplemented", "True", "False", "None", "0", "1", "''",
    "b''", "[]", "{}", "...", "1.0", "-0.0", "[[]]", "{'a': {}}",
]
ZOO = [(s, eval(s, dict(NS))) for s in _ZOO_SRC]


# ------------------------------------------------------------------ schema source generator
def _lit_float(r, special=0.08):
    if r.random() < special:
        return r.choice(SPECIAL_FLOATS)
    c = r.random()
    if c < 0.6:
        return r.choice(FLOATS)
    if c < 0.8:
        k = r.randint(-10 ** 4, 10 ** 4)
        p = r.randint(1, 4)
        x = k / 10 ** p
        return math.nextafter(x, r.choice([-math.inf, math.inf])) if r.random() < 0.4 else x
    return round(r.uniform(-1000, 1000), r.randint(0, 6))


def gen_schema_src(r, depth, opts=None):
    """Return DSL source text of a random schema (may raise DeclarationError when evaluated:
    callers use build())."""
    o = opts or {}
    top = 13 if depth > 0 else 9
    c = r.randrange(top)
    if depth > 0 and r.random() < 0.5:
        c = r.choice([9, 9, 10, 10, 11, 12])      # favour containers while depth remains
    if o.get("no_alias") and c == 12:
        c = r.randrange(12)
    rec = lambda: gen_schema_src(r, depth - 1, opts)
    if c == 0:
        return "schema.none"
    if c == 1:
        return r.choice(["schema.bool", "schema.bool(True)", "schema.bool(False)"])
    if c == 2:
        s = "schema.int"
        pool = INTS if r.random() < 0.3 else SMALL_INTS
        k = r.randrange(6)
        if k == 1:
            v = r.choice(pool + [True])
            s += f"({v!r})"
            if r.random() < 0.3:
                s += f".min({v - r.choice([0, 1, 5])!r})"
            if r.random() < 0.3:
                s += f".max({v + r.choice([0, 1, 5])!r})"
        if k in (2, 4, 5):
            s += f".min({r.choice(pool)!r})"
        if k in (3, 4, 5):
            s += f".max({r.choice(pool)!r})"
        return s
    if c == 3:
        s = "schema.float"
        k = r.randrange(6)
        if k == 1:
            s += f"({vsrc(_lit_float(r))})"
        if k in (2, 4, 5):
            s += f".min({vsrc(_lit_float(r, 0.04))})"
        if k in (3, 4, 5):
            s += f".max({vsrc(_lit_float(r, 0.04))})"
        if r.random() < 0.3:
            s += f".precision({r.choice([1, 2, 3, 6, 15])})"
        return s
    if c == 4:
        s = "schema.str"
        k = r.randrange(9)
        if k == 1:
            v = r.choice(STRS)
            s += f"({v!r})"
            if r.random() < 0.3:
                s += f".len({len(v) + r.choice([0, 0, 1])})"
            if r.random() < 0.2:
                s += f".alphabet({v + 'q'!r})"
            if r.random() < 0.2:
                s += f".contains({v[:2]!r})"
            return s
        if k == 2:
            s += f".len({r.randint(0, 6)})"
        if k == 3:
            s += f".len({r.randint(0, 3)}, {r.randint(2, 8)})"
        if k == 4:
            s += f".len({r.randint(0, 5)}, ...)"
        if k == 5:
            s += f".len(..., {r.randint(0, 6)})"
        if k == 6:
            return s + f".regex({r.choice(PATTERNS)[0]!r})"
        if k == 7 or r.random() < 0.3:
            s += f".alphabet({r.choice(ALPHABETS)!r})"
        if k == 8 or r.random() < 0.25:
            s += f".contains({r.choice(SUBSTRS)!r})"
        return s
    if c == 5:
        return r.choice(["schema.bytes", "schema.bytes(b'x')", "schema.bytes(b'')"])
    if c == 6:
        return r.choice(["schema.uuid4"] + [f"schema.uuid4({vsrc(u)})" for u in UUIDS])
    if c == 7:
        return r.choice(["schema.datetime"] + [f"schema.datetime({vsrc(d)})" for d in DATETIMES])
    if c == 8:
        return r.choice(["schema.date"] + [f"schema.date({vsrc(d)})" for d in DATES + DATETIMES[:1]])
    if c == 9:
        k = r.randrange(8)
        if k == 0:
            return "schema.list"
        if k == 6:
            return f"schema.list.len({r.randint(0, 3)})"
        if k == 1:
            s = f"schema.list({rec()})"
        else:
            es = [rec() for _ in range(r.randint(0 if k in (2, 7) else 1, 3))]
            if k == 3:
                es = es + ["..."]
            if k == 4:
                es = ["..."] + es
            if k == 5:
                es = ["..."] + es + ["..."]
            if k == 7 and r.random() < 0.3:
                es = ["..."]
            s = "schema.list([" + ", ".join(es) + "])"
        q = r.random()
        if q < 0.2:
            s += f".len({r.randint(0, 4)})"
        elif q < 0.3:
            s += f".len({r.randint(0, 3)}, ...)"
        elif q < 0.4:
            s += f".len(..., {r.randint(0, 4)})"
        elif q < 0.5:
            s += f".len({r.randint(0, 2)}, {r.randint(2, 5)})"
        return s
    if c == 10:
        k = r.randrange(6)
        if k == 0:
            return "schema.dict"
        names = r.sample(KEYS, r.randint(0, 3))
        items = []
        for nm in names:
            ks = f"optional({nm!r})" if r.random() < 0.3 else repr(nm)
            items.append(f"{ks}: {rec()}")
        if k >= 4:
            items.insert(r.randint(0, len(items)), "...: ...")
        return "schema.dict({" + ", ".join(items) + "})"
    if c == 11:
        if r.random() < 0.12:
            return "schema.any"
        return "schema.any(" + ", ".join(rec() for _ in range(r.randint(1, 3))) + ")"
    return f"schema.alias({r.choice(['A', 'Name'])!r}, {rec()})"


def build(src):
    return eval(src, dict(NS))


def gen_schema(r, depth, opts=None, tries=50):
    """(source, schema) of a random schema that declares without error."""
    for _ in range(tries):
        src = gen_schema_src(r, depth, opts)
        try:
            return src, build(src)
        except DeclarationError:
            continue
    return "schema.none", schema.none


# ------------------------------------------------------------------ conforming values
def _g(s, name):
    return s.props.get(name)


def conform(r, s, depth=0):
    """A value meant to conform to s (best effort; built without d42's generator)."""
    if depth > 12:
        return None
    t = type(s)
    if t is NoneSchema:
        return None
    if t is BoolSchema:
        v = _g(s, "value")
        return v if v is not Nil else r.choice([True, False])
    if t is IntSchema:
        v, mn, mx = _g(s, "value"), _g(s, "min"), _g(s, "max")
        if v is not Nil:
            return v
        if mn is not Nil and mx is not Nil:
            return r.choice([mn, mx, (mn + mx) // 2])
        if mn is not Nil:
            return mn + r.choice([0, 1, 10])
        if mx is not Nil:
            return mx - r.choice([0, 1, 10])
        return r.choice(SMALL_INTS + [True])
    if t is FloatSchema:
        v, mn, mx = _g(s, "value"), _g(s, "min"), _g(s, "max")
        if v is not Nil:
            return v
        if mn is not Nil and mx is not Nil:
            return r.choice([mn, mx, (mn + mx) / 2])
        if mn is not Nil:
            return mn + r.choice([0.0, 0.5, 10.0])
        if mx is not Nil:
            return mx - r.choice([0.0, 0.5, 10.0])
        return _lit_float(r, 0.02)
    if t is StrSchema:
        v = _g(s, "value")
        if v is not Nil:
            return v
        pat = _g(s, "pattern")
        if pat is not Nil:
            for p, good, bad in PATTERNS + EXTRA_PATTERNS:
                if p == pat:
                    return r.choice(good)
            return "a"
        alpha = _g(s, "alphabet")
        alpha = alpha if alpha is not Nil else "abnz9 _"
        sub = _g(s, "substr")
        sub = sub if sub is not Nil else ""
        ln, mn, mx = _g(s, "len"), _g(s, "min_len"), _g(s, "max_len")
        if ln is not Nil:
            n = ln
        else:
            lo = max(mn if mn is not Nil else 0, len(sub))
            hi = mx if mx is not Nil else lo + 3
            n = r.randint(lo, max(lo, hi)) if hi >= lo else lo
        n = int(n)
        fill = max(0, n - len(sub))
        body = "".join(r.choice(alpha) for _ in range(fill)) if alpha else ""
        off = r.randint(0, len(body))
        return body[:off] + sub + body[off:]
    if t is BytesSchema:
        v = _g(s, "value")
        return v if v is not Nil else r.choice([b"", b"ab"])
    if t is UUID4Schema:
        v = _g(s, "value")
        return v if v is not Nil else r.choice(UUIDS)
    if t is DateTimeSchema:
        v = _g(s, "value")
        return v if v is not Nil else r.choice(DATETIMES)
    if t is DateSchema:
        v = _g(s, "value")
        return v if v is not Nil else r.choice(DATES + DATETIMES[:1])
    if t is ListSchema:
        es, ty = _g(s, "elements"), _g(s, "type")
        ln, mn, mx = _g(s, "len"), _g(s, "min_len"), _g(s, "max_len")
        if ln is not Nil:
            n = int(ln)
        else:
            lo = int(mn) if mn is not Nil else 0
            hi = int(mx) if mx is not Nil else lo + 3
            n = r.randint(lo, max(lo, hi))
        n = max(0, min(n, 8))
        if ty is not Nil:
            return [conform(r, ty, depth + 1) for _ in range(n)]
        if es is Nil:
            return [r.choice([1, "x", None, [], {}]) for _ in range(n)]
        conc = [conform(r, e, depth + 1) for e in es if e is not ...]
        pad = lambda k: [r.choice([0, "p", None, [1], {"a": 1}]) for _ in range(max(0, k))]
        extra = n - len(conc) if (ln is not Nil or mn is not Nil) else r.randint(0, 2)
        first = len(es) > 0 and es[0] is ...
        last = len(es) > 0 and es[-1] is ...
        if first and last and len(es) > 1:
            k = r.randint(0, max(0, extra))
            return pad(k) + conc + pad(extra - k)
        if last and len(es) >= 2:
            return conc + pad(extra)
        if first:
            return pad(extra) + conc
        return conc
    if t is DictSchema:
        ks = _g(s, "keys")
        if ks is Nil:
            return r.choice([{}, {"a": 1}, {"x": [1], 2: None}])
        out = {}
        for k, (val, opt) in ks.items():
            if k is ...:
                continue
            if opt and r.random() < 0.4:
                continue
            out[k] = conform(r, val, depth + 1) if val is not ... else 0
        if ... in ks and r.random() < 0.6:
            out[r.choice(["extra", "zz", 99])] = r.choice([1, "e", None])
        return out
    if t is AnySchema:
        ts = _g(s, "types")
        if ts is Nil or len(ts) == 0:
            return r.choice([None, 1, "x", [], {"a": 1}, 1.5])
        return conform(r, r.choice(ts), depth + 1)
    if isinstance(s, GenericTypeAliasSchema):
        return conform(r, s.props.type, depth + 1)
    inner = s.props.get("inner")
    if inner is not Nil:
        return conform(r, inner, depth + 1)
    return None


# ------------------------------------------------------------------ perturbations
def _sib(r, v):
    """values of sibling kinds"""
    if isinstance(v, bool):
        return [int(v), not v, None, float(v)]
    if isinstance(v, int):
        return [v + 1, v - 1, float(v) if abs(v) < 2 ** 60 else 0.0, bool(v & 1), str(v) if abs(v) < 10 ** 4000 else "big", None]
    if isinstance(v, float):
        out = [None, 1, "1.0"]
        if v == v and abs(v) != math.inf:
            out += [math.nextafter(v, math.inf), math.nextafter(v, -math.inf), v + 1.0, v - 0.5,
                    v * (1 + 2e-9), v * (1 + 5e-10), v * (1 - 6e-10), v * (1 + 1.2e-9), -v]
            if v == int(v) and abs(v) < 2 ** 60:
                out.append(int(v))
        out += [math.nan, math.inf]
        return out
    if isinstance(v, str):
        out = [v + "a", v + "\n", "q" + v, v.upper(), v.encode("utf8", "replace"), None, v * 2, ...]
        import unicodedata
        for form in ("NFD", "NFC", "NFKC"):
            try:
                w = unicodedata.normalize(form, v)
            except Exception:  # noqa
                continue
            if w != v:
                out.append(w)              # canonically equivalent, not equal
        if v:
            i = r.randrange(len(v))
            out += [v[:i] + v[i + 1:], v[:i] + "Z" + v[i + 1:], v[1:], v[:-1]]
        return out
    if isinstance(v, bytes):
        return [v + b"x", v[:-1], v.decode("latin1"), bytearray(v), None]
    if isinstance(v, uuid.UUID):
        return [uuid.UUID(int=v.int ^ 1), r.choice(BAD_UUIDS), str(v), None,
                uuid.UUID(int=v.int, version=1)]
    if isinstance(v, datetime.datetime):
        return [v + datetime.timedelta(microseconds=1), v.date(), None,
                v.replace(tzinfo=datetime.timezone.utc) if v.tzinfo is None else v.replace(tzinfo=None),
                v.isoformat()]
    if isinstance(v, datetime.date):
        return [v + datetime.timedelta(days=1), datetime.datetime(v.year, v.month, v.day), None,
                v.isoformat()]
    if v is None:
        return [0, False, "", [], {}]
    return []


def twins(x):
    """values equal (==, same hash) to x but of another type: True ~ 1 ~ 1.0, 0 ~ False ~ 0.0 ~ -0.0"""
    if isinstance(x, bool):
        return [int(x), float(x)]
    if isinstance(x, int) and abs(x) < 2 ** 53:
        return [float(x)] + ([bool(x)] if x in (0, 1) else [])
    if isinstance(x, float) and x == x and abs(x) < 2 ** 53 and x == int(x):
        return [int(x)] + ([bool(x)] if x in (0.0, 1.0) else []) + ([-x] if x == 0.0 else [])
    return []


def perturbations(r, v, depth=0, limit=40):
    """One-step perturbations of v at every depth (list of new values)."""
    out = []
    keep = []
    if isinstance(v, list):
        out += [v + [r.choice([0, None, "x"])], [r.choice([0, None, "x"])] + v, tuple(v), None]
        # an element followed / preceded by its cross-type twin (anything keyed on == or hash
        # confuses them)
        keep += [[...] + v, v + [...]] + ([[...] + v + [...]] if v else [[...]])   # the marker object as an ordinary element
        for i in range(min(len(v), 4)):
            for tw in twins(v[i])[:2]:
                keep.append(v[:i + 1] + [tw] + v[i + 1:])
                keep.append(v[:i] + [tw] + v[i:])
                if i + 1 < len(v):                      # same length: the twin overwrites a neighbour
                    keep.append(v[:i + 1] + [tw] + v[i + 2:])
                if i >= 1:
                    keep.append(v[:i - 1] + [tw] + v[i:])
        if v:
            i = r.randrange(len(v))
            out += [v[:i] + v[i + 1:], v[:-1], v[1:], v[:i] + [v[i]] + v[i:]]
            if len(v) > 1:
                w = list(v)
                w[0], w[-1] = w[-1], w[0]
                out.append(w)
            if depth < 6:
                for i in range(len(v)):
                    for pv in perturbations(r, v[i], depth + 1, limit=6):
                        out.append(v[:i] + [pv] + v[i + 1:])
    elif isinstance(v, dict):
        out += [{**v, r.choice(["new", 77, None]): 1}, None, list(v.items()),
                {**v, "new": 1, 77: 2, None: 3, (1, 2): 4, b"k": 5}]
        for k in list(v)[:4]:
            keep.append({**v, k: ...})         # the marker object as a member value
        # ... and as a KEY of the value (an unusual key for the plain validator, the "more keys" marker for substitution)
        keep += [{**v, ...: "x"}, {...: 0, **v}, {**v, ...: ...}]
        for k in list(v):
            w = dict(v)
            del w[k]
            out.append(w)
            if depth < 6:
                for pv in perturbations(r, v[k], depth + 1, limit=6):
                    out.append({**v, k: pv})
        if len(v) > 1:
            out.append(dict(reversed(list(v.items()))))
    else:
        out += _sib(r, v)
    if len(out) > limit:
        out = r.sample(out, limit)
    if len(keep) > 10:
        keep = r.sample(keep, 10)
    return keep + out


def positions(v, prefix=()):
    """All positions (paths) inside a value, root included."""
    yield prefix
    if isinstance(v, list):
        for i, x in enumerate(v):
            yield from positions(x, prefix + (i,))
    elif isinstance(v, dict):
        for k, x in v.items():
            yield from positions(x, prefix + (k,))


def at(v, pos):
    """the sub-value at a position"""
    for k in pos:
        v = v[k]
    return v


def replace_at(v, pos, new):
    if not pos:
        return new
    if isinstance(v, list):
        w = list(v)
        w[pos[0]] = replace_at(v[pos[0]], pos[1:], new)
        return w
    w = dict(v)
    w[pos[0]] = replace_at(v[pos[0]], pos[1:], new)
    return w


# every leaf type with every combination of props that matters for type guards
LEAF_SCHEMAS = [
    "schema.none", "schema.bool", "schema.bool(True)", "schema.int", "schema.int(5)", "schema.int.min(1)",
    "schema.int.max(9)", "schema.int.min(1).max(9)", "schema.int(True)", "schema.float", "schema.float(1.5)",
    "schema.float.min(0.5)", "schema.float.max(9.5)", "schema.float(1.5).precision(2)",
    "schema.float.precision(3)", "schema.float(1e300).precision(15)", "schema.float(float('inf'))",
    "schema.float(float('nan')).precision(1)", "schema.float(float('inf')).precision(2)",
    "schema.float.min(0.5).max(1.5).precision(1)", "schema.str", "schema.str('ab')", "schema.str.len(2)",
    "schema.str.len(1, ...)", "schema.str.len(..., 3)", "schema.str.len(1, 3)", "schema.str.alphabet('ab')",
    "schema.str.contains('a')", "schema.str.regex('a+')", "schema.str.alphabet('ab').contains('a').len(1, 3)",
    "schema.bytes", "schema.bytes(b'ab')", "schema.uuid4", f"schema.uuid4({vsrc(UUIDS[0])})",
    "schema.datetime", f"schema.datetime({vsrc(DATETIMES[0])})", f"schema.datetime({vsrc(DATETIMES[2])})",
    "schema.date", f"schema.date({vsrc(DATES[0])})", "schema.list", "schema.list.len(1)", "schema.list.len(1, ...)",
    "schema.list.len(..., 2)", "schema.list(schema.int)", "schema.list(schema.int).len(2)",
    "schema.list([schema.int])", "schema.list([schema.int, ...])", "schema.list([..., schema.int])",
    "schema.list([..., schema.int, ...])", "schema.list([...])", "schema.list([])", "schema.dict", "schema.dict({})",
    "schema.dict({'a': schema.int})", "schema.dict({optional('a'): schema.int})",
    "schema.dict({'a': schema.int, ...: ...})", "schema.dict({...: ...})", "schema.any",
    "schema.any(schema.int, schema.str)", "schema.alias('A', schema.int)",
    # "enumerations": alternatives that are all constants of one type (a place for fast paths)
    "schema.any(schema.str('a'), schema.str('b'))", "schema.any(schema.int(1), schema.int(2), schema.int(3))",
    "schema.any(schema.none, schema.str('a'))", "schema.any(schema.bool(True), schema.bool(False))",
    "schema.any(schema.float(1.5), schema.float(2.5))", "schema.any(schema.bytes(b'a'), schema.bytes(b'b'))",
    "schema.any(schema.str('a'))", "schema.list(schema.any(schema.str('a'), schema.str('b')))",
    "schema.dict({'k': schema.any(schema.str('a'), schema.str('b'))})", "schema.any(schema.list([]), schema.dict({}))",
    "schema.dict({'a': schema.dict({'b': schema.list(schema.float(1.0).precision(1))})})",
]

# every kind of parameter with a falsy / zero / empty value (0, 0.0, -0.0, "", b"", False, [], {}):
# a declared falsy parameter is still a declared parameter
FALSY_SCHEMAS = [
    "schema.bool(False)", "schema.int(0)", "schema.int(False)", "schema.int.min(0)", "schema.int.max(0)",
    "schema.int.min(0).max(0)", "schema.float(0.0)", "schema.float(-0.0)", "schema.float.min(0.0)",
    "schema.float.max(0.0)", "schema.float.max(-0.0)", "schema.float(0.0).precision(1)", "schema.float.min(0.0).precision(1)",
    "schema.float(0.5).precision(1)", "schema.str('')", "schema.str.len(0)", "schema.str.len(0, ...)", "schema.str.len(..., 0)",
    "schema.str.len(0, 0)", "schema.str.len(0, 1)", "schema.str.alphabet('')", "schema.str.contains('')",
    "schema.str.alphabet('').len(0)", "schema.str.alphabet('ab').contains('')", "schema.str.regex('')", "schema.str.regex('^$')",
    "schema.bytes(b'')", "schema.list([])", "schema.list.len(0)", "schema.list.len(0, ...)", "schema.list.len(..., 0)",
    "schema.list.len(0, 0)", "schema.list.len(0, 1)", "schema.list(schema.int).len(0)", "schema.list(schema.int).len(..., 0)",
    "schema.list(schema.int).len(0, 0)", "schema.list([...]).len(0)", "schema.list([...]).len(..., 0)",
    "schema.list([schema.int, ...]).len(..., 1)", "schema.list([..., schema.int]).len(1, 1)", "schema.dict({})",
    "schema.dict({...: ...})", "schema.dict({'': schema.int})", "schema.dict({0: schema.int})", "schema.dict({False: schema.int})",
    "schema.dict({None: schema.none})", "schema.dict({optional(''): schema.str('')})", "schema.any(schema.int(0), schema.str(''))",
    "schema.any(schema.none)", "schema.alias('', schema.int(0))",
    "schema.dict({'a': schema.list.len(..., 0), 'b': schema.str.len(0, 0)})", "schema.list(schema.list.len(0, 0))",
    "schema.list([schema.str.len(..., 0), ...])",
]

# (schema, value) pairs around values that are == (and hash alike) but of different types, in the
# places where an implementation could key a cache / set on the value: repeated list elements,
# dict members, alternatives.  Accepted and rejected ones.
VTWINS = [
    ("schema.list(schema.int)", "[1, 1.0]"), ("schema.list(schema.int)", "[1, True]"), ("schema.list(schema.int)", "[1, 1, 1]"),
    ("schema.list(schema.int)", "[0, False, 0.0]"), ("schema.list(schema.int)", "[1.0, 1]"),
    ("schema.list(schema.float)", "[1.0, 1]"), ("schema.list(schema.float)", "[0.0, -0.0, 0]"), ("schema.list(schema.float)", "[1, 1.0]"),
    ("schema.list(schema.bool)", "[True, 1]"), ("schema.list(schema.bool)", "[False, 0.0]"), ("schema.list(schema.bool)", "[1, True]"),
    ("schema.list(schema.str)", "['a', 'a', b'a']"), ("schema.list(schema.bytes)", "[b'a', 'a', b'a']"),
    ("schema.list([schema.int, schema.int])", "[1, 1.0]"), ("schema.list([schema.int, ...])", "[1, 1.0]"),
    ("schema.list([..., schema.int, schema.int])", "[1.0, 1, 1.0]"), ("schema.list([..., schema.float, ...])", "[1, 1, 1.0]"),
    ("schema.dict({'a': schema.int, 'b': schema.int})", "{'a': 1, 'b': 1.0}"),
    ("schema.dict({'a': schema.int, 'b': schema.int})", "{'a': True, 'b': 1}"),
    ("schema.dict({'a': schema.float, ...: ...})", "{'b': 1.0, 'a': 1}"),
    ("schema.dict({1: schema.int})", "{1.0: 1}"), ("schema.dict({1: schema.int})", "{True: 1}"), ("schema.dict({0: schema.int, 1: schema.str})", "{False: 0, True: 'x'}"),
    ("schema.list(schema.list(schema.int))", "[[1], [1.0]]"), ("schema.list(schema.list(schema.int))", "[[1], [1]]"),
    ("schema.list(schema.dict({'a': schema.int}))", "[{'a': 1}, {'a': True}]"),
    ("schema.list(schema.any(schema.int, schema.str))", "[1, 1.0, '1']"), ("schema.list(schema.any(schema.int, schema.float))", "[1, 1.0, True]"),
    ("schema.list(schema.int(1))", "[1, 1.0]"), ("schema.list(schema.float(1.0))", "[1.0, 1]"), ("schema.list(schema.int.min(0))", "[0, -0.0]"),
    ("schema.list(schema.int.min(1))", "[1, 0, 1, 0]"), ("schema.list(schema.str.len(1))", "['a', 'ab', 'a', 'ab']"),
    ("schema.any(schema.int, schema.float)", "True"), ("schema.any(schema.bool, schema.float)", "1"),
    ("schema.list(schema.none)", "[None, 0, None, False]"), ("schema.list(schema.float.precision(1))", "[1.0, 1, 1.04]"),
    # a fixed float with a precision whose scaled value is large: neighbours on the precision grid differ
    ("schema.float(1234.5).precision(6)", "1234.500001"), ("schema.float(1234.5).precision(6)", "1234.5000004"),
    ("schema.float(123456.789).precision(5)", "123456.78901"), ("schema.float(2.0 ** 40).precision(3)", "2.0 ** 40 + 0.001"),
    ("schema.float(1e15).precision(1)", "1e15 + 0.125"), ("schema.float(-98765.4321).precision(6)", "-98765.432101"),
    ("schema.list(schema.float(1234.5).precision(6))", "[1234.5, 1234.500001]"),
    ("schema.float(1234.5).precision(6)", "1234.5"), ("schema.float(1234.5)", "1234.500001"), ("schema.float(1234.5)", "1234.5000000001"),
    # a fixed value that sits exactly on a declared bound / length: values the tolerant value comparison lets through
    # must still meet the bound
    ("schema.float(1.0).max(1.0)", "1.0000000001"), ("schema.float(1.0).max(1.0)", "1.0000000000000002"), ("schema.float(1.0).min(1.0)", "0.9999999999"),
    ("schema.float(1.0).min(1.0)", "1.0"), ("schema.float(2.5).min(2.5).max(2.5)", "2.5000000001"), ("schema.float(1.0).precision(2).max(1.0)", "1.004"),
    ("schema.float(1.0).precision(2).min(1.0)", "0.996"), ("schema.float(1.0).precision(2).max(1.0)", "1.0"),
    ("schema.list(schema.float(1.0).max(1.0))", "[1.0, 1.0000000001]"), ("schema.dict({'x': schema.float(0.5).min(0.5)})", "{'x': 0.49999999999}"),
    ("schema.int(5).max(5)", "5"), ("schema.str('ab').len(2)", "'ab'"), ("schema.str('ab').alphabet('ab').contains('a')", "'ab'"),
    # text that is canonically equivalent but not equal (combining characters): compared code point by code point
    ("schema.str.len(5)", "'cafe\u0301'"), ("schema.str.len(4)", "'cafe\u0301'"), ("schema.str('caf\u00e9')", "'cafe\u0301'"),
    ("schema.str('cafe\u0301')", "'caf\u00e9'"), ("schema.str.alphabet('acef\u0301')", "'cafe\u0301'"),
    ("schema.str.alphabet('acf\u00e9')", "'cafe\u0301'"), ("schema.str.contains('\u0301')", "'cafe\u0301'"),
    ("schema.str.contains('\u00e9')", "'cafe\u0301'"), ("schema.str.regex('e\u0301$')", "'cafe\u0301'"),
    ("schema.list(schema.str.len(1))", "['\u00e9', 'e\u0301']"), ("schema.dict({'k': schema.str.len(2, ...)})", "{'k': 'e\u0301'}"),
    ("schema.str.len(1)", "'\ufb01'"), ("schema.str.alphabet('fi')", "'\ufb01'"), ("schema.str('\u212b')", "'\u00c5'"),
    # an alternative of `any` that declares a literal takes every value its own type takes for that literal: close
    # floats, NaN, equal numbers of another type are decided by the alternative's validator, not by `==`
    ("schema.any(schema.float(1.0), schema.str('a'))", "1.0000000001"), ("schema.any(schema.float(1.0), schema.str('a'))", "1.1"),
    ("schema.any(schema.float(float('nan')), schema.none)", "float('nan')"), ("schema.any(schema.float(1234.5).precision(2))", "1234.501"),
    ("schema.any(schema.int(1), schema.str('a'))", "True"), ("schema.any(schema.int(1), schema.str('a'))", "1.0"),
    ("schema.any(schema.str('a'), schema.str('b'), schema.int(3))", "'b'"), ("schema.any(schema.str('a'), schema.str('b'))", "'c'"),
    ("schema.list(schema.any(schema.float(0.1), schema.float(0.2)))", "[0.1, 0.2, 0.1 + 0.2 - 0.1, 0.30000000000000004]"),
    ("schema.dict({'k': schema.any(schema.float(2.5).min(2.0), schema.none)})", "{'k': 2.5000000001}"),
    ("schema.any(schema.list([schema.float(1.0)]), schema.none)", "[1.0000000001]"),
    # regex classes are Unicode-aware for str values (no re.ASCII): digits, letters and spaces beyond ASCII
    ("schema.str.regex(r'^\\d+$')", "'\u0663'"), ("schema.str.regex(r'^\\w+$')", "'caf\u00e9'"), ("schema.str.regex(r'\\W')", "'\u00e9'"),
    ("schema.str.regex(r'^\\D+$')", "'\u0663'"), ("schema.str.regex(r'^\\S+$')", "'a\u00a0b'"), ("schema.str.regex(r'\\s')", "'\u2003'"),
    ("schema.str.regex(r'^[\\w-]+$')", "'\u00fcber-\u0663'"), ("schema.str.regex(r'\\bb')", "'\u00e9b'"),
    ("schema.list(schema.str.regex(r'^\\d$'))", "['1', '\u0663', 'x']"), ("schema.dict({'n': schema.str.regex(r'^\\w{2}$')})", "{'n': '\u00e9\u00e8'}"),
    ("schema.str.regex('(?i)^stra\u00dfe$')", "'STRASSE'"), ("schema.str.regex('(?i)^stra\u00dfe$')", "'STRA\u1e9eE'"), ("schema.str.regex('(?i)^k$')", "'\u212a'"),
    # a fixed float with a precision whose scaled value leaves the float range: nothing but the value itself is accepted
    ("schema.float(1e307).precision(2)", "1.1e307"), ("schema.float(1e307).precision(2)", "float('inf')"), ("schema.float(1e307).precision(2)", "1e307"),
    ("schema.float(float('inf')).precision(1)", "1e308"), ("schema.float(-1e307).precision(3)", "-3.3e306"), ("schema.float(1.5e308).precision(15)", "1.6e308"),
    ("schema.list(schema.float(1e306).precision(3))", "[1e306, 1.0000001e306, float('inf')]"),
    # very long keys and values: messages and paths name them in full
    ("schema.dict({'k' * 300: schema.int, 'k' * 150 + 'X' + 'k' * 149: schema.int})", "{'k' * 300: 'a', 'k' * 150 + 'X' + 'k' * 149: 'b'}"),
    ("schema.dict({'k' * 300: schema.dict({'a': schema.int})})", "{'k' * 300: {}}"), ("schema.str('a' * 500)", "'a' * 499 + 'b'"),
    ("schema.list(schema.str.len(3))", "['a' * 300, 'a' * 149 + 'b' + 'a' * 150]"), ("schema.dict({'a': schema.int})", "{'a': 1, 'z' * 400: 2, 'z' * 200 + 'y' + 'z' * 199: 3}"),
    # aware datetimes: equality is equality of instants, whatever the offsets
    ("schema.datetime(datetime.datetime(2020, 1, 1, 12, tzinfo=datetime.timezone.utc))", "datetime.datetime(2020, 1, 1, 13, tzinfo=datetime.timezone(datetime.timedelta(hours=1)))"),
    ("schema.datetime(datetime.datetime(2020, 1, 1, 12, tzinfo=datetime.timezone.utc))", "datetime.datetime(2020, 1, 1, 12, tzinfo=datetime.timezone(datetime.timedelta(hours=1)))"),
    ("schema.list(schema.datetime(datetime.datetime(2020, 1, 1, 0, 30, tzinfo=datetime.timezone(datetime.timedelta(hours=5, minutes=30)))))",
     "[datetime.datetime(2019, 12, 31, 19, 0, tzinfo=datetime.timezone.utc), datetime.datetime(2020, 1, 1, 0, 30)]"),
    ("schema.any(schema.datetime(datetime.datetime(2020, 1, 1, 12, tzinfo=datetime.timezone.utc)), schema.none)", "datetime.datetime(2020, 1, 1, 4, tzinfo=datetime.timezone(datetime.timedelta(hours=-8)))"),
    # many errors at once (every one is reported, rendered and counted)
    ("schema.list(schema.int)", "['x'] * 25"), ("schema.list(schema.int.min(5))", "list(range(-30, 5))"),
    ("schema.dict({%s})" % ", ".join(f"'k{i}': schema.int" for i in range(30)), "{}"),
    ("schema.dict({%s})" % ", ".join(f"'k{i}': schema.str" for i in range(24)), "{'k%d' % i: i for i in range(24)}"),
    ("schema.list([%s])" % ", ".join(["schema.none"] * 22), "[1] * 22"), ("schema.dict({})", "{i: i for i in range(40)}"),
    # dict subclasses whose __missing__ invents members: a missing key is still missing
    ("schema.dict({'a': schema.int, 'b': schema.int})", "collections.Counter({'a': 1})"),
    ("schema.dict({'a': schema.int, 'b': schema.int})", "collections.defaultdict(int, {'a': 1})"),
    ("schema.dict({'a': schema.int, optional('b'): schema.int.min(1)})", "collections.defaultdict(int, {'a': 1})"),
    ("schema.dict({'a': schema.int, optional('b'): schema.list})", "collections.defaultdict(list, {'a': 1})"),
    ("schema.dict({'a': schema.int, 'b': schema.int})", "collections.OrderedDict({'b': 2, 'a': 1})"),
    ("schema.list(schema.dict({'k': schema.int}))", "[collections.Counter(), collections.Counter({'k': 2})]"),
    ("schema.dict({'a': schema.dict({'x': schema.int, ...: ...})})", "{'a': collections.defaultdict(int)}"),
    # a bare schema.any (or an alias of it) as an element is an element, not the `...` marker
    ("schema.list([schema.any])", "[]"), ("schema.list([schema.any])", "[1, 1]"), ("schema.list([schema.any])", "[None]"),
    ("schema.list([schema.int, schema.any])", "['x', 5]"), ("schema.list([schema.any, schema.int])", "[5]"),
    ("schema.list([schema.alias('A', schema.any)])", "[]"), ("schema.list([schema.any, schema.any])", "[1]"),
    ("schema.list([schema.any(schema.any)])", "[]"), ("schema.dict({'a': schema.list([schema.any])})", "{'a': []}"),
    ("schema.list([schema.any, ...])", "[]"), ("schema.list([..., schema.any])", "[]"),
]

UNRELATED = [None, True, 0, 1, -1, 1.5, "", "a", b"a", [], [1], {}, {"a": 1}, UUIDS[0], DATETIMES[0],
             DATES[0], [None], {"a": None}, 2 ** 70, math.nan]


# ------------------------------------------------------------------ plain values
def gen_plain(r, depth, nan=0.02):
    """A plain value (None/bool/int/float/str/bytes/uuid4/datetime/date/list/dict)."""
    c = r.randrange(13 if depth > 0 else 9)
    if depth > 0 and r.random() < 0.4:
        c = r.choice([9, 10, 11, 12])
    if c == 0:
        return None
    if c == 1:
        return r.choice([True, False])
    if c == 2:
        return r.choice(INTS if r.random() < 0.3 else SMALL_INTS)
    if c == 3:
        return _lit_float(r, nan)
    if c == 4:
        return r.choice(STRS)
    if c == 5:
        return r.choice([b"", b"ab", b"\x00\xff"])
    if c == 6:
        return r.choice(UUIDS)
    if c == 7:
        return r.choice(DATETIMES)
    if c == 8:
        return r.choice(DATES)
    if c in (9, 10):
        return [gen_plain(r, depth - 1, nan) for _ in range(r.randint(0, 3))]
    ks = r.sample(KEYS + [True, 2.0, b"k"], r.randint(0, 3))
    out = {}
    for k in ks:
        out[k] = gen_plain(r, depth - 1, nan)
    return out


NONPLAIN = [s for s in _ZOO_SRC if s not in ("True", "False", "None", "0", "1", "''", "b''", "[]", "{}", "1.0",
                                             "-0.0", "[[]]", "{'a': {}}", "float('inf')", "float('-inf')",
                                             "float('nan')", "10**400", "-10**400", "_IntSub(7)", "_StrSub('ab')",
                                             "_FloatSub(1.5)", "_ListSub([1])", "_DictSub({'a': 1})", "_IntColor.RED",
                                             "datetime.datetime(2020, 1, 2, 3, 4, 5)", "datetime.date(2020, 1, 2)",
                                             "datetime.datetime(2020, 1, 2, 3, 4, 5, tzinfo=datetime.timezone.utc)",
                                             "{None: 1}", "{1: 1}", "{b'k': 1}", "{1.5: 2}", "{(1, 2): 1}",
                                             "{frozenset(): 1}")]
