"""Driver:  check.py Cxx quick|thorough   |   check.py Cxx --replay <file>

Decision rule (DESIGN 2.3):
  tables -> make -> audit -> correspondence + direct oracle on /repo
  exit 0 if everything holds (KNOWN-FINDING lines for listed findings),
  exit 1 with 'VIOLATION property=Cxx replay=<path>' otherwise; when only a proof obligation
  or the correspondence broke and no property-violating input was found, the line ends
  with 'no-failing-input-found'.
"""
import importlib
import json
import os
import sys
import time
import traceback

sys.path.insert(0, os.path.dirname(os.path.abspath(__file__)))
import common  # noqa: E402
from common import Ctx, CheckBroken  # noqa: E402


def main():
    if len(sys.argv) < 3:
        print("usage: check.py Cxx quick|thorough | check.py Cxx --replay FILE")
        return 2
    prop = sys.argv[1]
    mod = importlib.import_module(f"props.{prop.lower()}")
    if sys.argv[2] == "--replay":
        data = json.load(open(sys.argv[3]))
        return mod.replay(data)
    tier = sys.argv[2]
    tier = os.environ.get("VERIF_TIER", tier) if os.environ.get("VERIF_TIER") in ("quick", "thorough") else tier
    seed = int(os.environ.get("VERIF_SEED", "0") or 0)
    ctx = Ctx(prop, tier, seed)
    t0 = time.time()

    # 0. the implementation must come from /repo's working tree
    import d42
    if not os.path.abspath(d42.__file__).startswith(os.path.abspath(common.REPO) + os.sep):
        raise CheckBroken(f"d42 imported from {d42.__file__}, expected {common.REPO}")

    # 1. regenerate the tables read from the running code
    import gen_tables
    tables = gen_tables.write_all()

    # 2. build the development
    wanted = [mod.PROPS_FILE, "theories/CaseLib.v"] + list(getattr(mod, "MODEL_FILES", []))
    all_ok, log = common.coq_build(targets=wanted)
    proof_ok = common.vo_fresh(mod.PROPS_FILE)      # this property's theorems and their closure
    build_note = ""
    if not proof_ok:
        build_note = log[-6000:]
    # the executable model must exist for the correspondence
    needed = ["theories/CaseLib.vo"] + [m[:-2] + ".vo" for m in getattr(mod, "MODEL_FILES", [])]
    for rel in needed:
        if not os.path.exists(os.path.join(common.COQ, rel)):
            raise CheckBroken(f"model file {rel} did not build:\n{log[-4000:]}")

    # 3. audit: forbidden vernacular, assumptions of the property's theorems
    bad_words = common.forbidden_words()
    if bad_words:
        raise CheckBroken("forbidden vernacular in the development: " + "; ".join(bad_words[:10]))
    props_file = mod.PROPS_FILE
    theorem_ok = proof_ok
    assumptions_out = ""
    if proof_ok:
        ok, out = common.coqc_file(props_file)
        assumptions_out = out
        theorem_ok = ok
        bad_ax = common.audit_assumptions(out)
        if bad_ax:
            raise CheckBroken("unexpected axioms under property theorems: " + ", ".join(bad_ax))
    total, done, names = common.count_obligations(props_file)
    if not theorem_ok:
        done = min(done, total - 1) if total else 0
    ctx.assumptions = common.parse_assumptions(assumptions_out)

    # 3b. thorough tier: independent re-check of the property's closure (coqchk -o), concurrently
    chk = common.coqchk_start(props_file) if (tier == "thorough" and proof_ok) else None

    # 4. the property's own exploration of /repo: correspondence + oracle
    mod.run(ctx)

    coqchk_report = None
    if chk is not None:
        chk_ok, coqchk_report = common.coqchk_collect(chk)
        if not chk_ok:
            raise CheckBroken("coqchk -o does not accept the property's closure: " + json.dumps(coqchk_report)[:1500])

    # 5. decide
    wall = time.time() - t0
    proof_info = {
        "obligations": total, "discharged": done,
        "checker_cmd": "coq_makefile -f _CoqProject -o Makefile && make -j16 (coqc 8.16.1, full .vo build) ; coqc "
                       + props_file + " (Print Assumptions)",
        "trusted_base": common.TRUSTED_BASE + getattr(mod, "EXTRA_TRUSTED", []),
        "theorems": names,
        "tables_regenerated": tables,
        "assumptions_printed": assumptions_out[-6000:],
    }
    if coqchk_report is not None:
        proof_info["coqchk"] = coqchk_report
    rc = 0
    lines = []
    for fid, (k, example) in sorted(ctx.known_seen.items()):
        lines.append(f"KNOWN-FINDING: property={prop} {fid} {k['what']} (e.g. {example})")
    for k in ctx.known:
        if k["id"] not in ctx.known_seen:
            lines.append(f"note: listed finding {k['id']} of {prop} was not reproduced by this run")
    if ctx.violations:
        rc = 1
        ordered = sorted(ctx.violations, key=lambda v: not v[2])
        what, replay, found = ordered[0]
        path = common.write_replay(prop, what, replay)
        for w, rp, _ in ordered[1:6]:
            common.write_replay(prop, w, rp)
        lines.append(f"VIOLATION property={prop} replay={path}" + ("" if found else " no-failing-input-found"))
    elif not theorem_ok:
        rc = 1
        path = common.write_replay(prop, "proof obligation no longer checks", {
            "kind": "unchecked-obligation", "theorem_file": props_file, "theorems": names,
            "build_log_tail": build_note or assumptions_out[-3000:]})
        lines.append(f"VIOLATION property={prop} replay={path} no-failing-input-found")
    common.write_evidence(ctx, proof_info, wall)
    for ln in lines:
        print(ln)
    print(f"{prop} {tier}: evaluations={ctx.coverage.get('evaluations')} "
          f"obligations={done}/{total} violations={len(ctx.violations)} wall={wall:.1f}s")
    return rc


if __name__ == "__main__":
    try:
        sys.exit(main())
    except CheckBroken as e:
        print("CHECK-BROKEN:", e)
        sys.exit(3)
    except Exception:
        traceback.print_exc()
        print("CHECK-BROKEN: unexpected exception in the harness")
        sys.exit(3)
