"""Tape-scripted replacement of Python's random module functions used by d42
(d42/generation/_random.py calls random.randint / random.choice / random.uniform /
random.seed / random.shuffle).  Decoding of a tape entry is exactly coq/theories/PyRandom.v.

Two ways to use it:
  * Tape(entries): replay a fixed list of naturals (0 when exhausted);
  * Policy(rng, mode): choose each entry on the fly so that the draw hits its minimum /
    maximum / a random outcome, and record the entries, so the recorded tape can be handed
    to the Coq model.
Use `with scripted(t): ...` to install; everything is restored afterwards.
"""
import contextlib
import math
import random as _random
import struct


def float_bits(x):
    return struct.unpack("<Q", struct.pack("<d", x))[0]


def bits_float(n):
    x = struct.unpack("<d", struct.pack("<Q", n % (1 << 64)))[0]
    if x != x or x in (math.inf, -math.inf):
        return None
    return x


class Tape:
    def __init__(self, entries=()):
        self.entries = list(entries)
        self.pos = 0
        self.used = []          # entries actually consumed
        self.calls = []         # (kind, args summary) per draw

    def _next(self, kind, info, span=None, lo=None, hi=None):
        if self.pos < len(self.entries):
            x = self.entries[self.pos]
        else:
            x = 0
        self.pos += 1
        self.used.append(x)
        self.calls.append((kind, info))
        return x

    # --- the three primitives, decoding as in PyRandom.v
    def randint(self, a, b):
        if a > b:
            raise ValueError(f"empty range in randrange({a}, {b + 1})")
        x = self._next("randint", (a, b), span=b - a + 1)
        return a + x % (b - a + 1)

    def choice(self, seq):
        if not len(seq):
            raise IndexError("Cannot choose from an empty sequence")
        x = self._next("choice", len(seq), span=len(seq))
        return seq[x % len(seq)]

    def uniform(self, a, b):
        x = self._next("uniform", (a, b), lo=a, hi=b)
        f = bits_float(x)
        if f is not None and a <= f <= b:
            return f
        return a

    # --- primitives the modelled code does NOT use (PyRandom.v has three): a rewrite of d42 that switches to
    # one of them is answered with the extreme outcomes in turn - "every outcome of the random draws" covers them
    # too - and recorded in `foreign`, so that the run can be told apart from a modelled one
    _UNIT = (0.0, 1.0 - 2.0 ** -53, 0.5, 2.0 ** -53, 0.75)

    def _foreign(self, kind):
        if not hasattr(self, "foreign"):
            self.foreign = []
        self.foreign.append(kind)
        return len(self.foreign) - 1

    def random(self):
        return self._UNIT[self._foreign("random") % len(self._UNIT)]

    def randrange(self, start, stop=None, step=1):
        if stop is None:
            start, stop = 0, start
        n = len(range(start, stop, step))
        if n <= 0:
            raise ValueError("empty range for randrange()")
        k = self._foreign("randrange")
        return range(start, stop, step)[(0, n - 1, n // 2)[k % 3]]

    def getrandbits(self, k):
        i = self._foreign("getrandbits")
        return (0, (1 << k) - 1, 1 << (k - 1) if k else 0)[i % 3]

    def sample(self, population, k, **kw):
        i = self._foreign("sample")
        seq = list(population)
        return (seq[:k], seq[::-1][:k], seq[len(seq) // 2:] + seq[:len(seq) // 2])[i % 3][:k]

    def choices(self, population, weights=None, *, cum_weights=None, k=1):
        i = self._foreign("choices")
        seq = list(population)
        return [seq[(0, len(seq) - 1, len(seq) // 2)[(i + j) % 3]] for j in range(k)]

    def triangular(self, low=0.0, high=1.0, mode=None):
        return (low, high, (low + high) / 2)[self._foreign("triangular") % 3]

    def seed(self, *a, **k):
        return None

    def shuffle(self, x):
        raise RuntimeError("random.shuffle is not used by the modelled code")


class Policy(Tape):
    """mode: 'min' | 'max' | 'alt' | 'rand' ; entries are chosen per draw and recorded."""

    def __init__(self, rng, mode):
        super().__init__(())
        self.rng = rng
        self.mode = mode
        self.n = 0

    def _pick(self):
        m = self.mode
        if m == "alt":
            m = "min" if self.n % 2 == 0 else "max"
        elif m == "rand":
            m = self.rng.choice(["min", "max", "rand", "rand", "rand"])
        self.n += 1
        return m

    def _next(self, kind, info, span=None, lo=None, hi=None):
        m = self._pick()
        if kind == "uniform":
            if m == "min":
                x = float_bits(lo)
            elif m == "max":
                x = float_bits(hi)
            else:
                try:
                    f = self.rng.uniform(lo, hi)
                    x = float_bits(f) if (f == f and abs(f) != math.inf) else float_bits(lo)
                except (OverflowError, ValueError):
                    x = 0
        else:
            if m == "min":
                x = 0
            elif m == "max":
                x = span - 1
            else:
                x = self.rng.randrange(span) if span < (1 << 62) else self.rng.randrange(1 << 62)
                if self.rng.random() < 0.2:
                    x += span * self.rng.randrange(3)      # exercise the modulus
        self.pos += 1
        self.used.append(x)
        self.calls.append((kind, info))
        return x


@contextlib.contextmanager
def scripted(t):
    saved = (_random.randint, _random.choice, _random.uniform, _random.seed, _random.shuffle)
    names = ("random", "randrange", "getrandbits", "sample", "choices", "triangular") if getattr(t, "script_foreign", True) else ()
    saved_foreign = [getattr(_random, nm) for nm in names]
    _random.randint, _random.choice, _random.uniform = t.randint, t.choice, t.uniform
    _random.seed, _random.shuffle = t.seed, t.shuffle
    for nm in names:
        setattr(_random, nm, getattr(t, nm))
    try:
        yield t
    finally:
        (_random.randint, _random.choice, _random.uniform, _random.seed, _random.shuffle) = saved
        for nm, f in zip(names, saved_foreign):
            setattr(_random, nm, f)


def ctape(entries):
    """Coq literal of a tape (list N; case files open N_scope)."""
    return "[" + ";".join(str(e) if e < 10 ** 40 else hex(e) for e in entries) + "]"
