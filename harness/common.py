"""Shared plumbing of the checks: paths, Coq build and audit, case-file evaluation,
known findings, replays, evidence."""
import concurrent.futures
import fcntl
import hashlib
import json
import os
import re
import subprocess
import sys
import time

VERIF = os.path.dirname(os.path.dirname(os.path.abspath(__file__)))
COQ = os.path.join(VERIF, "coq")
REPO = os.environ.get("D42_REPO", "/repo")
WORK = os.path.join(VERIF, ".work")
PY = sys.executable

COQ_FLAGS = ["-Q", "theories", "D42", "-Q", "proofs", "D42P", "-Q", "props", "D42Props",
             "-Q", "generated", "D42Gen", "-w",
             "-notation-overridden,-deprecated-hint-without-locality,-deprecated-instance-without-locality"]

FORBIDDEN = re.compile(
    r"\b(Admitted|admit|Axiom|Axioms|Parameter|Parameters|Conjecture|Admit Obligations|"
    r"Unset Guard Checking|Unset Positivity Checking|Unset Universe Checking|bypass_check|"
    r"native_compute|Hypothesis|Variable|Variables|Hypotheses)\b")


class CheckBroken(Exception):
    """The machinery itself failed (not a verdict about the property)."""


def sh(cmd, cwd=None, timeout=600, env=None):
    p = subprocess.run(cmd, cwd=cwd, timeout=timeout, env=env, stdout=subprocess.PIPE,
                       stderr=subprocess.STDOUT, text=True)
    return p.returncode, p.stdout


# ------------------------------------------------------------------ Coq build / audit
def coq_sources():
    out = []
    for d in ("theories", "proofs", "props", "generated"):
        full = os.path.join(COQ, d)
        if os.path.isdir(full):
            for f in sorted(os.listdir(full)):
                if f.endswith(".v"):
                    out.append(os.path.join(d, f))
    return out


def forbidden_words():
    """Occurrences of forbidden vernacular outside Section scopes (Variable/Hypothesis are
    allowed inside a Section only)."""
    bad = []
    for rel in coq_sources():
        depth = 0
        text = open(os.path.join(COQ, rel)).read()
        text = re.sub(r"\(\*.*?\*\)", lambda m: " " * len(m.group(0)), text, flags=re.S)
        for ln, line in enumerate(text.split("\n"), 1):
            if re.match(r"\s*Section\s", line):
                depth += 1
            if re.match(r"\s*End\s", line) and depth > 0:
                depth -= 1
            for m in FORBIDDEN.finditer(line):
                w = m.group(1)
                if w in ("Hypothesis", "Variable", "Variables", "Hypotheses") and depth > 0:
                    continue
                bad.append(f"{rel}:{ln}: {w}")
    return bad


PROJECT_HEADER = """-Q theories D42
-Q proofs D42P
-Q props D42Props
-Q generated D42Gen
-arg -w -arg -notation-overridden,-deprecated-hint-without-locality,-deprecated-instance-without-locality
"""


def write_coqproject():
    """_CoqProject lists every .v file of the four directories (coq_makefile orders them by
    coqdep); rewritten only when the set of files changed."""
    text = PROJECT_HEADER + "".join(r + "\n" for r in coq_sources())
    cp = os.path.join(COQ, "_CoqProject")
    old = open(cp).read() if os.path.exists(cp) else None
    if old != text:
        with open(cp, "w") as f:
            f.write(text)
        return True
    return False


def coq_build(jobs=16, targets=None):
    """Full .vo build under a lock (make -k: a file that no longer compiles stops only what
    depends on it; every coqc under a timeout).  targets: list of .v paths relative to coq/
    whose .vo (and dependencies) are wanted; None = everything.  Returns (all_ok, log)."""
    os.makedirs(WORK, exist_ok=True)
    with open(os.path.join(WORK, "build.lock"), "w") as lk:
        fcntl.flock(lk, fcntl.LOCK_EX)
        changed = write_coqproject()
        mk = os.path.join(COQ, "Makefile")
        if changed or not os.path.exists(mk):
            rc, out = sh(["coq_makefile", "-f", "_CoqProject", "-o", "Makefile"], cwd=COQ)
            if rc != 0:
                return False, out
        cmd = ["timeout", "2400", "make", "-k", f"-j{jobs}", "COQC=timeout 900 coqc"]
        if targets:
            cmd += [t[:-2] + ".vo" for t in targets]
        rc, out = sh(cmd, cwd=COQ, timeout=2500)
        return rc == 0, out


def vo_fresh(rel):
    """rel (a .v path relative to coq/) and everything it requires has an up-to-date .vo"""
    for r in requires_closure(rel):
        src = os.path.join(COQ, r)
        vo = src[:-2] + ".vo"
        if not os.path.exists(vo) or os.path.getmtime(vo) < os.path.getmtime(src):
            return False
    return True


def coqc_file(rel, timeout=300):
    """Compile one file of the development (used to capture Print Assumptions output)."""
    rc, out = sh(["timeout", str(timeout), "coqc"] + COQ_FLAGS + [rel], cwd=COQ, timeout=timeout + 10)
    return rc == 0, out


def requires_closure(rel):
    """Project files the given file depends on (transitively), itself included."""
    seen = []
    todo = [rel]
    index = {}
    for r in coq_sources():
        d, f = os.path.split(r)
        lib = {"theories": "D42", "proofs": "D42P", "props": "D42Props", "generated": "D42Gen"}[d]
        index[f"{lib}.{f[:-2]}"] = r
    while todo:
        cur = todo.pop()
        if cur in seen:
            continue
        seen.append(cur)
        text = open(os.path.join(COQ, cur)).read()
        for m in re.finditer(r"Require\s+(?:Import\s+|Export\s+)?((?:[A-Za-z0-9_.']+\s+)*[A-Za-z0-9_.']+)\s*\.(?=\s|$)", text):
            for name in m.group(1).split():
                if name in index:
                    todo.append(index[name])
    return seen


STMT = re.compile(r"^\s*(Theorem|Lemma|Corollary|Example|Fact|Remark|Proposition)\s+([A-Za-z0-9_']+)", re.M)


def count_obligations(rel):
    """(number of proved statements in the closure of rel, number whose file has an up-to-date .vo)"""
    total = 0
    done = 0
    names = []
    for r in requires_closure(rel):
        text = open(os.path.join(COQ, r)).read()
        text = re.sub(r"\(\*.*?\*\)", "", text, flags=re.S)
        st = STMT.findall(text)
        total += len(st)
        vo = os.path.join(COQ, r[:-2] + ".vo")
        if os.path.exists(vo) and os.path.getmtime(vo) >= os.path.getmtime(os.path.join(COQ, r)):
            done += len(st)
        if r.startswith("props/"):
            names += [n for _, n in st]
    return total, done, names


def parse_assumptions(out):
    """Print Assumptions blocks -> {theorem: [axiom lines]} (best effort, verbatim kept too)."""
    res = []
    for block in re.split(r"\n(?=Closed under the global context|Axioms:)", out):
        block = block.strip()
        if block.startswith("Closed under"):
            res.append("Closed under the global context")
        elif block.startswith("Axioms:"):
            res.append(block)
    return res


STDLIB = "/usr/lib/ocaml/coq/theories"


def _stdlib_primitives():
    """names declared with `Primitive` in Coq's PrimFloat / PrimInt63 (they are listed by
    Print Assumptions but are not axioms of this development) and the axioms of FloatAxioms /
    the standard logical axioms the brief allows."""
    names = set()
    for rel in ("Floats/PrimFloat.v", "Numbers/Cyclic/Int63/PrimInt63.v", "Array/PArray.v"):
        try:
            text = open(os.path.join(STDLIB, rel)).read()
        except OSError:
            continue
        names.update(re.findall(r"^\s*Primitive\s+([A-Za-z0-9_']+)", text, re.M))
    try:
        text = open(os.path.join(STDLIB, "Floats/FloatAxioms.v")).read()
        names.update(re.findall(r"^\s*Axiom\s+([A-Za-z0-9_']+)", text, re.M))
    except OSError:
        pass
    names.update(["functional_extensionality_dep", "eq_rect_eq", "JMeq_eq", "classic", "proof_irrelevance",
                  "propositional_extensionality"])
    return names


_PRIMS = None


def audit_assumptions(out):
    """Return the axioms that are neither primitives nor declared by the standard library."""
    global _PRIMS
    if _PRIMS is None:
        _PRIMS = _stdlib_primitives()
    bad = []
    for block in parse_assumptions(out):
        if not block.startswith("Axioms:"):
            continue
        body = block[len("Axioms:"):]
        for m in re.finditer(r"^([A-Za-z_][A-Za-z0-9_.']*)\s*(?::|$)", body, re.M):
            name = m.group(1)
            if name.split(".")[-1] not in _PRIMS:
                bad.append(name)
    return sorted(set(bad))



def coqchk_start(rel, timeout=2400):
    """Start coqchk -o on a compiled property file (independent re-check of its whole closure);
    returns the process, to be collected with coqchk_collect."""
    lib = "D42Props." + os.path.basename(rel)[:-2]
    flags = []
    it = iter(COQ_FLAGS)
    for a in it:
        if a == "-Q":
            flags += ["-Q", next(it), next(it)]
    cmd = ["timeout", str(timeout), "coqchk", "-silent", "-o"] + flags + [lib]
    return subprocess.Popen(cmd, cwd=COQ, stdout=subprocess.PIPE, stderr=subprocess.STDOUT, text=True)


def coqchk_collect(proc):
    """(ok, report): ok iff coqchk accepted every library of the closure, no axiom outside Coq's own
    libraries is relied upon, and nothing relies on type-in-type / unsafe fixpoints / assumed positivity."""
    out, _ = proc.communicate()
    report = {"exit": proc.returncode}
    sections = {}
    cur = None
    for line in out.splitlines():
        m = re.match(r"\* (.*?):\s*(<none>)?\s*$", line.strip())
        if m:
            cur = m.group(1)
            sections[cur] = []
            continue
        if cur and line.strip():
            sections[cur].append(line.strip())
    axioms = sections.get("Axioms", [])
    foreign = [a for a in axioms if not a.startswith("Coq.")]
    report["axioms_of_loaded_libraries"] = len(axioms)
    report["axioms_outside_coq_stdlib"] = foreign
    report["axiom_families"] = sorted({".".join(a.split(".")[:-1]) for a in axioms})
    flags_ok = True
    for key in ("Constants/Inductives relying on type-in-type", "Constants/Inductives relying on unsafe (co)fixpoints",
                "Inductives whose positivity is assumed"):
        report[key] = sections.get(key, ["<section missing>"])
        if report[key]:
            flags_ok = False
    ok = proc.returncode == 0 and not foreign and flags_ok and "Axioms" in sections
    if not ok:
        report["tail"] = out[-2000:]
    return ok, report

# ------------------------------------------------------------------ case files
CASE_HEADER = """From Coq Require Import PrimFloat.
Require Import D42.Prelude D42.PyFloat D42.Value D42.Regex D42.Schema D42.Validate D42.CaseLib.
{extra}
Open Scope N_scope.
"""


def _write_case_file(path, extra_requires, ctype, okfn, terms, chunk=150):
    with open(path, "w") as f:
        f.write(CASE_HEADER.format(extra=extra_requires))
        names = []
        for i in range(0, len(terms), chunk):
            nm = f"c{i // chunk}"
            names.append(nm)
            f.write(f"Definition {nm} : list ({ctype}) := [\n")
            f.write(";\n".join(terms[i:i + chunk]))
            f.write("].\n")
        allc = " ++ ".join(names) if names else "[]"
        f.write(f"Eval vm_compute in mismatches ({okfn}) ({allc}).\n")


def _eval_case_file(path, limit=600):
    d, fn = os.path.split(path)
    rel = os.path.relpath(path, COQ)
    lib = os.path.splitext(fn)[0]
    cmd = ["timeout", str(limit), "coqc"] + COQ_FLAGS + ["-Q", os.path.relpath(d, COQ), "D42Cases", rel]
    rc, out = sh(cmd, cwd=COQ, timeout=limit + 20)
    if rc == 124:
        return "timeout", out
    if rc != 0:
        return None, out
    m = re.search(r"=\s*\[(.*?)\]\s*:\s*list nat", out, re.S)
    if not m:
        return None, out
    body = m.group(1)
    idx = [int(x) for x in re.findall(r"\d+", body)]
    return idx, out


def eval_cases(workdir, name, terms, ctype, okfn, extra_requires="", per_file=400, jobs=16, slow=None, limit=600):
    """Evaluate the model on the cases inside Coq; returns the list of global indices where
    model and implementation disagree.  Raises CheckBroken if Coq rejects a case file.
    slow: when a list is given, a case file that exceeds `limit` seconds is re-evaluated one case per file
    (60 s each) and the indices of the cases that still do not finish are appended to it instead of
    breaking the check (evaluation cost of the executable model is not a verdict about the code)."""
    os.makedirs(workdir, exist_ok=True)
    files = []
    for k in range(0, len(terms), per_file):
        p = os.path.join(workdir, f"cases_{name}_{k // per_file}.v")
        _write_case_file(p, extra_requires, ctype, okfn, terms[k:k + per_file])
        files.append((k, p))
    bad = []
    retry = []
    with concurrent.futures.ThreadPoolExecutor(max_workers=jobs) as ex:
        for (k, p), (idx, out) in zip(files, ex.map(lambda kp: _eval_case_file(kp[1], limit), files)):
            if idx == "timeout" and slow is not None:
                retry.append(k)
                continue
            if idx is None or idx == "timeout":
                raise CheckBroken(f"coqc failed on {p}:\n{out[-3000:]}")
            bad += [k + i for i in idx]
        singles = []
        for k in retry:
            for i in range(k, min(k + per_file, len(terms))):
                p = os.path.join(workdir, f"cases_{name}_one_{i}.v")
                _write_case_file(p, extra_requires, ctype, okfn, terms[i:i + 1])
                singles.append((i, p))
        for (i, p), (idx, out) in zip(singles, ex.map(lambda kp: _eval_case_file(kp[1], 60), singles)):
            if idx == "timeout":
                slow.append(i)
            elif idx is None:
                raise CheckBroken(f"coqc failed on {p}:\n{out[-3000:]}")
            elif idx:
                bad.append(i)
        files += singles
    for _, p in files:
        base = p[:-2]
        for ext in (".vo", ".vok", ".vos", ".glob"):
            try:
                os.remove(base + ext)
            except OSError:
                pass
        try:
            os.remove(os.path.join(os.path.dirname(p), "." + os.path.basename(base) + ".aux"))
        except OSError:
            pass
    return bad


# ------------------------------------------------------------------ known findings
def load_known_findings():
    """KNOWN_FINDINGS.txt: lines 'open: property=C15 id=F19 match=<classifier> what=<text>'
    and 'fixed: property=C11 <commit> <what>'."""
    path = os.path.join(VERIF, "KNOWN_FINDINGS.txt")
    out = []
    if not os.path.exists(path):
        return out
    for line in open(path):
        line = line.strip()
        if not line or line.startswith("#"):
            continue
        if line.startswith("open:"):
            d = {"state": "open"}
            m = re.match(r"open:\s+property=(\S+)\s+id=(\S+)\s+match=(\S+)\s+what=(.*)$", line)
            if not m:
                raise CheckBroken(f"bad KNOWN_FINDINGS line: {line}")
            d.update(property=m.group(1), id=m.group(2), match=m.group(3), what=m.group(4))
            out.append(d)
        elif line.startswith("fixed:"):
            out.append({"state": "fixed", "line": line})
    return out


# ------------------------------------------------------------------ result accumulation
class Ctx:
    def __init__(self, prop, tier, seed):
        import random
        self.prop = prop
        self.tier = tier
        self.seed = seed
        self.rng = random.Random((seed * 1000003) ^ int(hashlib.sha1(prop.encode()).hexdigest()[:8], 16))
        self.workdir = os.path.join(WORK, prop)
        self.t0 = time.time()
        self.violations = []       # (what, replay dict)
        self.known_seen = {}       # id -> (finding, example)
        self.coverage = {"evaluations": 0, "distinct_nontrivial": 0, "samples": [], "rule": ""}
        self.notes = {}
        self.known = [k for k in load_known_findings() if k.get("property") == prop and k["state"] == "open"]
        self.assumptions = []

    def thorough(self):
        return self.tier == "thorough"

    def scale(self, quick, thorough):
        return thorough if self.thorough() else quick

    def violation(self, what, replay, failing_input=True):
        """failing_input=False: a proof obligation or the correspondence broke but no input
        violating the property itself was found."""
        self.violations.append((what, replay, failing_input))

    def known_finding(self, fid, example):
        for k in self.known:
            if k["id"] == fid:
                if fid not in self.known_seen:
                    self.known_seen[fid] = (k, example)
                return True
        return False


def srepr(x):
    """repr() that cannot raise (a schema holding an int beyond CPython's int->str limit)"""
    try:
        return repr(x)
    except Exception as e:  # noqa
        return f"<{type(x).__name__}: repr raised {type(e).__name__}>"


def write_replay(prop, what, replay):
    os.makedirs(os.path.join(VERIF, "replays"), exist_ok=True)
    blob = json.dumps({"property": prop, "what": what, **replay}, indent=1, sort_keys=True, default=str)
    digest = hashlib.sha1(blob.encode()).hexdigest()[:12]
    path = os.path.join(VERIF, "replays", f"{prop}-{digest}.json")
    with open(path, "w") as f:
        f.write(blob + "\n")
    return path


def write_evidence(ctx, proof_info, wall):
    cov = dict(ctx.coverage)
    cov.update(proof_info)
    cov["known_findings_seen"] = sorted(ctx.known_seen)
    cov.update(ctx.notes)
    ev = {
        "property_id": ctx.prop, "tier": ctx.tier, "seed": ctx.seed, "level": "proof",
        "coverage": cov,
        "assumptions": ctx.assumptions,
        "wall_s": round(wall, 2),
        "violations": len(ctx.violations),
    }
    # evidence/ describes runs against /repo itself; a run against a scratch copy (bin/mutcheck sets
    # D42_REPO) writes its record under .work/ instead
    evdir = os.path.join(VERIF, "evidence") if os.path.abspath(REPO) == "/repo" else os.path.join(VERIF, ".work", "evidence-scratch")
    os.makedirs(evdir, exist_ok=True)
    with open(os.path.join(evdir, f"{ctx.prop}.json"), "w") as f:
        json.dump(ev, f, indent=1, default=str)
        f.write("\n")


TRUSTED_BASE = [
    "Coq 8.16.1 kernel incl. its VM (vm_compute used for reflection and witnesses); no native_compute",
    "Coq standard-library axioms for primitive floats/ints (FloatAxioms, PrimFloat, Uint63) where Print Assumptions lists them",
    "hand-written Gallina model of d42 (coq/theories); tie = per-run correspondence on generated cases (harness/)",
    "harness abstraction function Python object -> Coq term (harness/absn.py), case writer, CPython 3.12 executing /repo",
    "modelled not verified: Python isinstance/==/< on the value kinds, dict ordering/key equality, str ops, round/int/isclose on doubles, re engine on the supported fragment, random range contract, th.PathHolder; repr()/str() taken as total (CPython's default 4300-digit int->str limit is outside the model: validation messages were repaired as F28, the printed form of schemas and declaration/substitution messages for such ints still raise ValueError)",
]
