"""Shared machinery of C10 / C11 (and the expression side of C06): the boundary universe of
declaration calls, running call chains on the implementation, abstraction of calls to Coq
terms of theories/Declare.v, and the direct oracles that do not depend on the model."""
import math
import re
import sys

from niltype import Nil

import absn
import gen
from absn import Unmodelled, cbool, clist, cschema, cstr, cvalue, ckey
from d42 import optional, schema, validate
from d42.declaration import DeclarationError, Schema
from d42.declaration.types import (
    AnySchema, BoolSchema, BytesSchema, DateSchema, DateTimeSchema, DictSchema, FloatSchema,
    IntSchema, ListSchema, NoneSchema, StrSchema, UUID4Schema,
)

NS = dict(gen.NS)
NS["re"] = re

REQUIRES = "Require Import D42.Declare D42.CaseDeclare."

METH = {"call": "MCall", "min": "MMin", "max": "MMax", "precision": "MPrecision", "len": "MLen",
        "alphabet": "MAlphabet", "contains": "MContains", "regex": "MRegex"}

# wrongly typed / boundary values offered to every parameter of every method
COMMON = ["None", "True", "1.5", "'x'", "b'x'", "[]", "{}", "...", "Nil", "-1", "2**70",
          "float('nan')", "float('inf')"]

U4 = "UUID('886313e1-3b8a-4372-9b90-0c9aee199e5d')"
U1 = "uuid.UUID(int=5, version=1)"
U0 = "UUID('00000000-0000-0000-0000-000000000000')"
DT = "datetime.datetime(2020, 1, 2, 3, 4, 5)"
DTZ = "datetime.datetime(2020, 1, 2, 3, 4, 5, tzinfo=datetime.timezone.utc)"
DD = "datetime.date(2020, 1, 2)"
# the ends of the datetime range, naive and with offsets that point outside it: nothing may be computed from the value
DT_EDGES = ["datetime.datetime.min", "datetime.datetime.max",
            "datetime.datetime.min.replace(tzinfo=datetime.timezone(datetime.timedelta(hours=5, minutes=30)))",
            "datetime.datetime.max.replace(tzinfo=datetime.timezone(datetime.timedelta(hours=-8)))",
            "datetime.datetime.max.replace(tzinfo=datetime.timezone(datetime.timedelta(hours=14)))",
            "datetime.datetime(1, 1, 1, 0, 0, 1, tzinfo=datetime.timezone(datetime.timedelta(seconds=86399)))",
            "datetime.datetime(2020, 1, 2, 1, 30, fold=1)"]


def _one(meth, srcs):
    return [(meth, (s,)) for s in srcs]


def _len_ops():
    ops = _one("len", COMMON + ["0", "1", "2", "6", "7", "False"])
    for a in ["0", "1", "2", "6", "7", "-1", "True", "'x'", "None", "1.5", "Nil"]:
        ops.append(("len", (a, "...")))
    for b in ["0", "1", "2", "5", "6", "-1", "True", "None", "'x'", "Nil", "..."]:
        ops.append(("len", ("...", b)))
    for a, b in [("0", "0"), ("0", "6"), ("1", "10"), ("6", "6"), ("2", "2"), ("7", "8"), ("5", "2"),
                 ("0", "1"), ("1", "'x'"), ("'x'", "1"), ("1.5", "2"), ("0", "Nil"), ("2", "Nil"),
                 ("Nil", "1"), ("None", "..."), ("True", "False"), ("-1", "-1"), ("2**70", "2**70")]:
        ops.append(("len", (a, b)))
    return ops


LIST_ARGS = [
    "[schema.any]", "[schema.any, schema.int(1)]", "[schema.alias('A', schema.any), ...]", "[..., schema.any]",
    "[schema.int(1), schema.int(2)]", "[schema.int(1), ...]", "[..., schema.int(1)]",
    "[..., schema.int(1), ...]", "[...]", "[..., ...]", "[schema.int, ..., schema.int]",
    "[..., ..., schema.int]", "[schema.int, ..., ...]", "[1]", "[schema.int, 1]", "[None]", "[Nil]",
    "schema.int", "schema.list([schema.str('a')])", "[schema.float(float('nan'))]",
    "[schema.none, schema.bool(True), schema.bytes(b''), schema.float(-0.0)]",
    "[schema.list([schema.int(1)]), schema.str('a').len(1)]",
    "[schema.int(0).min(0), schema.str('ab').alphabet('ab').contains('b').len(1, 2)]",
    "[schema.str('banana').regex('an+a'), schema.float(2.5).min(2.5).max(2.5).precision(1)]",
    "[schema.int]", "[schema.list([schema.int(1), ...])]", "[schema.list(schema.int)]",
    f"[schema.uuid4({U4}), schema.datetime({DT}), schema.date({DD})]",
    "[schema.dict({'a': schema.int(1)})]", "[schema.any(schema.int(1))]", "'ab'", "(schema.int,)",
]

DICT_ARGS = [
    "{'a': schema.int}", "{optional('a'): schema.int, 'a': schema.str}",
    "{'a': schema.int, optional('a'): schema.str}", "{...: ...}", "{'a': schema.int, ...: ...}",
    "{...: ..., 'a': schema.int}", "{...: schema.int}", "{'a': ...}", "{optional('a'): ...}",
    "{'a': 1}", "{'a': None}", "{'a': Nil}", "{1: schema.int, optional(True): schema.str}",
    "{None: schema.none, b'k': schema.bytes, (1, 2): schema.int, 1.5: schema.str}",
    "schema.dict", "{'a': schema.dict({'b': schema.int, ...: ...}), optional('c'): schema.list([...])}",
    "[('a', schema.int)]", "{'a': [schema.int]}",
]

ANY_ARGS = [
    ("schema.int",), ("schema.any",), ("schema.any(schema.int, schema.str)",),
    ("schema.any(schema.any(schema.none))",), ("schema.int", "1"), ("1", "schema.int"),
    ("schema.int", "schema.any(schema.str, schema.any)"), ("schema.int", "..."),
    ("schema.int", "Nil"), ("schema.int", "None"), ("schema.none", "schema.none"),
    ("schema.any(schema.any(schema.int, schema.any(schema.str)), schema.bool)", "schema.any(schema.any)"),
    ("schema.list", "schema.dict", "schema.any(schema.int)"), ("[schema.int]",),
]

OPS = {
    "none": [],
    "bool": _one("call", COMMON + ["False"]),
    "int": (_one("call", COMMON + ["0", "5", "False"]) +
            _one("min", COMMON + ["0", "1", "5", "6", "False", "-2**70", "10**400"]) +
            _one("max", COMMON + ["0", "4", "5", "-2", "False", "-10**400"])),
    "float": (_one("call", COMMON + ["0.0", "-0.0", "2.5", "1", "float('-inf')"]) +
              # incl. bounds that differ only below a declared precision (1.24 / 1.2 at precision 1)
              _one("min", COMMON + ["0.0", "2.5", "3.5", "float('-inf')", "0", "2.5000000001", "1.24", "0.04", "10**400"]) +
              _one("max", COMMON + ["0.0", "2.5", "-0.5", "float('-inf')", "3", "1.2", "1.25", "-10**400"]) +
              _one("precision", COMMON + ["0", "1", "2", "15", "16", "False"])),
    "str": (_one("call", COMMON + ["''", "'banana'", "'ab'"]) +
            _one("alphabet", COMMON + ["''", "'abn'", "'ab'", "'xabn'"]) +
            _one("contains", COMMON + ["''", "'nan'", "'an'", "'z'", "'b'"]) +
            _one("regex", COMMON + ["'^$'", "'an+a'", "'('", "'a{99999999999}'", "'z'", "''", "'^x'",
                                    "'[a-b]+$'", "'a**'", "'^.{2}$'", "'(' * 3000 + ')' * 3000", "'(?a)(?u)x'", "'(?L)z'",
                                    # not a str, though it carries one: a compiled pattern (its flags are not part of `.pattern`)
                                    "re.compile('BANANA', re.I)", "re.compile('an+a')", "re.compile(b'an+a')"]) +
            _len_ops()),
    "list": _one("call", COMMON + LIST_ARGS) + _len_ops(),
    "dict": _one("call", COMMON + DICT_ARGS),
    "any": [("call", (s,)) for s in COMMON] + [("call", a) for a in ANY_ARGS],
    "bytes": _one("call", COMMON + ["b''", "bytearray(b'x')"]),
    "uuid4": _one("call", COMMON + [U4, U1, U0, "'886313e1-3b8a-4372-9b90-0c9aee199e5d'", "5"]),
    "datetime": _one("call", COMMON + [DT, DTZ, DD, "'2020-01-02'"] + DT_EDGES),
    "date": _one("call", COMMON + [DD, DT, "'2020-01-02'", "datetime.date.min", "datetime.date.max"]),
}


# small universes enumerated exhaustively to a greater length than OPS: a fixed value, a
# precision and bounds that lie between the value and its rounding; falsy / boundary lengths
FOCUS = {
    "float": (_one("call", ["1.16", "1.24", "0.0"]) + _one("precision", ["1", "0"]) +
              _one("min", ["1.2", "1.16", "0.0"]) + _one("max", ["1.2", "1.24", "0.0"]), 4),
    "int": (_one("call", ["0", "5"]) + _one("min", ["0", "5", "6"]) + _one("max", ["0", "5", "4"]), 3),
    "str": (_one("call", ["''", "'ab'"]) + _one("alphabet", ["''", "'ab'"]) + _one("contains", ["''", "'b'"]) +
            [("len", ("0",)), ("len", ("2",)), ("len", ("0", "...")), ("len", ("...", "0")), ("len", ("0", "0")),
             ("len", ("...", "2"))], 3),
    "list": (_one("call", ["[]", "[schema.int(0)]", "schema.int", "[schema.any]", "[schema.any, schema.int(1)]"]) +
             [("len", ("0",)), ("len", ("1",)), ("len", ("0", "...")), ("len", ("...", "0")), ("len", ("0", "0"))], 3),
}


def ev(src):
    return eval(src, dict(NS))


def call_src(meth, args):
    inner = ", ".join(args)
    return f"({inner})" if meth == "call" else f".{meth}({inner})"


def apply(receiver, meth, argvals):
    if meth == "call":
        return receiver(*argvals)
    return getattr(receiver, meth)(*argvals)


# ------------------------------------------------------------------ abstraction
def _compiles(p):
    try:
        re.compile(p)
        return True
    except Exception:  # noqa - re.error, OverflowError, RecursionError, ValueError (incompatible inline flags: F41)
        return False


def carg(a, kt, meth=None, depth=0):
    if depth > 20:
        raise Unmodelled("too deep")
    if isinstance(a, Schema):
        return f"(ASchema {cschema(a, kt)})"
    if isinstance(a, optional):
        raise Unmodelled("optional(...) object as an argument")
    if type(a) is list:
        return "(AList " + clist([carg(x, kt, None, depth + 1) for x in a]) + ")"
    if type(a) is dict:
        items = []
        for k, x in a.items():
            if isinstance(k, optional):
                if isinstance(k.key, optional):
                    raise Unmodelled("nested optional")
                ks = f"(DOpt {ckey(k.key, kt)})"
            else:
                ks = f"(DKey {ckey(k, kt)})"
            items.append(f"({ks}, {carg(x, kt, None, depth + 1)})")
        return "(ADict " + clist(items) + ")"
    if type(a) is str and meth == "regex":
        ok = _compiles(a)
        tree = absn.cre(a) if ok else "[]"
        return f"(APattern {cstr(a)} {tree} {cbool(ok)})"
    if isinstance(a, (list, dict)):
        raise Unmodelled("container subclass")
    return f"(AVal {cvalue(a, kt)})"


def cop(meth, argvals, kt):
    return f"({METH[meth]}, {clist([carg(a, kt, meth) for a in argvals])})"


def coutcome(kind, res, kt):
    if kind == "ok":
        return f"(Ok {cschema(res, kt)})"
    if kind == "decl":
        return "(Err DeclErr)"
    return f"(Raise {absn.cexn(res)})"


# ------------------------------------------------------------------ running a call
def snapshot(s):
    reg = s.props._registry
    return (type(s), repr(s), repr(reg), tuple((k, id(v)) for k, v in reg.items()))


def run_call(receiver, meth, args):
    """-> (kind, result-or-exception, receiver_unchanged)"""
    before = snapshot(receiver)
    argvals = [ev(a) for a in args]
    try:
        res = apply(receiver, meth, argvals)
        kind = "ok"
    except DeclarationError as e:
        kind, res = "decl", e
    except Exception as e:  # noqa
        kind, res = "raise", e
    return kind, res, snapshot(receiver) == before, argvals


# ------------------------------------------------------------------ model-independent facts
_VALUE_TYPES = (BoolSchema, IntSchema, FloatSchema, StrSchema, BytesSchema, UUID4Schema,
                DateTimeSchema, DateSchema)


def fixed_value(s):
    """(True, v) when s carries a fixed value / fully fixed element list, else (False, None)"""
    if type(s) is NoneSchema:
        return True, None
    if type(s) in _VALUE_TYPES:
        v = s.props.get("value")
        return (True, v) if v is not Nil else (False, None)
    if type(s) is ListSchema:
        es = s.props.get("elements")
        if es is Nil or s.props.get("type") is not Nil:
            return False, None
        out = []
        for e in es:
            if not isinstance(e, Schema):
                return False, None
            ok, v = fixed_value(e)
            if not ok:
                return False, None
            out.append(v)
        return True, out
    return False, None


def has_nan(v):
    if isinstance(v, float):
        return v != v
    if isinstance(v, list):
        return any(has_nan(x) for x in v)
    return False


def nan_param(s, depth=0):
    """some float parameter (value/min/max) anywhere in the schema is NaN"""
    if depth > 30 or not isinstance(s, Schema):
        return False
    for name in s.props:
        x = s.props.get(name)
        if isinstance(x, float) and x != x:
            return True
        if isinstance(x, Schema) and nan_param(x, depth + 1):
            return True
        if isinstance(x, (list, tuple)) and any(nan_param(e, depth + 1) for e in x):
            return True
        if isinstance(x, dict) and any(isinstance(p, tuple) and nan_param(p[0], depth + 1)
                                       for p in x.values()):
            return True
    return False


def _set(s, *names):
    return any(s.props.get(n) is not Nil for n in names)


def prop_declared(s, meth):
    """the property the method sets is already declared on s"""
    if meth == "call":
        if type(s) is ListSchema:
            return _set(s, "elements", "type")
        if type(s) is DictSchema:
            return _set(s, "keys")
        if type(s) is AnySchema:
            return _set(s, "types")
        return _set(s, "value")
    return {"min": _set(s, "min"), "max": _set(s, "max"), "precision": _set(s, "precision"),
            "len": _set(s, "len", "min_len", "max_len"), "alphabet": _set(s, "alphabet"),
            "contains": _set(s, "substr"), "regex": _set(s, "pattern")}[meth]


def check_environment():
    if sys.float_info.dig != 15:
        raise RuntimeError("sys.float_info.dig != 15: Declare.FLOAT_DIG is stale")


def extra_known(ctx):
    """Testing aid: VERIF_KNOWN_FINDINGS_EXTRA=<file> adds 'open:' lines for this run only
    (the committed KNOWN_FINDINGS.txt is never written)."""
    import os
    import re as _re
    path = os.environ.get("VERIF_KNOWN_FINDINGS_EXTRA")
    if not path or not os.path.exists(path):
        return
    for line in open(path):
        m = _re.match(r"open:\s+property=(\S+)\s+id=(\S+)\s+match=(\S+)\s+what=(.*)$", line.strip())
        if m and m.group(1) == ctx.prop and not any(k["id"] == m.group(2) for k in ctx.known):
            ctx.known.append({"state": "open", "property": m.group(1), "id": m.group(2),
                              "match": m.group(3), "what": m.group(4)})
