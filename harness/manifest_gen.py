"""Regenerate /verif/MANIFEST.json from the table below (run by hand after adding a check)."""
import json
import os

VERIF = os.path.dirname(os.path.dirname(os.path.abspath(__file__)))

COMMON_NOTE = ("Trusted: Coq 8.16.1 kernel + VM (no native_compute); stdlib primitive float/int axioms where "
               "Print Assumptions lists them; the hand-written Gallina model, tied to /repo on every run only by "
               "the correspondence check (differential testing, generator-bounded); harness abstraction "
               "Python->Coq; CPython. ")

CHECKS = {
    "C02": dict(
        text="Theorem validate_iff_conforms (Coq, all schemas/values/nesting depths): the model validator reports no "
             "error iff the value conforms to the declarative meaning. Tie: per-run differential check of the real "
             "validate() against the model on generated (schema, value) pairs incl. perturbations at every depth.",
        note=COMMON_NOTE + "Regex: re.search modelled by a derivative matcher on the supported fragment (ASCII "
             "\\d/\\w). Well-formed schemas only (what the DSL produces).",
        technique="Coq proof (nested induction over schemas) + vm_compute correspondence vs implementation",
        design="6 C02"),
    "C03": dict(
        text="Theorem errors_located_true (Coq, all schemas incl. ill-formed, both validators, all values): every "
             "reported error's path extends the position being validated, resolves from the root to exactly the "
             "value it reports, and the fact it states (per kind) is true; rendered_path_spec for the path printed "
             "in messages. Tie: per-run comparison of the whole ordered error list of the real validators with the "
             "model, plus a direct oracle on the implementation (path resolution, fact, message text).",
        note=COMMON_NOTE + "Message wording is not modelled, only which path is printed (checked by the oracle on "
             "the real Formatter). Float facts use Coq's FloatAxioms (mul_spec, eqb_spec, SF2Prim_Prim2SF). No open "
             "known finding; F35 (an error below a dict key that hashes by identity held a copy of the key; outside the "
             "model's value universe, checked by a direct probe) repaired by a fix: commit.",
        technique="Coq proof (Forall-invariant by nested induction) + vm_compute correspondence + direct oracle",
        design="6 C03"),
    "C08": dict(
        text="Theorem validate_total (Coq): the faithful partial model validateR, in which every Python operation "
             "that can raise on a bad operand is partial, returns Ok for every well-formed schema and EVERY value, "
             "and equals the total validator; validate_or_fail_spec. Tie: hostile-value zoo alone and injected at "
             "every position, exhaustive leaf-schema x zoo grid; raises/returns and error counts compared with the "
             "model; oracle: no exception, non-empty messages, validate_or_fail/format_result vs error list.",
        note=COMMON_NOTE + "Objects whose own special methods raise are excluded, as the property says. Formatter "
             "wording not modelled (non-emptiness checked on the real Formatter). F03, F28, F34, F35 (keys that cannot be deep-copied), F40 (paths holding a "
             "key repr() cannot print) repaired by fix: commits; probe of unusual keys DECLARED by the schema.",
        technique="Coq proof (partial-vs-total validator agreement) + vm_compute correspondence + direct oracle",
        design="6 C08"),
    "C14": dict(
        text="Theorems (Coq, all nested values, no bound on depth/size): fn_converts_exactly_plain / fn_refuses_nonplain "
             "(from_native returns a schema exactly for plain values and raises ValueError for every other value at any "
             "depth), fn_accepts (the schema is well-formed and its own value conforms, NaN included since the repair of F10), fn_rejects_different (every value the schema accepts is the same plain value "
             "up to True/False~1/0 and math.isclose), fn_generates_exactly (for every world and tape the generator "
             "returns exactly the value and consumes no draw). Tie: per-run comparison of from_native's "
             "result/exception with the model; oracle on /repo: validate(self), fake under a tape returns exactly the "
             "value consuming no draw, every one-step perturbation at every depth is rejected, non-plain zoo refused "
             "with ValueError.",
        note=COMMON_NOTE + "F10 (NaN) and F11 were repaired by fix: commits.",
        technique="Coq proof (nested induction over values) + vm_compute correspondence + direct oracle",
        design="6 C14"),
    "C05": dict(
        text="Theorem subst_narrows (Coq, all well-formed schemas, all plain values v with s % v defined, ALL values w, "
             "no bound on nesting/length): conforms (s % v) w -> conforms s w, by nested induction over the schema "
             "(scalars, typed lists, the four element-list forms incl. every contains-window, partial dicts, relaxed "
             "dicts, any-filtering, alias, custom); subst_narrows_verdict_closed (the same on validator verdicts with no "
             "hypothesis about the result: its well-formedness is proved, subst_result_wf); subst_chain_narrows / subst_chain_narrows_intermediate (chains "
             "((S % v1) % v2) ... % vn of ANY length: the final schema is well-formed and refines S and every intermediate "
             "schema, induction over the list of values). Tie: per-run comparison of the real substitute's resulting schema "
             "/ exception class with the model; oracle on /repo: for every successful S % v, third values w "
             "(generated from S % v under min/max/random tapes, perturbations, values conforming to S) accepted by "
             "S % v must be accepted by S; second values are substituted into a third of the successful results and "
             "(S % v) % v2 must refine S % v and S, the second step being compared with the model as well.",
        note=COMMON_NOTE + "A genuine defect found by this check (float tolerance drift, F26) was repaired by a fix: "
             "commit; the model mirrors the repaired code.",
        technique="Coq proof (nested induction over schemas, window/partial-dict lemmas) + vm_compute correspondence + direct oracle",
        design="6 C05"),
    "C04": dict(
        text="Theorems (Coq, all well-formed schemas, all plain values, ALL w): subst_pins (every value the substituted "
             "schema accepts carries the substituted data: scalars equal up to True/False~1/0 and the float tolerance, "
             "lists element-wise, dicts on every key given), subst_keeps_unspecified (absent dict keys keep schema, "
             "optionality and position), subst_accepts_value_partial ('if v conforms to S then S % v accepts v' for "
             "every schema without a choice point: no any with two or more alternatives, no [..., x, ...] list - "
             "decidable predicate choice_free, evaluated inside Coq for the schema of every case: where it holds the "
             "oracle accepts no known-finding excuse). The full clause is stated and "
             "REFUTED for the faithful model (subst_accepts_value_refuted: known findings F20/F25, witnesses replay on "
             "/repo); at choice points it is checked on /repo by the oracle. Proof is partial in that sense. The generation "
             "clause is proved as subst_generated_carries (under hsat - a decidable hypothesis on the original schema "
             "about what substitution leaves untouched - for every world and EVERY tape the result generates a value, "
             "which conforms to the result and carries v) and also checked on the real generator. Tie: per-run comparison of "
             "the real substitute's result with the model; oracle: (a) accepts-v, (b) generated/accepted values carry v, "
             "(c) unspecified keys unchanged.",
        note=COMMON_NOTE + "Known findings F20, F25 (choice points over partial dicts) are open and "
             "listed in KNOWN_FINDINGS.txt; classified by schema shape so other failures are still reported. F10 (NaN), "
             "F22, F26 were repaired by fix: commits.",
        technique="Coq proof (nested induction, positional window lemmas) + refutation witness by vm_compute + vm_compute correspondence + direct oracle",
        design="6 C04"),
    "C12": dict(
        text="Theorems (Coq): subst_only_substerr (all well-formed schemas, EVERY value incl. placeholders, opaque "
             "objects, unconvertible members: substitute returns a schema or fails with SubstitutionError, never "
             "another exception nor DeclarationError; ill_formed_raises shows the well-formedness hypothesis is needed, "
             "F22) and subst_idempotent + subst_result_revalidates (for every plain value with s % v = s': "
             "s' % v = s', the SAME schema, and the partial validator accepts v at every path - also at the choice "
             "points where 'the result accepts v' fails); subst_result_wf; subst_preserves_sat + "
             "subst_result_can_be_generated_from ('never returns a schema that cannot be generated from': under hsat - a "
             "decidable hypothesis on the ORIGINAL schema about the parts substitution leaves untouched - the result is "
             "sat, so for every world and every tape the generator returns a value the result accepts; "
             "sat_alone_is_not_preserved shows the hypothesis cannot be plain sat). hsatb is evaluated inside Coq for the "
             "schema of every plain case of a run; where it holds the usability oracle on /repo accepts no excuse. "
             "subst_chain_only_substerr / subst_chain_idempotent_at_end: chains ((S % v1) % v2) ... % vn of plain values, any "
             "length, end in a schema or in SubstitutionError and are idempotent in their last value; on /repo second values "
             "are substituted into a quarter of the successful container results (outcome class, idempotence).",
        note=COMMON_NOTE + "No open known finding. F08, F09, F10 (NaN), F11, F22, F28, F31 (a '...' member of "
             "an untyped dict), F38 (the substitutor's own messages for values repr() cannot print), F40 (paths holding such a key) were repaired by fix: commits.",
        technique="Coq proof (outcome-class invariant + fixpoint lemma by nested induction over schemas and values) + vm_compute correspondence + direct oracle",
        design="6 C12"),
    "C18": dict(
        text="Theorems (Coq, all depths/fan-outs/orders of flat keys, no bound): split_join; rollout_flatten_inverse (for "
             "every well-formed tree, every permutation of its separator-joined flattening, rollout returns a dict "
             "equal - Python's order-insensitive nested == incl. optional flags and payload identity - to the tree, "
             "under unambiguous_tmap; discharged for 1-character separators by sepfree); rollout_nested_id; refuted "
             "witnesses for the carved-out corners (ambiguous multi-character separator, empty interior node, optional "
             "interior key). Tie: real rollout result/exception vs the faithful string-level model incl. key order; "
             "oracle: rollout(flatten(t)) == t with payload identity, nested input unchanged.",
        note=COMMON_NOTE + "Closed under the global context. Ambiguity of multi-character separators is a fact about "
             "strings (stated as hypothesis unambiguous_tmap), not a d42 defect.",
        technique="Coq proof (loop invariant + tree induction, Permutation) + vm_compute correspondence + direct oracle",
        design="6 C18"),
    "C15": dict(
        text="Theorems (Coq, all schemas, no bound): eq_sym and ne_is_negb and eq_value_is_validate unconditional; eq_refl "
             "and rebuild_equal for all schemas incl. NaN parameters (F10 repaired); eq_same_verdicts / "
             "discriminated_unequal and eq_trans under the decidable marker_free hypothesis, with refuted witnesses "
             "for the unrestricted statements (F19: a `...` marker compared with a sub-schema that validates it). The "
             "model reproduces Schema.__eq__ + Props.__eq__ incl. the fallback through validate. Tie: ==, != both "
             "directions and schema == value on the real code vs the model; oracle on /repo: reflexive, symmetric, "
             "negation, rebuild, transitivity on triples, equal => same verdicts on probes, single-parameter variants "
             "that some probe tells apart are unequal.",
        note=COMMON_NOTE + "Partial: the property holds on the unchanged tree only outside F19 "
             "(markers facing universal sub-schemas), an open known finding classified by input shape. F10 (NaN "
             "parameters) was repaired by a fix: commit.",
        technique="Coq proof (double nested induction over schemas) + refutation witnesses by vm_compute + vm_compute correspondence + direct oracle",
        design="6 C15"),
    "C19": dict(
        text="Theorems (Coq): mapping_targets_exported / mapping_keeps_names / mapped_name_importable (reflection over the "
             "mapping and export tables REGENERATED from the running code on every run; finite domain = the table); for "
             "all modules (any number of statements/lines, statements sharing physical lines in any way, multi-line "
             "imports): rewrite_import_binds_same (each rewritten import binds the same local names, mapped names from "
             "their v2 (module, name), unmapped from the original, star/relative untouched), rewrite_splice_correct "
             "(ast_view ls = Some body -> the output reads back as exactly the rewritten statement sequence: every "
             "other statement preserved unchanged and in order, also on shared lines - the line_disjoint hypothesis "
             "was dropped after the repair of F21), rewrite_source_correct, rewrite_none_iff, rewrite_twice_stable. "
             "Tie: model fed the ast view (line, piece) of generated modules, predicted statement list vs "
             "ast.parse(output); oracle on /repo: output parses, non-import statements identical, bindings equal.",
        note=COMMON_NOTE + "Python's grammar / ast positions trusted (ast_view). F21 (shared physical line) and F27 "
             "(form-feed line splitting) were repaired by fix: commits; the model mirrors the column splice. Open known "
             "finding F36 (one import binding the same local name twice is regrouped, changing its last binding). "
             "The file layer (migrate_v1_to_v2 over a directory) is exercised by a direct probe only.",
        technique="Coq proof (reflection on regenerated tables + splice/list induction) + vm_compute correspondence + direct oracle",
        design="6 C19"),
    "C13": dict(
        text="Theorems (Coq, all operands, all values): or_is_union / any_call_is_union / flatten_same_meaning (a | b and "
             "schema.any accept exactly the union; flattening keeps the meaning), add_spec + add_characterisation "
             "(d1 + d2 is the dict schema with d1's keys overridden and extended by d2's, Python's position rule "
             "included; relaxed iff either is), add_assoc ((d1 + d2) + d3 and d1 + (d2 + d3) are the same schema, entry order "
             "included, for key tables of any length), make_required_spec (accepts exactly the values d accepts in which the "
             "listed keys are present; undeclared key -> DeclarationError), alias_spec, getitem_spec / iter_spec / "
             "contains_spec, each with wf preservation so C02's theorem applies to the result. Tie: the real "
             "combinators' resulting schema / exception vs the model (exact, key order included); oracle on /repo: "
             "verdicts of the combination vs verdicts of the parts / of an independently declared merged dict; both groupings "
             "of three random operands must be equal, print identically and iterate in the same order.",
        note=COMMON_NOTE + "Observation (not treated as a violation, DESIGN section 7): iterating a relaxed dict schema "
             "yields the `...` marker, which d[...] refuses (iter_all_subscriptable_refuted).",
        technique="Coq proof (conformance equivalences by induction on entry lists) + vm_compute correspondence + direct oracle",
        design="6 C13"),
    "C16": dict(
        text="Theorems (Coq, all schema trees, every subset of positions wrapped, all values): erase_validate / "
             "erase_validateR (a forwarding custom wrapper yields the same errors with the same paths and actual "
             "values, and the same exception where validation raises), erase_conforms, erase_subst (substitution "
             "succeeds or fails identically), erase_gen (every world, every tape: same value, same remaining tape), "
             "erase_wf, erase_represent (the representor builds the same expression tree for the wrapped tree as for the "
             "erased one, wrappers at any depth; theories/Represent.v hands the visitor to the wrapped schema). The real assurance that "
             "the REAL containers forward path/indent/kwargs in every position is the correspondence: a forwarding "
             "CustomSchema defined in the harness, random trees with random positions wrapped (built from the built "
             "tree), compared wrapped vs unwrapped on validate (errors, paths, messages, both validators), generate "
             "(same tape), represent (text) and substitute (outcome, erased result).",
        note=COMMON_NOTE + "Partial in the brief's sense: keyword forwarding by CPython is runtime behaviour the model "
             "cannot exhibit; the embedding comparison observes it (four forwarding types: hooks in the class body, from a "
             "mixin, from a custom parent, **kwargs-only). F33 (explicit empty path replaced) repaired by a fix: commit.",
        technique="Coq proof (erasure commutes with each visitor, nested induction) + vm_compute correspondence + wrapped-vs-unwrapped differential oracle",
        design="6 C16"),
    "C10": dict(
        text="Theorems (Coq, every refinement method of every type, ARBITRARY arguments incl. wrongly typed ones, chains "
             "of any length): decl_only_declerr / run_only_declerr (an arity-correct call never raises anything but "
             "DeclarationError), redeclare_rejected, decl_fixed_conforms + run_dsl_inv (a decidable invariant dsl_inv "
             "holds of every bare type and is preserved by every successful call; it implies that a fixed value - or "
             "a fully fixed element list - conforms to its own schema; NaN included since the repair of F10: decl_nan_conforms); dsl_built_wf / "
             "dsl_inv_wf (every schema built by any chain of DSL calls whose regexes lie in the modelled fragment is "
             "well-formed: this discharges the hypothesis wf of C02/C04/C05/C08/C12's theorems for DSL-built schemas). Tie: exhaustive call chains (length <= 2, sampled 3-4; thorough: <= 3) over a "
             "boundary universe run on /repo and compared with the model; oracle: exception class, receiver unchanged, "
             "validate(result, value), re-declaration rejected.",
        note=COMMON_NOTE + "Python arity errors (TypeError) are outside the property (arity_ok). F10 (NaN), "
             "F12, F13, F32 (deeply nested pattern: RecursionError), F39 (DeclarationError messages for ints beyond the "
             "int->str digit limit; probe of chains with unprintable arguments), F41 (incompatible inline regex flags: "
             "ValueError) repaired by fix: commits.",
        technique="Coq proof (guard-ladder case analysis + invariant preservation) + vm_compute correspondence over enumerated chains + direct oracle",
        design="6 C10"),
    "C11": dict(
        text="Theorems (Coq): commute (any two non-value refinements of one type, ANY state, ANY arguments give the same "
             "outcome in either order: both rejected or Leibniz-equal schemas) and perm_same_outcome / "
             "perm_same_outcome_after_value (by induction on Permutation: op lists of ANY length, not only the 3 of "
             "the property's enumeration); value_does_not_commute shows why the value must come first. Tie: all "
             "permutations of enumerated refinement sets on /repo, all must agree with each other and with the model.",
        note=COMMON_NOTE + "F01 (regex/len guard) repaired by a fix: commit.",
        technique="Coq proof (pairwise commutation by case analysis, lifted over Permutation) + vm_compute correspondence + exhaustive permutation oracle",
        design="6 C11"),
    "C06": dict(
        text="Theorem repr_roundtrip_eq (Coq, all schemas satisfying the DSL invariant, alias/custom-free, any nesting): "
             "eval (represent s) = Ok s - the call-chain tree printed by the representor evaluates, through the "
             "declaration model, to the identical schema (so equal, and with the same repr); reachability lemmas show "
             "the invariant holds for everything declaration, + and make_required build. The literal/text layer "
             "(repr of ints, floats, str, bytes, UUID, datetime; indentation, commas) is NOT modelled: it is tied per "
             "run by parsing repr(S) with ast into the model's expr and by the oracle eval(repr(S)) == S, "
             "repr(eval(repr(S))) == repr(S) on /repo. Partial in that sense.",
        note=COMMON_NOTE + "F15 (non-finite float printed as inf/nan) is an open known finding of the text layer; F14 and F43 (enum members and "
             "other instances of subclasses of the built-in types were printed with their own repr) repaired by fix: commits.",
        technique="Coq proof (round trip through the declaration model, nested induction) + ast-level correspondence + direct oracle",
        design="6 C06"),
    "C01": dict(
        text="Theorem gen_sound / gen_validates (Coq, all well-formed schemas of any nesting, every world, EVERY tape = every "
             "outcome of every random draw): if the schema is hereditarily satisfiable within the generator's reach "
             "(sat: fixed values conform, bounds ordered, lengths compatible incl. bounds beyond the generator defaults "
             "and the ellipsis-list/len padding, substr over the alphabet, every member the generator may visit "
             "satisfiable; patterns: the decidable re_supported of theories/ReSupported.v, for which totality of the regex "
             "generator is proved and soundness comes from C09) the model generator returns a value and the "
             "validator accepts it with zero errors. The "
             "property's wider quantifier (any schema admitting some value) is stated and REFUTED for the faithful "
             "model (gen_sound_full_refuted: F24; F29 witness) - partial in that sense. The hypothesis is decidable "
             "(satb, proved equivalent to sat; gen_validates_decidable) and is evaluated inside Coq for every schema of "
             "a run: where it holds no scripted tape may make the implementation fail. Tie: the real generator under "
             "tape policies all-min/all-max/alternating/random with a fixed world vs the model on the same tape (value, "
             "exception class, number of draws); tables of generator constants regenerated every run; oracle on /repo: "
             "validate(S, fake(S)) for satisfiable S (declared, combined with + and |, make_required, and produced by % "
             "from plain values, partial values and values with ... placeholders) under those tapes and under the real "
             "seeded RNG.",
        note=COMMON_NOTE + "Open known findings: F23 (uniform overflow; outside the tape contract, seen only with the "
             "real RNG), F24 (unsatisfiable member may be visited), F29 (scaled bound overflows), F42 (IGNORECASE with a negated class: the generator ignores inline flags). F04, F05, F06, F07, F30 "
             "(padding up to min_len) repaired by fix: commits.",
        technique="Coq proof (returns-predicate over the tape monad, nested induction) + refutation witnesses by vm_compute + tape-scripted vm_compute correspondence + direct oracle",
        design="6 C01"),
    "C09": dict(
        text="Theorems (Coq, EVERY pattern tree - supported or not -, every tape, every set-iteration order): "
             "regen_fullmatch (whatever the generator returns matches the whole pattern, for end-anchored patterns), "
             "regen_unsupported_raises (an unsupported construct on a mandatory path makes generation raise for every "
             "tape), matches_top_iff_fullmatchb + fullmatch_search + regen_validates (the generated string passes the "
             "validator's re.search), alphabet facts re-checked by vm_compute on the regenerated tables. Tie: patterns "
             "from the supported grammar plus each unsupported construct embedded, sre.parse tree abstracted, real "
             "RegexGenerator under tape policies vs the model (string / exception / draws); oracle: re.fullmatch, "
             "validate, fake(schema.str.regex(p)); semantics suite fullmatchb/searchb vs re on generated and perturbed "
             "strings.",
        note=COMMON_NOTE + "Python's re engine on the supported fragment is trusted + differentially tested (ASCII "
             "reading of \\d/\\w). Inner anchors, \\b, inline flags are outside the property's list. F17 repaired.",
        technique="Coq proof (induction over the sre tree, derivative-matcher correspondence) + tape-scripted vm_compute correspondence + direct oracle",
        design="6 C09"),
    "C07": dict(
        text="Theorems (Coq, object-store model, operation histories of ANY length incl. caller mutations of every "
             "container ever passed in): history_frame (with every storing site copying - sites_fresh - every pooled "
             "schema denotes the same thing after any later sequence of operations), args_unchanged (only the caller's "
             "own mutations write a caller container), replay_deterministic (an operation's outcome depends only on "
             "the denotations of its arguments), history_frame_refuted (with the pre-F16 flag for ListSchema.__call__ "
             "a three-step history changes an existing schema: the flags matter). Partial by nature: in a functional "
             "model purity is by construction; that /repo's sites really copy and that d42 keeps no hidden state is "
             "VALIDATED on every run by histories (60x40 quick, 500x200 thorough) with per-step snapshots of every "
             "pooled schema (repr, props dump, verdicts on probes, generated value), argument dumps and identities, "
             "immediate re-runs on clones, re-runs in a forked fresh process, and the model's per-step prediction.",
        note=COMMON_NOTE + "Runtime behaviour the model cannot exhibit: CPython aliasing outside the modelled "
             "containers (class attributes, default arguments, module singletons) - observed by the history check "
             "only. F16 repaired by a fix: commit.",
        technique="Coq proof (ownership invariant + induction over operation lists) + history-based differential oracle with shrinking + vm_compute correspondence",
        design="6 C07"),
    "C17": dict(
        text="Theorems (Coq, any sequence of schemas, every tape): gen_world_independent_partial (for schemas without an "
             "unfixed uuid4/datetime/date and without a negated class in any pattern, the generated values and the "
             "remaining tape are the same in ANY two worlds - entropy, clock, set-iteration order), "
             "gen_same_process_reproducible (negated classes allowed when the set order is the same); the property's "
             "unrestricted claim is stated and REFUTED for the faithful model (gen_world_independent_refuted: [^a], "
             "known finding F18). Partial: that the tape is a function of the seed (random.seed, MT19937) and that "
             "hash randomisation only permutes set iteration are assumptions, observed not modelled. Tie: each "
             "sequence generated after set_seed(k) twice in each of 4 (thorough 16) fresh interpreters with different "
             "PYTHONHASHSEED, all outputs identical; the in-process run with the real RNG recorded as a tape is "
             "replayed by the model.",
        note=COMMON_NOTE + "F18 is an open known finding: the repair (order-preserving filter) cannot be made without "
             "editing four existing tests that pin the hash-ordered string. F37 (a NaN seed: random.seed hashes it by "
             "identity) is an open known finding about the interpreter's RNG seeding.",
        technique="Coq proof (pointwise equality of tape computations across worlds, nested induction) + refutation witness + multi-interpreter differential oracle + recorded-tape correspondence",
        design="6 C17"),
}


def main():
    ids = [json.loads(l)["id"] for l in open(os.path.join(VERIF, "properties.jsonl"))]
    checks = []
    for pid in ids:
        if pid not in CHECKS:
            continue
        c = CHECKS[pid]
        checks.append({
            "property_id": pid,
            "quick_cmd": f"./bin/check {pid} quick",
            "thorough_cmd": f"./bin/check {pid} thorough",
            "evidence_file": f"evidence/{pid}.json",
            "replay_cmd_template": f"./bin/check {pid} --replay {{path}}",
            "engine": "coq-model",
            "level_claimed": {"category": "proof", "text": c["text"], "design_ref": "DESIGN.md section " + c["design"]},
            "level_note": c["note"],
            "technique": c["technique"],
        })
    m = {
        "version": 1,
        "setup_cmd": "./bin/setup",
        "hooks": {
            "guard": "D42_VERIF",
            "enable": "no source hooks are needed: every observation point is public API, a constructor parameter "
                      "or patched inside the harness process; checks set D42_VERIF=1 for form",
            "baseline_off_cmd": "cd /repo && /venv/bin/python -m pytest -ra -q -p no:cacheprovider --timeout=900 "
                                "--continue-on-collection-errors",
            "source_commits": [],
            "add_only": True,
        },
        "engines": [{"name": "coq-model", "path": "coq/", "serves_properties": sorted(CHECKS),
                     "kind_free_text": "hand-written executable Gallina model of d42 + theorems (Coq 8.16.1); "
                                       "harness/ runs the correspondence against /repo"}],
        "checks": checks,
        "not_applicable": [{"property_id": pid, "reason": "check not built yet (work in progress, DESIGN.md section 11)"}
                           for pid in ids if pid not in CHECKS],
        "notes": "fix: commits in /repo are recorded in KNOWN_FINDINGS.txt; seeded/ holds independently produced "
                 "property-breaking changes used to test the checks.",
    }
    with open(os.path.join(VERIF, "MANIFEST.json"), "w") as f:
        json.dump(m, f, indent=1)
        f.write("\n")


if __name__ == "__main__":
    main()
