"""Regenerate /verif/MANIFEST.json from the table below (run by hand after adding a check)."""
import json
import os

VERIF = os.path.dirname(os.path.dirname(os.path.abspath(__file__)))

COMMON_NOTE = ("Trusted: Coq 8.16.1 kernel + VM (no native_compute); stdlib primitive float/int axioms where "
               "Print Assumptions lists them; the hand-written Gallina model, tied to /repo on every run only by "
               "the correspondence check (differential testing, generator-bounded); harness abstraction "
               "Python->Coq; CPython. ")

CHECKS = {
    "C02": dict(
        text="Theorem validate_iff_conforms (Coq, all schemas/values/nesting depths): the model validator reports no "
             "error iff the value conforms to the declarative meaning. Tie: per-run differential check of the real "
             "validate() against the model on generated (schema, value) pairs incl. perturbations at every depth.",
        note=COMMON_NOTE + "Regex: re.search modelled by a derivative matcher on the supported fragment (ASCII "
             "\\d/\\w). Well-formed schemas only (what the DSL produces).",
        technique="Coq proof (nested induction over schemas) + vm_compute correspondence vs implementation",
        design="6 C02"),
}


def main():
    ids = [json.loads(l)["id"] for l in open(os.path.join(VERIF, "properties.jsonl"))]
    checks = []
    for pid in ids:
        if pid not in CHECKS:
            continue
        c = CHECKS[pid]
        checks.append({
            "property_id": pid,
            "quick_cmd": f"./bin/check {pid} quick",
            "thorough_cmd": f"./bin/check {pid} thorough",
            "evidence_file": f"evidence/{pid}.json",
            "replay_cmd_template": f"./bin/check {pid} --replay {{path}}",
            "engine": "coq-model",
            "level_claimed": {"category": "proof", "text": c["text"], "design_ref": "DESIGN.md section " + c["design"]},
            "level_note": c["note"],
            "technique": c["technique"],
        })
    m = {
        "version": 1,
        "setup_cmd": "./bin/setup",
        "hooks": {
            "guard": "D42_VERIF",
            "enable": "no source hooks are needed: every observation point is public API, a constructor parameter "
                      "or patched inside the harness process; checks set D42_VERIF=1 for form",
            "baseline_off_cmd": "cd /repo && /venv/bin/python -m pytest -ra -q -p no:cacheprovider --timeout=900 "
                                "--continue-on-collection-errors",
            "source_commits": [],
            "add_only": True,
        },
        "engines": [{"name": "coq-model", "path": "coq/", "serves_properties": sorted(CHECKS),
                     "kind_free_text": "hand-written executable Gallina model of d42 + theorems (Coq 8.16.1); "
                                       "harness/ runs the correspondence against /repo"}],
        "checks": checks,
        "not_applicable": [{"property_id": pid, "reason": "check not built yet (work in progress, DESIGN.md section 11)"}
                           for pid in ids if pid not in CHECKS],
        "notes": "fix: commits in /repo are recorded in KNOWN_FINDINGS.txt; seeded/ holds independently produced "
                 "property-breaking changes used to test the checks.",
    }
    with open(os.path.join(VERIF, "MANIFEST.json"), "w") as f:
        json.dump(m, f, indent=1)
        f.write("\n")


if __name__ == "__main__":
    main()
