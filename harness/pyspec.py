"""Independent Python statements of 'same value' / 'carries the substituted data', used by
the direct oracles (never by the model)."""
import datetime
import math
import uuid


def _kind(v):
    if v is None:
        return "none"
    if isinstance(v, bool):
        return "bool"
    if isinstance(v, int):
        return "int"
    if isinstance(v, float):
        return "float"
    if isinstance(v, str):
        return "str"
    if isinstance(v, bytes):
        return "bytes"
    if isinstance(v, uuid.UUID):
        return "uuid"
    if isinstance(v, datetime.datetime):
        return "datetime"
    if isinstance(v, datetime.date):
        return "date"
    if isinstance(v, list):
        return "list"
    if isinstance(v, dict):
        return "dict"
    return "other:" + type(v).__name__


def has_nan(v):
    if isinstance(v, float):
        return v != v
    if isinstance(v, list):
        return any(has_nan(x) for x in v)
    if isinstance(v, dict):
        return any(has_nan(x) for x in v.values())
    return False


def same_value(v, w):
    """v and w are the same plain value, up to True/False ~ 1/0 and the documented float
    tolerance (math.isclose)."""
    kv, kw = _kind(v), _kind(w)
    if {kv, kw} <= {"bool", "int"}:
        return v == w
    if kv != kw:
        return False
    if kv == "float":
        return math.isclose(v, w) or (v != v and w != w)      # NaN is the same value as NaN
    if kv == "list":
        return len(v) == len(w) and all(same_value(a, b) for a, b in zip(v, w))
    if kv == "dict":
        return set(v.keys()) == set(w.keys()) and all(same_value(v[k], w[k]) for k in v)
    if kv.startswith("other"):
        return v is w
    return v == w


def carries(v, w, precisions=(), anchors=()):
    """w carries the substituted data v at the substituted positions: scalars equal (floats
    within math.isclose, or equal after rounding to one of the declared precisions),
    lists element-wise, dicts on every key given.  anchors: float values already declared in
    the schema - a declared value is kept by substitution, so v and w are then both within the
    tolerance of that declared value (theories/Agree.v, fpin)."""
    kv, kw = _kind(v), _kind(w)
    if {kv, kw} <= {"bool", "int"}:
        return v == w
    if kv != kw:
        # a date schema pinned with a date accepts only dates; kinds must agree
        return False
    if kv == "float":
        if math.isclose(v, w) or (v != v and w != w):
            return True
        for p in precisions:
            try:
                if round(v * 10 ** p) == round(w * 10 ** p):
                    return True
            except (OverflowError, ValueError):
                pass
        for e in anchors:
            if math.isclose(v, e) and math.isclose(w, e):
                return True
            for p in precisions:
                try:
                    if round(v * 10 ** p) == round(e * 10 ** p) == round(w * 10 ** p):
                        return True
                except (OverflowError, ValueError):
                    pass
        return False
    if kv == "list":
        return len(v) == len(w) and all(carries(a, b, precisions, anchors) for a, b in zip(v, w))
    if kv == "dict":
        return all(k in w and carries(v[k], w[k], precisions, anchors) for k in v)
    return v == w


def is_plain(v):
    k = _kind(v)
    if k.startswith("other"):
        return False
    if k == "uuid":
        return v.version == 4
    if k == "list":
        return all(is_plain(x) for x in v)
    if k == "dict":
        return all((key is not ...) and is_plain(x) for key, x in v.items())
    return True


def has_huge_int(v, depth=0):
    """an int too large for CPython's int -> str conversion (sys.get_int_max_str_digits())"""
    import sys
    lim = sys.get_int_max_str_digits()
    if isinstance(v, int) and not isinstance(v, bool):
        return lim > 0 and abs(int(v)) >= 10 ** lim
    if depth > 8:
        return False
    if isinstance(v, (list, tuple)):
        return any(has_huge_int(x, depth + 1) for x in v)
    if isinstance(v, dict):
        return any(has_huge_int(k, depth + 1) or has_huge_int(x, depth + 1) for k, x in v.items())
    return False
