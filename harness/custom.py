"""A user-defined CustomSchema that forwards every hook to a built-in schema (C16), written
the way a user of d42.custom_type writes one, plus helpers that put it at chosen positions
of an already *built* schema tree and take it out again.

The wrapper is the model's [SCustom inner] (absn.cschema recognises the absn.Fwd marker).
"""
from niltype import Nil

import absn
from d42 import schema
from d42.custom_type import CustomSchema, Props, register_type
from d42.declaration import DeclarationError, Schema
from d42.declaration.types import AnySchema, DictSchema, GenericTypeAliasSchema, ListSchema

__all__ = ("FwdSchema", "FwdProps", "fwd", "positions", "wrap_at", "wrap_random",
           "erase_built", "count_wrappers", "fixed_world", "TYPE_NAME", "N_FACADES")


class FwdProps(Props):
    @property
    def inner(self):
        return self.get("inner")


class FwdSchema(CustomSchema[FwdProps], absn.Fwd):
    """schema.verif_fwd(inner): behaves as `inner` for every visitor."""

    def __call__(self, inner):
        if not isinstance(inner, Schema):
            raise DeclarationError(f"verif_fwd: expected a schema, got {inner!r}")
        if self.props.inner is not Nil:
            raise DeclarationError("verif_fwd is already declared")
        return self.__class__(self.props.update(inner=inner))

    # the four hooks, with the signatures d42/custom_type/_custom_type.py calls them with
    def __validate__(self, visitor, *, value=Nil, path=Nil, **kwargs):
        return self.props.inner.__accept__(visitor, value=value, path=path, **kwargs)

    def __generate__(self, visitor, **kwargs):
        return self.props.inner.__accept__(visitor, **kwargs)

    def __represent__(self, visitor, *, indent=0, **kwargs):
        return self.props.inner.__accept__(visitor, indent=indent, **kwargs)

    def __substitute__(self, visitor, *, value=Nil, **kwargs):
        substituted = self.props.inner.__accept__(visitor, value=value, **kwargs)
        return self.__class__(self.props.update(inner=substituted))


TYPE_NAME = "verif_fwd"
register_type(TYPE_NAME, FwdSchema)


class _FwdHooks:
    """the same hooks, supplied by a mixin (a second base class) instead of the class body"""

    def __call__(self, inner):
        if not isinstance(inner, Schema):
            raise DeclarationError(f"verif_fwd: expected a schema, got {inner!r}")
        if self.props.inner is not Nil:
            raise DeclarationError("verif_fwd is already declared")
        return self.__class__(self.props.update(inner=inner))

    def __validate__(self, visitor, *, value=Nil, path=Nil, **kwargs):
        return self.props.inner.__accept__(visitor, value=value, path=path, **kwargs)

    def __generate__(self, visitor, **kwargs):
        return self.props.inner.__accept__(visitor, **kwargs)

    def __represent__(self, visitor, *, indent=0, **kwargs):
        return self.props.inner.__accept__(visitor, indent=indent, **kwargs)

    def __substitute__(self, visitor, *, value=Nil, **kwargs):
        substituted = self.props.inner.__accept__(visitor, value=value, **kwargs)
        return self.__class__(self.props.update(inner=substituted))


class FwdMixinSchema(CustomSchema[FwdProps], _FwdHooks, absn.Fwd):
    """hooks inherited from a mixin listed after CustomSchema"""


class FwdChildSchema(FwdSchema):
    """hooks inherited from a user-defined custom parent class"""


class FwdKwargsSchema(CustomSchema[FwdProps], absn.Fwd):
    """hooks that name no keyword themselves: everything they are given travels in **kwargs"""

    def __call__(self, inner):
        if not isinstance(inner, Schema):
            raise DeclarationError(f"verif_fwd: expected a schema, got {inner!r}")
        if self.props.inner is not Nil:
            raise DeclarationError("verif_fwd is already declared")
        return self.__class__(self.props.update(inner=inner))

    def __validate__(self, visitor, **kwargs):
        return self.props.inner.__accept__(visitor, **kwargs)

    def __generate__(self, visitor, **kwargs):
        return self.props.inner.__accept__(visitor, **kwargs)

    def __represent__(self, visitor, **kwargs):
        return self.props.inner.__accept__(visitor, **kwargs)

    def __substitute__(self, visitor, **kwargs):
        return self.__class__(self.props.update(inner=self.props.inner.__accept__(visitor, **kwargs)))


def _named_like_builtin():
    """a forwarding custom type whose class name is that of a built-in schema class (a user's own module may well
    define an IntSchema / DateSchema of its own): dispatch must not depend on the name"""
    class IntSchema(FwdSchema):          # noqa: shadows nothing outside this function
        pass

    class DateSchema(CustomSchema[FwdProps], _FwdHooks, absn.Fwd):
        pass
    return IntSchema, DateSchema


FwdNamedIntSchema, FwdNamedDateSchema = _named_like_builtin()
register_type(TYPE_NAME + "_named_int", FwdNamedIntSchema)
register_type(TYPE_NAME + "_named_date", FwdNamedDateSchema)
register_type(TYPE_NAME + "_mixin", FwdMixinSchema)
register_type(TYPE_NAME + "_child", FwdChildSchema)
register_type(TYPE_NAME + "_kwargs", FwdKwargsSchema)
_FACADES = [TYPE_NAME, TYPE_NAME + "_mixin", TYPE_NAME + "_child", TYPE_NAME + "_kwargs", TYPE_NAME + "_named_int",
            TYPE_NAME + "_named_date"]


def fwd(inner, which=0):
    """Declare through the public facade: schema.verif_fwd(inner) (which: 0 class body, 1 mixin, 2 child, 3 **kwargs-only hooks)."""
    return getattr(schema, _FACADES[which % len(_FACADES)])(inner)


# ------------------------------------------------------------------ built-tree surgery
def _map_children(s, f):
    """Rebuild s with f(child, step) applied to every direct sub-schema, through
    s.__class__(s.props.update(...)) - never by re-declaring."""
    if isinstance(s, absn.Fwd):
        return s.__class__(s.props.update(inner=f(s.props.inner, ("inner",))))
    t = type(s)
    if t is ListSchema:
        upd = {}
        es = s.props.get("elements")
        if es is not Nil:
            upd["elements"] = [e if e is ... else f(e, ("elements", i)) for i, e in enumerate(es)]
        ty = s.props.get("type")
        if ty is not Nil:
            upd["type"] = f(ty, ("type",))
        return s.__class__(s.props.update(**upd)) if upd else s
    if t is DictSchema:
        ks = s.props.get("keys")
        if ks is Nil:
            return s
        new = {}
        for k, (val, opt) in ks.items():
            new[k] = (val if val is ... else f(val, ("keys", k)), opt)
        return s.__class__(s.props.update(keys=new))
    if t is AnySchema:
        ts = s.props.get("types")
        if ts is Nil:
            return s
        return s.__class__(s.props.update(types=tuple(f(x, ("types", i)) for i, x in enumerate(ts))))
    if isinstance(s, GenericTypeAliasSchema):
        if s.props.get("type") is Nil:
            return s
        return s.__class__(s.props.update(type=f(s.props.get("type"), ("alias",))))
    return s


def positions(s, prefix=()):
    """Every schema position of a built tree: () is the root; a step is ('elements', i),
    ('type',), ('keys', k), ('types', i), ('alias',) or ('inner',)."""
    out = [prefix]

    def visit(child, step):
        out.extend(positions(child, prefix + (step,)))
        return child
    _map_children(s, visit)
    return out


def kind_of(pos):
    return "root" if not pos else pos[-1][0]


def wrap_at(s, chosen, prefix=(), which=None):
    """chosen: {position: number of wrappers to put around the schema at that position}; which: the forwarding type
    to use everywhere (None: it varies with the position)."""
    s2 = _map_children(s, lambda child, step: wrap_at(child, chosen, prefix + (step,), which))
    for i in range(chosen.get(prefix, 0)):
        s2 = fwd(s2, which=(len(prefix) + sum(len(str(x)) for x in prefix) + i) if which is None else which)
    return s2


def wrap_random(rng, s, rate=0.35, which=None):
    """(wrapped tree, chosen) with a random subset of positions wrapped (at least one;
    occasionally two wrappers around the same position)."""
    pos = positions(s)
    chosen = {}
    for p in pos:
        if rng.random() < rate:
            chosen[p] = 2 if rng.random() < 0.12 else 1
    if not chosen:
        chosen[rng.choice(pos)] = 1
    return wrap_at(s, chosen, which=which), chosen


N_FACADES = len(_FACADES)


def erase_built(s):
    """Remove every FwdSchema wrapper of a built tree (inverse of wrap_at)."""
    if isinstance(s, absn.Fwd):
        return erase_built(s.props.inner)
    return _map_children(s, lambda child, step: erase_built(child))


def count_wrappers(s):
    n = [0]

    def visit(child, step):
        n[0] += count_wrappers(child)
        return child
    _map_children(s, visit)
    return n[0] + (1 if isinstance(s, absn.Fwd) else 0)


# ------------------------------------------------------------------ deterministic environment
class fixed_world:
    """Inside the block the generator's three environmental sources (uuid4(),
    datetime.utcnow(), date.today()) are deterministic, so two generations driven by the
    same tape can be compared for identity.  Patches names of the generator *module* in the
    harness process only."""

    def __enter__(self):
        import datetime as _dt
        import uuid as _uuid
        import sys
        import d42.generation  # noqa: F401  (the package attribute _generator is an instance)
        g = sys.modules["d42.generation._generator"]
        self._g = g
        self._saved = {n: getattr(g, n) for n in ("uuid4", "datetime", "date") if hasattr(g, n)}
        self._saved_uuid4 = _uuid.uuid4
        counter = [0]

        def uuid4():
            counter[0] += 1
            return _uuid.UUID(int=(0x1234 << 64) + counter[0], version=4)

        class _DT(_dt.datetime):
            @classmethod
            def utcnow(cls):
                return _dt.datetime(2024, 2, 29, 12, 34, 56, 789)

        class _D(_dt.date):
            @classmethod
            def today(cls):
                return _dt.date(2024, 2, 29)

        for n, repl in (("uuid4", uuid4), ("datetime", _DT), ("date", _D)):
            if n in self._saved:
                setattr(g, n, repl)
        _uuid.uuid4 = uuid4
        return self

    def __exit__(self, *exc):
        import uuid as _uuid
        for n, v in self._saved.items():
            setattr(self._g, n, v)
        _uuid.uuid4 = self._saved_uuid4
        return False
