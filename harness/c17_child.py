"""Child of the C17 check: a fresh interpreter (its PYTHONHASHSEED is set by the parent).
stdin: JSON list of jobs {"seed": repr(k), "schemas": [source, ...], "repeat": n}; stdout: per job a list
(one entry per repetition) of lists of canonical value texts (or 'raise:<Class>')."""
import json
import os
import sys

import absn
import gen


def canon(v):
    try:
        return absn.cvalue(v)
    except Exception as e:  # noqa
        return f"unmodelled:{type(e).__name__}"


def one(req):
    from d42 import fake
    from d42.generation import Random
    schemas = [gen.build(src) for src in req["schemas"]]
    out = []
    seed = eval(req["seed"])
    def generate(row):
        for s in schemas:
            try:
                row.append(canon(fake(s)))
            except Exception as e:  # noqa
                row.append("raise:" + type(e).__name__)

    for _ in range(req.get("repeat", 1)):
        Random().set_seed(seed)
        row = []
        generate(row)
        out.append(row)
    if req.get("thread"):
        # seeded here, generated in a worker thread of the same process
        import threading
        Random().set_seed(seed)
        row = []
        t = threading.Thread(target=generate, args=(row,))
        t.start()
        t.join()
        out.append(row)
    if req.get("thread"):
        # a worker that already existed - and had generated something - when the seed was set
        import queue
        import threading
        inbox, done = queue.Queue(), queue.Queue()

        def worker():
            from d42 import schema
            try:
                fake(schema.list(schema.int))          # whatever the worker did before: unseeded
            except Exception:  # noqa
                pass
            done.put("warm")
            inbox.get()
            row = []
            generate(row)
            done.put(row)

        t = threading.Thread(target=worker)
        t.start()
        done.get()
        Random().set_seed(seed)
        inbox.put("go")
        out.append(done.get())
        t.join()
    if req.get("thread") and hasattr(os, "fork"):
        # a worker process forked from this one (multiprocessing's "fork" start method, pre-forking runners): it
        # seeds itself exactly like its parent did and must get the parent's values; the parent is unaffected
        rfd, wfd = os.pipe()
        pid = os.fork()
        if pid == 0:
            status = 0
            try:
                os.close(rfd)
                Random().set_seed(seed)
                row = []
                generate(row)
                with os.fdopen(wfd, "w") as f:
                    json.dump(row, f)
            except BaseException:  # noqa
                status = 3
            finally:
                os._exit(status)
        os.close(wfd)
        with os.fdopen(rfd) as f:
            data = f.read()
        os.waitpid(pid, 0)
        out.append(json.loads(data) if data else ["forked worker failed"])
        Random().set_seed(seed)
        row = []
        generate(row)
        out.append(row)
    return out


def main():
    if os.environ.get("D42_CHILD_RECURSIONLIMIT"):
        sys.setrecursionlimit(int(os.environ["D42_CHILD_RECURSIONLIMIT"]))
    if os.environ.get("D42_CHILD_CWD"):
        os.chdir(os.environ["D42_CHILD_CWD"])
    jobs = json.load(sys.stdin)          # list of {"seed": repr, "schemas": [...], "repeat": n}
    json.dump([one(j) for j in jobs], sys.stdout)


if __name__ == "__main__":
    main()
