"""Child of the C17 check: a fresh interpreter (its PYTHONHASHSEED is set by the parent).
stdin: JSON list of jobs {"seed": repr(k), "schemas": [source, ...], "repeat": n}; stdout: per job a list
(one entry per repetition) of lists of canonical value texts (or 'raise:<Class>')."""
import json
import os
import sys

import absn
import gen


def canon(v):
    try:
        return absn.cvalue(v)
    except Exception as e:  # noqa
        return f"unmodelled:{type(e).__name__}"


def one(req):
    from d42 import fake
    from d42.generation import Random
    schemas = [gen.build(src) for src in req["schemas"]]
    out = []
    seed = eval(req["seed"])
    def generate(row):
        for s in schemas:
            try:
                row.append(canon(fake(s)))
            except Exception as e:  # noqa
                row.append("raise:" + type(e).__name__)

    for _ in range(req.get("repeat", 1)):
        Random().set_seed(seed)
        row = []
        generate(row)
        out.append(row)
    # declared AFTER seeding: declaring a schema draws nothing
    Random().set_seed(seed)
    redeclared = [gen.build(src) for src in req["schemas"]] + [gen.build("schema.str.regex('[a-c]{2}x|\\d+')"), gen.build("schema.str.regex('(a)\\1')")]
    row = []
    for s in redeclared[:len(schemas)]:
        try:
            row.append(canon(fake(s)))
        except Exception as e:  # noqa
            row.append("raise:" + type(e).__name__)
    out.append(row)
    if req.get("thread"):
        # seeded here, generated in a worker thread of the same process
        import threading
        Random().set_seed(seed)
        row = []
        t = threading.Thread(target=generate, args=(row,))
        t.start()
        t.join()
        out.append(row)
    if req.get("thread"):
        # a worker that already existed - and had generated something - when the seed was set
        import queue
        import threading
        inbox, done = queue.Queue(), queue.Queue()

        def worker():
            from d42 import schema
            try:
                fake(schema.list(schema.int))          # whatever the worker did before: unseeded
            except Exception:  # noqa
                pass
            done.put("warm")
            inbox.get()
            row = []
            generate(row)
            done.put(row)

        t = threading.Thread(target=worker)
        t.start()
        done.get()
        Random().set_seed(seed)
        inbox.put("go")
        out.append(done.get())
        t.join()
    if req.get("thread") and hasattr(os, "fork"):
        # a worker process forked from this one (multiprocessing's "fork" start method, pre-forking runners): it
        # seeds itself exactly like its parent did and must get the parent's values; the parent is unaffected
        rfd, wfd = os.pipe()
        pid = os.fork()
        if pid == 0:
            status = 0
            try:
                os.close(rfd)
                Random().set_seed(seed)
                row = []
                generate(row)
                with os.fdopen(wfd, "w") as f:
                    json.dump(row, f)
            except BaseException:  # noqa
                status = 3
            finally:
                os._exit(status)
        os.close(wfd)
        with os.fdopen(rfd) as f:
            data = f.read()
        os.waitpid(pid, 0)
        out.append(json.loads(data) if data else ["forked worker failed"])
        Random().set_seed(seed)
        row = []
        generate(row)
        out.append(row)
    if req.get("thread"):
        # other public generator objects are built in between (their own alphabets, their own Random): the module-level
        # generator behind fake() is not theirs to configure
        from d42 import schema as _schema
        from d42.generation import Generator, RegexGenerator
        # (incl. constructs the generator refuses: what it raises for them - or returns - is the same every time)
        batch = []
        for p in ("(y){0}z(?(1)A|B)", ".{12}", "\\d{8}", "\\w{8}", "[^a]{6}", "[a-c]+x.", "(<)?\\w{1,3}@x(?(1)>|;)", "(a)?b(?(1)c|d)", "(ab|c)\\1", "a(?=b)b", "(?P<q>['\"])x(?P=q)"):
            try:
                batch.append(_schema.str.regex(p))
            except Exception:  # noqa
                pass
        batch += [_schema.str.len(6), _schema.int]

        def run_batch():
            Random().set_seed(seed)
            vals = []
            for b in batch:
                try:
                    vals.append(canon(fake(b)))
                except Exception as e:  # noqa
                    vals.append("raise:" + type(e).__name__)
            return vals
        pre = run_batch()
        rg = RegexGenerator(Random(), alphabet={"letters": "ab", "digits": "01", "word": "ab", "whitespace": " "})
        g = Generator(Random(), rg)
        try:
            rg.generate("[a-z]\\d.\\w")
            schemas[0].__accept__(g)
        except Exception:  # noqa
            pass
        post = run_batch()
        if pre == post:
            post = run_batch()          # a third time: state kept by the second pass shows in the third
        Random().set_seed(seed)
        # objects of the public generator classes built AFTER seeding (they are handed a Random of their own): none of
        # them may touch the seeded stream
        Random()
        Generator(Random(), RegexGenerator(Random()))
        RegexGenerator(Random(), max_repeat=3)
        row = []
        generate(row)
        out.append(row if pre == post else ["building a RegexGenerator / Generator of one's own changed what fake() generates",
                                            str(pre)[:200], str(post)[:200]])
    return out


def digest(v):
    import hashlib
    text = repr(v)
    return hashlib.sha1(text.encode()).hexdigest()[:12] + " " + text[:40]


def at_depth(n, f):
    """call f() with n more frames on the stack"""
    if n <= 0:
        return f()
    return at_depth(n - 1, f)


def deep(req):
    """{"seed":, "schemas": [...], "depths": [...]} -> per schema [shallow value, value at each stack depth]: a call made
    deep in the caller's stack either raises RecursionError (Python's limit) or returns what the shallow call returns"""
    from d42 import fake
    from d42.generation import Random
    seed = eval(req["seed"])
    out = []
    for src in req["schemas"]:
        if src.startswith("nest:"):          # schema.list([schema.int, schema.list([schema.int, ...])]), k levels
            from d42 import schema
            s = schema.int
            for _ in range(int(src[5:])):
                s = schema.list([schema.int, s])
        else:
            s = gen.build(src)
        row = []
        for d in [0] + list(req["depths"]):
            Random().set_seed(seed)
            try:
                row.append(digest(at_depth(d, lambda: fake(s))))
            except RecursionError:
                row.append("raise:RecursionError")
            except Exception as e:  # noqa
                row.append("raise:" + type(e).__name__)
        Random().set_seed(seed)
        try:
            row.append(digest(fake(s)))       # and once more shallow, after the deep calls
        except Exception as e:  # noqa
            row.append("raise:" + type(e).__name__)
        out.append(row)
    return out


def main():
    if os.environ.get("D42_CHILD_RECURSIONLIMIT"):
        sys.setrecursionlimit(int(os.environ["D42_CHILD_RECURSIONLIMIT"]))
    if os.environ.get("D42_CHILD_DECIMAL"):
        import decimal
        prec, rounding = os.environ["D42_CHILD_DECIMAL"].split(",")
        decimal.setcontext(decimal.Context(prec=int(prec), rounding=getattr(decimal, rounding)))
        decimal.DefaultContext.prec = int(prec)
        decimal.DefaultContext.rounding = getattr(decimal, rounding)
    if os.environ.get("D42_CHILD_CWD"):
        os.chdir(os.environ["D42_CHILD_CWD"])
    jobs = json.load(sys.stdin)          # list of {"seed": repr, "schemas": [...], "repeat": n}
    json.dump([deep(j) if j.get("depths") else one(j) for j in jobs], sys.stdout)


if __name__ == "__main__":
    main()
