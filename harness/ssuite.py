"""(schema, value) cases for substitution, shared by the checks of C04, C05, C12 (and C16)."""
import copy

from niltype import Nil

import absn
import gen
import pyspec
import tape
from absn import Unmodelled


class SCase:
    __slots__ = ("ssrc", "schema", "value", "origin", "outcome", "result", "exc", "term", "unmodelled", "vtext")

    def vsrc(self):
        return getattr(self, "vtext", None) or gen.vsrc(self.value)

    def replay_dict(self):
        return {"kind": "input", "schema": self.ssrc, "value": self.vsrc(), "origin": self.origin}


def partials(r, v, depth=0, limit=8):
    """values obtained from v by dropping dict keys at any depth (partial dicts)"""
    out = []
    if isinstance(v, dict):
        for k in list(v):
            w = dict(v)
            del w[k]
            out.append(w)
        if v:
            out.append({})
        for k in v:
            for p in partials(r, v[k], depth + 1, limit=3):
                out.append({**v, k: p})
    elif isinstance(v, list) and depth < 5:
        for i, x in enumerate(v):
            for p in partials(r, x, depth + 1, limit=3):
                out.append(v[:i] + [p] + v[i + 1:])
    if len(out) > limit:
        out = r.sample(out, limit)
    return out


def with_placeholders(r, v, depth=0):
    """v with `...` placeholders put in some positions (non-plain values, C12 only)"""
    out = []
    if isinstance(v, list):
        if v:
            out += [[...] + v[1:], v[:-1] + [...], [...] * len(v), v + [...], [...] + v]
            if len(v) > 2:
                out.append(v[:1] + [...] + v[2:])
        else:
            out.append([...])
    elif isinstance(v, dict):
        for k in v:
            out.append({**v, k: ...})
        out.append({**v, ...: ...})
        out.append({**v, ...: 1})
    else:
        out.append(...)
    return out


# values that are == but of different types (1 / 1.0 / True, 0 / 0.0 / -0.0 / False), repeated
# items, equal-but-distinct containers: whatever keys a cache or a set by value collides on
TWINS = [
    ("schema.list(schema.any(schema.int, schema.float))", "[1, 1.0]"),
    ("schema.list(schema.any(schema.int, schema.float))", "[1.0, 1, 0, 0.0]"),
    ("schema.list(schema.any(schema.bool, schema.int, schema.float))", "[True, 1, 1.0, False, 0, 0.0, -0.0]"),
    ("schema.list(schema.any)", "[1, 1.0, True]"), ("schema.list(schema.any)", "[0.0, 0, False, -0.0]"),
    ("schema.list", "[True, 1, 1.0]"), ("schema.list", "[1.0, True]"), ("schema.list", "[[1], [1.0], [True]]"),
    ("schema.dict", "{'a': 1, 'b': 1.0, 'c': True}"), ("schema.dict", "{'a': 0.0, 'b': False, 'c': 0}"),
    ("schema.dict({...: ...})", "{'x': 1.0, 'y': True}"), ("schema.any", "1.0"), ("schema.any", "True"), ("schema.any", "1"),
    ("schema.list([..., schema.any(schema.int, schema.float), ...])", "[1.0, 1, True]"),
    ("schema.list(schema.list(schema.any(schema.int, schema.float)))", "[[1], [1.0]]"),
    ("schema.list(schema.dict({'a': schema.any(schema.int, schema.float)}))", "[{'a': 1}, {'a': 1.0}]"),
    ("schema.list(schema.int)", "[1, 1, 1]"), ("schema.list(schema.str)", "['a', 'a']"),
    ("schema.list(schema.any(schema.str, schema.bytes))", "['a', b'a']"),
    ("schema.dict({'a': schema.any(schema.int, schema.float), 'b': schema.any(schema.int, schema.float)})", "{'a': 1, 'b': 1.0}"),
    # a float that already has a declared value AND bounds, substituted with a value inside the comparison tolerance
    ("schema.float(1000.0).min(0.0)", "1000.0 * (1 + 0.9e-9)"), ("schema.float(2.5).max(10.0)", "2.5 * (1 - 0.9e-9)"),
    ("schema.dict({'x': schema.float(1000.0).min(0.0).max(2000.0)})", "{'x': 1000.0000009}"),
    ("schema.list(schema.float(0.5).min(0.0))", "[0.5, 0.5 * (1 + 0.9e-9)]"), ("schema.float(1000.0).precision(3).max(1e6)", "1000.0004"),
    # placeholders meeting length bounds / untyped containers: the result must stay usable
    ("schema.list(schema.int).len(2, ...)", "[1, ...]"), ("schema.list(schema.int).len(3, 5)", "[..., 1, 2]"),
    ("schema.list(schema.int).len(2)", "[1, ...]"), ("schema.list(schema.int).len(2)", "[1, 2, 3, ...]"),
    ("schema.list(schema.int).len(..., 2)", "[..., 1, 2, 3]"), ("schema.list.len(1)", "[1, 2, ...]"),
    ("schema.dict({'k': schema.list(schema.str).len(1, 2)})", "{'k': ['a', 'b', 'c', ...]}"), ("schema.list.len(2, ...)", "[..., 'x']"), ("schema.list.len(..., 3)", "[1, ...]"),
    ("schema.list(schema.str).len(1, 4)", "[..., 'a', 'b']"), ("schema.dict", "{'a': ..., 'b': 1}"),
    ("schema.dict({...: ...})", "{'zz': ..., ...: ...}"), ("schema.dict({...: ...})", "{'zz': ...}"),
    ("schema.dict({'a': schema.list(schema.int).len(2, ...)})", "{'a': [1, ...]}"),
    ("schema.any(schema.list(schema.int).len(2, ...), schema.dict)", "[1, ...]"), ("schema.any", "..."),
    # head / tail forms are ANCHORED: a declared element that cannot take its own member (a relaxed dict given a key
    # it does not declare, a partial dict elsewhere in the value) is a SubstitutionError, never a shifted window
    ("schema.list([schema.dict({'id': schema.int, 'name': schema.str, ...: ...}), ...])", "[{'id': 1, 'role': 'admin'}, {'id': 2}]"),
    ("schema.list([..., schema.dict({'id': schema.int, 'name': schema.str, ...: ...})])", "[{'id': 2}, {'id': 1, 'role': 'admin'}]"),
    ("schema.list([schema.dict({'id': schema.int, 'name': schema.str, ...: ...}), ...])", "[{'id': 1}, {'id': 2, 'name': 'x'}]"),
    ("schema.list([schema.dict({'id': schema.int, ...: ...}), schema.dict({'id': schema.int, ...: ...}), ...])", "[{'id': 1}, {'id': 2, 'zz': 0}, {'id': 3}]"),
    ("schema.list([..., schema.dict({'a': schema.int, 'b': schema.int})])", "[{'a': 1}, {'a': 1, 'b': 2}, {'a': 3}]"),
    ("schema.list([schema.dict({'a': schema.int, 'b': schema.int}), ...])", "[{'a': 3}, {'a': 1, 'b': 2}, {'a': 1}]"),
    ("schema.list([schema.list([schema.int, ...]), ...])", "[[], [1]]"), ("schema.list([..., schema.list([schema.int, ...])])", "[[1], []]"),
    # a window never runs past the end of the value: "no matching window" is a SubstitutionError, not a shorter window
    ("schema.list([..., schema.dict({'id': schema.int, ...: ...}), schema.dict({'ok': schema.bool}), ...])", "[{'id': 1, 'src': 'a'}, {}]"),
    ("schema.list([..., schema.dict({'id': schema.int, ...: ...}), schema.dict({'ok': schema.bool}), ...])", "[{}, {'id': 1, 'src': 'a'}]"),
    ("schema.list([..., schema.int, schema.str, ...])", "['a', 1]"), ("schema.list([..., schema.int, schema.str, schema.none, ...])", "[1, 'a']"),
    ("schema.list([..., schema.dict({'a': schema.int, ...: ...}), schema.int, ...])", "[1, {'a': 1, 'zz': 2}]"),
    # the empty list meeting a length refinement that is kept: the result is still generated from
    ("schema.list.len(0)", "[]"), ("schema.list.len(0, 3)", "[]"), ("schema.list(schema.int).len(0, 2)", "[]"), ("schema.list([...]).len(0)", "[]"),
    ("schema.list(schema.int).len(0, ...)", "[]"), ("schema.dict({'t': schema.list(schema.str).len(0, 5)})", "{'t': []}"), ("schema.list([]).len(0)", "[]"),
    ("schema.any(schema.list.len(0), schema.none)", "[]"), ("schema.list(schema.list(schema.int).len(0, 1))", "[[], [1], []]"),
    # several values after (before) the declared elements keep their order
    ("schema.list([schema.int, ...])", "[1, 2, 3, 4]"), ("schema.list([..., schema.int])", "[1, 2, 3, 4]"), ("schema.list([..., schema.int(3), ...])", "['a', 'b', 3, 'c', 'd']"),
    ("schema.list([schema.str, schema.int, ...])", "['a', 1, [1], [2], [3]]"), ("schema.dict({'l': schema.list([schema.none, ...])})", "{'l': [None, 'x', 'y', 'z']}"),
]


def make_cases(ctx, n_schemas, depth, plain_only=False, zoo_rate=0.2, opts=None):
    r = ctx.rng
    cases = []
    for ssrc, vsrc in TWINS:
        c = SCase()
        c.ssrc, c.schema, c.value, c.origin = ssrc, gen.build(ssrc), eval(vsrc, dict(gen.NS)), "twins"
        if plain_only and not pyspec.is_plain(c.value):
            continue
        c.unmodelled = None
        cases.append(c)
    if not plain_only:
        # every member of the hostile zoo at every position where the substitutor converts a native value
        grid = [("schema.list", lambda z: [z]), ("schema.dict", lambda z: {"k": z}), ("schema.any", lambda z: z),
                ("schema.dict({...: ...})", lambda z: {"k": z}), ("schema.list([..., schema.int, ...])", lambda z: [z, 1]),
                ("schema.list([schema.int, ...])", lambda z: [1, z]), ("schema.list([..., schema.int])", lambda z: [z, 1]),
                ("schema.dict({'a': schema.any})", lambda z: {"a": z}), ("schema.list(schema.any)", lambda z: [1, z])]
        for zs, z in gen.ZOO:
            for ssrc, mk in (grid if ctx.thorough() else r.sample(grid, 4)):
                c = SCase()
                c.ssrc, c.schema, c.value, c.origin = ssrc, gen.build(ssrc), mk(z), "zoo-grid"
                c.unmodelled = None
                cases.append(c)
    for _ in range(n_schemas):
        ssrc, s = gen.gen_schema(r, r.randint(0, depth), opts)
        vals = []
        for _ in range(2):
            try:
                v = gen.conform(r, s)
            except Exception:
                continue
            vals.append(("conform", v))
            vals += [("partial", p) for p in partials(r, v)]
            vals += [("perturb", p) for p in gen.perturbations(r, v, limit=6)]
            if not plain_only:
                vals += [("placeholder", p) for p in with_placeholders(r, v)[:4]]
                if r.random() < zoo_rate:
                    pos = list(gen.positions(v))
                    z = r.choice(gen.ZOO)[1]
                    vals.append(("zoo", gen.replace_at(v, r.choice(pos), z)))
        vals.append(("unrelated", r.choice(gen.UNRELATED)))
        if not plain_only and r.random() < zoo_rate:
            vals.append(("zoo", r.choice(gen.ZOO)[1]))
        for origin, v in vals:
            if plain_only and not pyspec.is_plain(v):
                continue
            c = SCase()
            c.ssrc, c.schema, c.value, c.origin = ssrc, s, v, origin
            c.unmodelled = None
            cases.append(c)
    return cases


def observe(c):
    """Run the real substitute; outcome in {'ok', 'subst', 'decl', 'raise'}; Coq term of the case."""
    from d42 import substitute
    from d42.declaration import DeclarationError
    from d42.substitution.errors import SubstitutionError
    c.result, c.exc = None, None
    try:
        c.result = substitute(c.schema, c.value)
        c.outcome = "ok"
    except SubstitutionError as e:
        c.outcome, c.exc = "subst", e
    except DeclarationError as e:
        c.outcome, c.exc = "decl", e
    except Exception as e:  # noqa
        c.outcome, c.exc = "raise", e
    try:
        kt = absn.KeyTable()
        st = absn.cschema(c.schema, kt)
        vt = absn.cvalue(c.value, kt)
        if c.outcome == "ok":
            obs = f"(Ok {absn.cschema(c.result, kt)})"
        elif c.outcome == "subst":
            obs = "(Err SubstErr)"
        elif c.outcome == "decl":
            obs = "(Err DeclErr)"
        else:
            obs = f"(Raise {absn.cexn(c.exc)})"
        c.term = f"({st}, {vt}, {obs})"
    except Unmodelled as u:
        c.unmodelled = str(u)
        c.term = None
        # the inputs are modelled but the RESULT is not a schema of the model's universe: the
        # implementation returned something no d42 declaration can build
        try:
            absn.cschema(c.schema, absn.KeyTable())
            absn.cvalue(c.value, absn.KeyTable())
            if c.outcome == "ok":
                c.unmodelled = "RESULT: " + c.unmodelled
        except Unmodelled:
            pass
    return c


def bad_results(cases):
    """cases whose inputs are modelled but whose resulting schema is outside the model"""
    return [c for c in cases if c.unmodelled and c.unmodelled.startswith("RESULT: ")]


def accepts(s, v):
    from d42 import validate
    return not validate(s, v).get_errors()


def gen_values(ctx, s, modes=("min", "max", "rand")):
    """values generated by the real generator from s under tape policies; list of (value|exception, tape)"""
    from d42 import fake
    out = []
    for m in modes:
        pol = tape.Policy(ctx.rng, m)
        try:
            with tape.scripted(pol):
                v = fake(s)
            out.append((True, v, pol.used))
        except Exception as e:  # noqa
            out.append((False, e, pol.used))
    return out


# ------------------------------------------------------------ shape classifiers for known findings
def _walk(s):
    """all sub-schemas of a built schema (pre-order)"""
    from d42.declaration import Schema
    yield s
    for name in s.props:
        v = s.props.get(name)
        if isinstance(v, Schema):
            yield from _walk(v)
        elif isinstance(v, (list, tuple)):
            for x in v:
                if isinstance(x, Schema):
                    yield from _walk(x)
        elif isinstance(v, dict):
            for x in v.values():
                if isinstance(x, tuple) and isinstance(x[0], Schema):
                    yield from _walk(x[0])


def _has_dict_below(s):
    from d42.declaration.types import DictSchema
    return any(isinstance(x, DictSchema) and x.props.get("keys") is not Nil for x in _walk(s))


def choice_over_dicts(s):
    """F20 / F25 shape: an `any` with >= 2 alternatives, or a [..., x, ...] list, with a declared
    dict schema somewhere below the choice point (substitution accepts partial dicts there)."""
    from d42.declaration.types import AnySchema, ListSchema
    kinds = set()
    for x in _walk(s):
        if isinstance(x, AnySchema):
            ts = x.props.get("types")
            if ts is not Nil and len(ts) >= 2 and any(_has_dict_below(t) for t in ts):
                kinds.add("F20")
        if isinstance(x, ListSchema):
            es = x.props.get("elements")
            if es is not Nil and len(es) > 2 and es[0] is ... and es[-1] is ... and \
                    any(e is not ... and _has_dict_below(e) for e in es):
                kinds.add("F25")
    return kinds


def schema_has_nan(s):
    for x in _walk(s):
        for name in ("value", "min", "max"):
            v = x.props.get(name)
            if isinstance(v, float) and v != v:
                return True
    return False


def precisions(s):
    out = set()
    for x in _walk(s):
        p = x.props.get("precision")
        if p is not Nil and isinstance(p, int):
            out.add(p)
    return sorted(out)


def float_anchors(s):
    """float values already declared somewhere in the schema"""
    out = []
    for x in _walk(s):
        v = x.props.get("value")
        if isinstance(v, float) and v == v:
            out.append(v)
    return out


def has_placeholder(v):
    if v is ... or v is Nil:
        return True
    if isinstance(v, list):
        return any(has_placeholder(x) for x in v)
    if isinstance(v, dict):
        return any(k is ... or has_placeholder(x) for k, x in v.items())
    return False


# ------------------------------------------------------------ oracles on the real code
def hereditarily_generable(ctx, s, cache={}):
    """every sub-schema of s generates a value it accepts under the min/max/rand policies"""
    key = id(s)
    if key in cache:
        return cache[key][1]
    ok = True
    for x in _walk(s):
        for good, v, _t in gen_values(ctx, x):
            if not good:
                ok = False
                break
            try:
                if not accepts(x, v):
                    ok = False
                    break
            except Exception:  # noqa
                ok = False
                break
        if not ok:
            break
    cache[key] = (s, ok)
    return ok


def third_values(ctx, c, limit=10):
    """values to probe S % v and S with: generated from the result, perturbations of v and
    of generated values, values conforming to S"""
    r = ctx.rng
    ws = [("v", c.value)]
    for good, g, _t in gen_values(ctx, c.result):
        if good:
            ws.append(("generated", g))
            ws += [("perturbed-generated", p) for p in gen.perturbations(r, g, limit=3)]
    ws += [("perturbed-v", p) for p in gen.perturbations(r, c.value, limit=limit)]
    for _ in range(2):
        try:
            ws.append(("conform-S", gen.conform(r, c.schema)))
        except Exception:  # noqa
            pass
    # dict members the value does not mention (optional ones above all): filled with values their member schema
    # accepts and with perturbations of those - what was declared for them must still be in force
    from d42.declaration.types import DictSchema
    def fill(s, v, depth=0):
        out = []
        if isinstance(s, DictSchema) and isinstance(v, dict) and s.props.get("keys") is not Nil and depth < 4:
            for k, (sub, opt) in s.props.keys.items():
                if k is ... or sub is ...:
                    continue
                if k not in v:
                    try:
                        good = gen.conform(r, sub)
                    except Exception:  # noqa
                        continue
                    for x in [good] + gen.perturbations(r, good, limit=3):
                        out.append({**v, k: x})
                else:
                    for inner in fill(sub, v[k], depth + 1)[:3]:
                        out.append({**v, k: inner})
        return out
    try:
        ws += [("unmentioned-member", w) for w in fill(c.schema, c.value)[:8]]
    except Exception:  # noqa
        pass
    return ws


def keeps_unspecified(s, s2, v):
    """dict keys of s absent from v keep schema and optionality in s2 (recursively through
    dict members and aliases); returns a description of the first difference or None"""
    from d42.declaration.types import DictSchema, GenericTypeAliasSchema
    if isinstance(s, GenericTypeAliasSchema) and isinstance(s2, GenericTypeAliasSchema):
        return keeps_unspecified(s.props.type, s2.props.type, v)
    if isinstance(s, DictSchema) and isinstance(s2, DictSchema) and isinstance(v, dict):
        ks, ks2 = s.props.get("keys"), s2.props.get("keys")
        if ks is Nil or ks2 is Nil or (len(ks) == 1 and ... in ks):
            return None
        for k, (sub, opt) in ks.items():
            if k is ...:
                if k not in ks2:
                    return "relaxed marker lost"
                continue
            if k not in ks2:
                return f"key {k!r} lost"
            sub2, opt2 = ks2[k]
            if k not in v:
                if opt2 != opt:
                    return f"optionality of unspecified key {k!r} changed"
                if sub2 is not sub and not (sub2 == sub and repr(sub2) == repr(sub)):
                    return f"schema of unspecified key {k!r} changed"
            else:
                d = keeps_unspecified(sub, sub2, v[k]) if sub is not ... else None
                if d:
                    return d
        if list(ks2.keys()) != list(ks.keys()):
            return "key set/order changed"
    return None


def ell_in_middle(v):
    """a `...` placeholder that is neither the first nor the last element of its list (F22 shape)"""
    if isinstance(v, list):
        if any(x is ... for x in v[1:-1]):
            return True
        return any(ell_in_middle(x) for x in v)
    if isinstance(v, dict):
        return any(ell_in_middle(x) for x in v.values())
    return False
