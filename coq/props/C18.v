(* C18 - rollout inverts flattening (statements; proofs in proofs/RolloutSpec.v) *)
Require Import D42.Prelude D42.Rollout.
Open Scope N_scope.
Example stub_split : split [46] [97;46;98] = [[97];[98]].
Proof. vm_compute. reflexivity. Qed.
