(* C18 - rollout is the inverse of flattening dotted keys.
   Statements only; proofs in proofs/RolloutStr.v, RolloutDict.v, RolloutSpec.v.
   Model: theories/Rollout.v (rollout = the two loops of d42/utils/_rollout.py on
   insertion-ordered association lists; split/join = str.split/str.join). *)
Require Import D42.Prelude D42.Rollout D42P.RolloutStr D42P.RolloutDict D42P.RolloutSpec.
From Coq Require Import Permutation.

(* (1) split inverts join on unambiguous segment lists ... *)
Theorem split_join :
  forall (sep : pystr) (segs : list pystr),
    sep <> [] -> segs <> [] -> unambiguous sep segs = true ->
    split sep (join sep segs) = segs.
Proof. exact split_join_lemma. Qed.
Print Assumptions split_join.

(* ... and for a 1-character separator every list of separator-free segments is unambiguous *)
Theorem sepfree_unambiguous_1 :
  forall (c : N) (segs : list pystr),
    forallb (fun seg => negb (infix [c] seg)) segs = true -> unambiguous [c] segs = true.
Proof. exact sepfree_unambiguous_1_lemma. Qed.
Print Assumptions sepfree_unambiguous_1.

(* any separator: no segment contains the separator's first character *)
Theorem headfree_unambiguous_sep :
  forall (sep : pystr) (segs : list pystr),
    headfree sep segs = true -> unambiguous sep segs = true.
Proof. exact headfree_unambiguous. Qed.
Print Assumptions headfree_unambiguous_sep.

(* multi-character separators need more than separator-free segments *)
Theorem split_join_refuted :
  exists (sep : pystr) (segs : list pystr),
    sep <> [] /\ forallb (fun seg => negb (infix sep seg)) segs = true
    /\ split sep (join sep segs) <> segs.
Proof. exact split_join_refuted_lemma. Qed.
Print Assumptions split_join_refuted.

(* (2) rollout inverts flattening: every well-formed nested mapping cs (+ optional top-level
   [...: ...]), every separator under which its paths are unambiguous, every order of the
   flat entries; the result is a legitimate dict that is == (Python dict equality: same
   keys incl. optional markers, same payload ids) to the nested mapping. *)
Theorem rollout_flatten_inverse :
  forall (sep : pystr) (ell : bool) (cs : tmap) (flat : rdict) (fuel : nat),
    sep <> [] -> wf_tmap cs = true -> unambiguous_tmap sep cs = true ->
    Permutation flat (map (ent sep) (flat_all ell cs)) ->
    tmap_depth cs < fuel ->
    exists d, rollout fuel sep flat = Ok d
              /\ dict_keys_ok d = true /\ dict_equiv d (of_tmap ell cs) = true.
Proof. exact rollout_flatten_inverse_lemma. Qed.
Print Assumptions rollout_flatten_inverse.

Theorem rollout_flatten_inverse_1char :
  forall (c : N) (ell : bool) (cs : tmap) (flat : rdict) (fuel : nat),
    wf_tmap cs = true -> sepfree_tmap [c] cs = true ->
    Permutation flat (map (ent [c]) (flat_all ell cs)) ->
    tmap_depth cs < fuel ->
    exists d, rollout fuel [c] flat = Ok d
              /\ dict_keys_ok d = true /\ dict_equiv d (of_tmap ell cs) = true.
Proof. exact rollout_flatten_inverse_1char_lemma. Qed.
Print Assumptions rollout_flatten_inverse_1char.

(* (3) rollout of an already nested mapping without separators is the identity (same
   entries in the same order) *)
Theorem rollout_nested_id :
  forall (fuel : nat) (sep : pystr) (d : rdict),
    sep <> [] -> nested_ok sep (RDict d) = true -> vdepth (RDict d) <= fuel ->
    rollout fuel sep d = Ok d.
Proof. exact rollout_nested_id_lemma. Qed.
Print Assumptions rollout_nested_id.

(* the carved-out corners are real *)
Theorem rollout_flatten_inverse_refuted_ambiguous :
  exists (sep : pystr) (cs : tmap) (d : rdict),
    sep <> [] /\ wf_tmap cs = true /\ sepfree_tmap sep cs = true /\ unambiguous_tmap sep cs = false
    /\ rollout (S (tmap_depth cs)) sep (map (ent sep) (flat_all false cs)) = Ok d
    /\ dict_equiv d (of_tmap false cs) = false.
Proof. exact rollout_flatten_inverse_refuted_ambiguous_lemma. Qed.
Print Assumptions rollout_flatten_inverse_refuted_ambiguous.

Theorem rollout_flatten_inverse_refuted_empty_node :
  exists (sep : pystr) (cs : tmap) (d : rdict),
    sep <> [] /\ wf_tmap cs = false /\ unambiguous_tmap sep cs = true
    /\ rollout (S (tmap_depth cs)) sep (map (ent sep) (flat_all false cs)) = Ok d
    /\ dict_equiv d (of_tmap false cs) = false.
Proof. exact rollout_flatten_inverse_refuted_empty_node_lemma. Qed.
Print Assumptions rollout_flatten_inverse_refuted_empty_node.

Theorem rollout_flatten_inverse_refuted_optional_node :
  exists (sep : pystr) (cs : tmap) (d : rdict),
    sep <> [] /\ wf_tmap cs = false /\ unambiguous_tmap sep cs = true
    /\ rollout (S (tmap_depth cs)) sep (map (ent sep) (flat_all false cs)) = Ok d
    /\ dict_equiv d (of_tmap false cs) = false.
Proof. exact rollout_flatten_inverse_refuted_optional_node_lemma. Qed.
Print Assumptions rollout_flatten_inverse_refuted_optional_node.

(* ---- non-vacuity: a depth-3 mapping with optional leaves, an empty-string key, the same
   segment plain and optional on one level, and a top-level [...: ...]:
     {"id": 1, "r": {"n": 2, "f": {"id": 3, optional("d"): 4, "": 5}, optional("x"): 6},
      optional("id"): 7, ...: ...}                                                       ---- *)
Open Scope N_scope.
Definition ex_dot : pystr := [46].
Definition ex_cs : tmap :=
  [ (false, [105; 100], TLeaf 1);
    (false, [114], TNode [ (false, [110], TLeaf 2);
                           (false, [102], TNode [ (false, [105; 100], TLeaf 3);
                                                  (true, [100], TLeaf 4);
                                                  (false, [], TLeaf 5) ]);
                           (true, [120], TLeaf 6) ]);
    (true, [105; 100], TLeaf 7) ].

(* its flattening, shuffled:
   {optional("r.x"): 6, "r.f.": 5, ...: ..., optional("id"): 7, "r.f.id": 3, "id": 1,
    optional("r.f.d"): 4, "r.n": 2} *)
Definition ex_flat : rdict :=
  [ (RKStr true [114; 46; 120], RLeaf 6);
    (RKStr false [114; 46; 102; 46], RLeaf 5);
    (RKEll, REll);
    (RKStr true [105; 100], RLeaf 7);
    (RKStr false [114; 46; 102; 46; 105; 100], RLeaf 3);
    (RKStr false [105; 100], RLeaf 1);
    (RKStr true [114; 46; 102; 46; 100], RLeaf 4);
    (RKStr false [114; 46; 110], RLeaf 2) ].

Example ex_hypotheses :
  wf_tmap ex_cs = true /\ unambiguous_tmap ex_dot ex_cs = true
  /\ sepfree_tmap ex_dot ex_cs = true /\ tmap_depth ex_cs = 2%nat.
Proof. vm_compute. auto. Qed.

Example ex_permutation : Permutation ex_flat (map (ent ex_dot) (flat_all true ex_cs)).
Proof.
  apply NoDup_Permutation_bis.
  - repeat constructor; cbn [In]; intuition discriminate.
  - vm_compute. lia.
  - intros x Hx. vm_compute in Hx |- *. intuition.
Qed.

Example ex_rollout :
  rollout 3 ex_dot ex_flat =
  Ok [ (RKStr false [114],
        RDict [ (RKStr true [120], RLeaf 6);
                (RKStr false [102],
                 RDict [ (RKStr false [], RLeaf 5); (RKStr false [105; 100], RLeaf 3);
                         (RKStr true [100], RLeaf 4) ]);
                (RKStr false [110], RLeaf 2) ]);
       (RKEll, REll);
       (RKStr true [105; 100], RLeaf 7);
       (RKStr false [105; 100], RLeaf 1) ].
Proof. vm_compute. reflexivity. Qed.

Example ex_equiv :
  exists d, rollout 3 ex_dot ex_flat = Ok d /\ dict_equiv d (of_tmap true ex_cs) = true
            /\ rdict_eqb d (of_tmap true ex_cs) = false.   (* equal as dicts, other key order *)
Proof. eexists. split; [vm_compute; reflexivity|]. split; vm_compute; reflexivity. Qed.

(* the theorem applies to the example *)
Example ex_instance :
  exists d, rollout 3 ex_dot ex_flat = Ok d
            /\ dict_keys_ok d = true /\ dict_equiv d (of_tmap true ex_cs) = true.
Proof.
  apply rollout_flatten_inverse.
  - discriminate.
  - apply ex_hypotheses.
  - apply ex_hypotheses.
  - exact ex_permutation.
  - vm_compute. lia.
Qed.

Example ex_nested_id :
  nested_ok ex_dot (RDict (of_tmap true ex_cs)) = true
  /\ rollout 3 ex_dot (of_tmap true ex_cs) = Ok (of_tmap true ex_cs).
Proof. split; vm_compute; reflexivity. Qed.
