(* C13 - Schema combinators mean what their parts mean.
   Only statements here; proofs are in proofs/CombinatorsSpec.v; the modelled operations
   are in theories/Combinators.v ([s_or], [any_call], [flatten], [dict_add],
   [make_required], [alias], [getitem], [iter_keys], [contains_key]).

   All statements are about [conforms] (the declarative meaning of a schema) and hold for
   ALL operand schemas and ALL values; [wf]-preservation puts every result inside C02's
   theorem, which gives the verdict forms at the end. *)
Require Import D42.Prelude D42.Value D42.Regex D42.Schema D42.Validate D42.Conforms D42.Combinators.
Require Import D42P.CombinatorsSpec D42P.AddAssoc.

(* ---------------------------------------------------------------- a | b ---- *)
(* a | b never fails on schemas; the result accepts exactly the union.  No hypothesis on
   the operands (not even wf). *)
Theorem or_total : forall a b, exists u, s_or a b = Ok u.
Proof. exact s_or_total. Qed.
Print Assumptions or_total.

Theorem or_is_union :
  forall a b u, s_or a b = Ok u -> forall v, conforms u v <-> conforms a v \/ conforms b v.
Proof. exact or_is_union_lemma. Qed.
Print Assumptions or_is_union.

Theorem or_wf : forall a b u, wf a = true -> wf b = true -> s_or a b = Ok u -> wf u = true.
Proof. exact wf_s_or. Qed.
Print Assumptions or_wf.

(* ---------------------------------------------------------------- schema.any(a, b, ...) ---- *)
(* complete case analysis of AnySchema.__call__: Ok exactly on a bare schema.any with at
   least one operand (then the union of all operands), DeclarationError when already
   declared, TypeError without operands *)
Theorem any_call_spec :
  forall base args,
    match any_call base args with
    | Ok u => base = None /\ args <> [] /\
              forall v, conforms u v <-> Exists (fun t => conforms t v) args
    | Err k => k = DeclErr /\ base <> None /\ args <> []
    | Raise e => e = TypeError /\ args = []
    end.
Proof. exact any_call_spec_lemma. Qed.
Print Assumptions any_call_spec.

Theorem any_call_is_union :
  forall t ts u, any_call None (t :: ts) = Ok u ->
    forall v, conforms u v <-> Exists (fun x => conforms x v) (t :: ts).
Proof. exact any_call_is_union_lemma. Qed.
Print Assumptions any_call_is_union.

Theorem any_call_wf :
  forall base args u, Forall (fun t => wf t = true) args -> any_call base args = Ok u -> wf u = true.
Proof. exact wf_any_call. Qed.
Print Assumptions any_call_wf.

(* nested unions flatten without changing meaning; flattening is idempotent; the three
   ways of writing a three-way union produce the same schema *)
Theorem flatten_same_meaning :
  forall ts v, conforms (SAny (Some (flatten ts))) v <-> conforms (SAny (Some ts)) v.
Proof. exact flatten_same_meaning_lemma. Qed.
Print Assumptions flatten_same_meaning.

Theorem flatten_idem : forall ts, flatten (flatten ts) = flatten ts.
Proof. exact flatten_idempotent. Qed.
Print Assumptions flatten_idem.

Theorem or_assoc :
  forall a b c ab bc, s_or a b = Ok ab -> s_or b c = Ok bc ->
    s_or ab c = any_call None [a; b; c] /\ s_or a bc = any_call None [a; b; c].
Proof. exact or_assoc_same. Qed.
Print Assumptions or_assoc.

(* ---------------------------------------------------------------- d1 + d2 ---- *)
(* which operands are refused, with which exception *)
Theorem add_rejects :
  forall a b,
    match dict_add a b with
    | Ok _ => (exists k1, a = SDict k1) /\ (exists k2, b = SDict k2)
    | Raise e => (e = AttributeError /\ forall k1, a <> SDict k1) \/
                 (e = TypeError /\ (exists k1, a = SDict k1) /\ forall k2, b <> SDict k2)
    | Err _ => False end.
Proof. exact dict_add_rejects. Qed.
Print Assumptions add_rejects.

(* Python's {**d1, **d2} on well-formed operands IS the textbook merge, order included:
   d1's entries in place, each replaced by d2's entry for the same key, then d2's entries
   whose key d1 does not declare.  (An undeclared operand contributes no entries.) *)
Theorem add_spec :
  forall k1 k2, wf (SDict k1) = true -> wf (SDict k2) = true ->
    dict_add (SDict k1) (SDict k2) =
    Ok (SDict (Some (merged_spec (entries_of k1) (entries_of k2)))).
Proof. exact add_textbook_lemma. Qed.
Print Assumptions add_spec.

(* direct characterisation: v is a dict; every key declared in d2 is constrained by d2's
   entry (schema and optionality); every key declared only in d1 by d1's entry; keys
   declared in neither are allowed iff d1 or d2 is relaxed *)
Theorem add_characterisation :
  forall k1 k2 d, wf (SDict k1) = true -> wf (SDict k2) = true ->
    dict_add (SDict k1) (SDict k2) = Ok d ->
    forall v, conforms d v <->
      exists dv, v = VDict dv /\
        (forall e, In e (entries_of k2) -> de_key e <> KEll -> entry_holds e dv) /\
        (forall e, In e (entries_of k1) -> de_key e <> KEll ->
                   has_dkey (de_key e) (entries_of k2) = false -> entry_holds e dv) /\
        (has_dkey KEll (entries_of k1) = false -> has_dkey KEll (entries_of k2) = false ->
         forall k x, In (k, x) dv ->
           has_dkey k (entries_of k1) = true \/ has_dkey k (entries_of k2) = true).
Proof. exact add_characterisation_lemma. Qed.
Print Assumptions add_characterisation.

(* `+` is associative AS SCHEMAS: the same entries with the same optional flags in the same
   order (Python's {**{**a, **b}, **c} and {**a, **{**b, **c}} agree on insertion order too),
   hence the same printed form and the same verdicts.  Proved on the fold that models dict
   assignment, for entry lists of any length (proofs/AddAssoc.v). *)
Theorem add_assoc :
  forall a b c ab bc, wf a = true -> wf b = true -> wf c = true ->
    dict_add a b = Ok ab -> dict_add b c = Ok bc ->
    dict_add ab c = dict_add a bc.
Proof. exact add_assoc_lemma. Qed.
Print Assumptions add_assoc.

(* non-vacuity: three overlapping operands, the last one relaxed; both groupings succeed *)
Example add_assoc_example :
  let a := SDict (Some [ (KStr [97%N], Some SNone, false); (KStr [98%N], Some (SBool None), true) ]) in
  let b := SDict (Some [ (KStr [99%N], Some SNone, false); (KStr [97%N], Some (SBool None), true) ]) in
  let c := SDict (Some [ (KStr [98%N], Some SNone, false); (KEll, None, false) ]) in
  wf a && wf b && wf c = true /\
  match dict_add a b, dict_add b c with
  | Ok ab, Ok bc => is_ok (dict_add ab c) && is_ok (dict_add a bc)
  | _, _ => false end = true.
Proof. vm_compute. auto. Qed.

Theorem add_relaxed :
  forall k1 k2,
    has_dkey KEll (merge_entries (entries_of k1) (entries_of k2)) =
    has_dkey KEll (entries_of k1) || has_dkey KEll (entries_of k2).
Proof. exact add_relaxed_lemma. Qed.
Print Assumptions add_relaxed.

Theorem add_wf : forall a b d, wf a = true -> wf b = true -> dict_add a b = Ok d -> wf d = true.
Proof. exact wf_dict_add. Qed.
Print Assumptions add_wf.

(* ---------------------------------------------------------------- make_required ---- *)
(* [required_keys d ks] = ks, or every declared key when ks is omitted; `...` is not a key
   of a value *)
Theorem make_required_spec :
  forall d ks d', make_required d ks = Ok d' ->
    forall v, conforms d' v <->
              conforms d v /\ (forall k, In k (required_keys d ks) -> k <> KEll -> vhas_key k v).
Proof. exact make_required_spec_lemma. Qed.
Print Assumptions make_required_spec.

(* rejected exactly when the schema is not a dict schema or a listed key is undeclared *)
Theorem make_required_domain :
  forall s ks,
    match make_required s ks with
    | Ok _ => exists dk, s = SDict dk /\
                         forall k, In k (required_keys s ks) -> has_dkey k (entries_of dk) = true
    | Err e => e = DeclErr /\
               ((forall dk, s <> SDict dk) \/
                exists dk k, s = SDict dk /\ In k (required_keys s ks) /\
                             has_dkey k (entries_of dk) = false)
    | Raise _ => False end.
Proof. exact make_required_rejects. Qed.
Print Assumptions make_required_domain.

Theorem make_required_wf :
  forall d ks d', wf d = true -> make_required d ks = Ok d' -> wf d' = true.
Proof. exact wf_make_required. Qed.
Print Assumptions make_required_wf.

(* ---------------------------------------------------------------- alias ---- *)
Theorem alias_spec : forall n t v, conforms (alias n t) v <-> conforms t v.
Proof. exact alias_spec_lemma. Qed.
Print Assumptions alias_spec.

Theorem alias_wf : forall n t, wf (alias n t) = wf t.
Proof. exact wf_alias. Qed.
Print Assumptions alias_wf.

(* ---------------------------------------------------------------- d[key], iteration ---- *)
Theorem getitem_spec :
  forall l k, wf (SDict (Some l)) = true ->
    match getitem (SDict (Some l)) k with
    | Ok m => k <> KEll /\ exists s o, m = Some s /\ In (k, Some s, o) l
    | Raise e => e = KeyError /\ (k = KEll \/ has_dkey k l = false)
    | Err _ => False end.
Proof. exact getitem_spec_lemma. Qed.
Print Assumptions getitem_spec.

Theorem getitem_declared_member :
  forall l k s o, wf (SDict (Some l)) = true -> In (k, Some s, o) l -> k <> KEll ->
    getitem (SDict (Some l)) k = Ok (Some s).
Proof. exact getitem_declared. Qed.
Print Assumptions getitem_declared_member.

(* iteration lists exactly the declared keys in insertion order (the relaxed marker
   included), and every listed key other than `...` is subscriptable *)
Theorem iter_spec :
  forall dk,
    iter_keys (SDict dk) = Ok (map de_key (entries_of dk)) /\
    (wf (SDict dk) = true ->
     forall k, In k (map de_key (entries_of dk)) -> k <> KEll ->
               exists s, getitem (SDict dk) k = Ok (Some s)).
Proof. exact iter_spec_lemma. Qed.
Print Assumptions iter_spec.

Theorem contains_spec : forall dk k, contains_key (SDict dk) k = Ok (has_dkey k (entries_of dk)).
Proof. exact contains_spec_lemma. Qed.
Print Assumptions contains_spec.

(* FINDING (minimal input schema.dict({...: ...})): "every key yielded by iteration is a
   declared member, d[k] returns its schema" is false - iteration yields `...`, for which
   d[...] raises KeyError.  [iter_spec] carves it out with k <> KEll. *)
Theorem iter_all_subscriptable_refuted :
  exists d k ks, wf d = true /\ iter_keys d = Ok ks /\ In k ks /\ getitem d k = Raise KeyError.
Proof. exact iter_all_subscriptable_refuted_lemma. Qed.
Print Assumptions iter_all_subscriptable_refuted.

(* ---------------------------------------------------------------- verdict forms (with C02) ---- *)
Theorem or_verdict :
  forall a b u, wf a = true -> wf b = true -> s_or a b = Ok u ->
    forall v, verdict u v = verdict a v || verdict b v.
Proof. exact or_verdict_lemma. Qed.
Print Assumptions or_verdict.

Theorem alias_verdict : forall n t v, verdict (alias n t) v = verdict t v.
Proof. exact alias_verdict_lemma. Qed.
Print Assumptions alias_verdict.

Theorem make_required_verdict :
  forall d ks d', wf d = true -> make_required d ks = Ok d' ->
    forall v, verdict d' v =
              verdict d v && forallb (fun k => is_kell k || vhas_keyb k v) (required_keys d ks).
Proof. exact make_required_verdict_lemma. Qed.
Print Assumptions make_required_verdict.

(* ---------------------------------------------------------------- non-vacuity ---- *)
Open Scope N_scope.
Definition exA : schema := SAny (Some [SInt None None None; SAny None]).
Definition exB : schema := SAlias (Some [85]) (SAny (Some [SNone])).
Example ex_or : s_or exA exB = Ok (SAny (Some [SInt None None None; SAny None; exB])).
Proof. vm_compute. reflexivity. Qed.

Definition exD1 : schema :=
  SDict (Some [(KStr [97], Some (SInt None None None), false); (KEll, None, false);
               (KStr [98], Some SNone, true)]).
Definition exD2 : schema :=
  SDict (Some [(KStr [98], Some (SStr None None None None None None None), false);
               (KStr [99], Some SNone, false); (KStr [97], Some SNone, true)]).
Example ex_wf : wf exD1 = true /\ wf exD2 = true.
Proof. vm_compute. auto. Qed.
Example ex_add :
  dict_add exD1 exD2 =
  Ok (SDict (Some [(KStr [97], Some SNone, true); (KEll, None, false);
                   (KStr [98], Some (SStr None None None None None None None), false);
                   (KStr [99], Some SNone, false)])).
Proof. vm_compute. reflexivity. Qed.
Example ex_add_undeclared : dict_add (SDict None) (SDict None) = Ok (SDict (Some [])).
Proof. reflexivity. Qed.
Example ex_required :
  make_required exD1 (Some [KStr [98]]) =
  Ok (SDict (Some [(KStr [97], Some (SInt None None None), false); (KEll, None, false);
                   (KStr [98], Some SNone, false)])) /\
  make_required exD1 None = make_required exD1 (Some [KStr [98]]) /\
  make_required exD1 (Some []) = Ok exD1 /\
  make_required exD2 (Some [KEll]) = Err DeclErr.
Proof. vm_compute. auto. Qed.
Example ex_verdicts :
  verdict exD1 (VDict [(KStr [97], VInt 1%Z)]) = true /\
  (forall d, make_required exD1 None = Ok d -> verdict d (VDict [(KStr [97], VInt 1%Z)]) = false).
Proof. split; [vm_compute; reflexivity|]. intros d E. vm_compute in E. injection E as <-. vm_compute. reflexivity. Qed.
