(* C06 - placeholder while the proofs are being written *)
Require Import D42.Prelude D42.Schema D42.Declare D42.Represent.
Example c06_stub : eval (represent SNone) = Ok SNone.
Proof. reflexivity. Qed.
