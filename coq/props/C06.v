(* C06 - repr(schema) is DSL source that rebuilds an equal schema.
   Only statements here; proofs are in proofs/RepresentSpec.v (and RepresentReach.v, DeclareInv.v).

   represent : schema -> expr   the call-chain tree Representor.visit_* prints (theories/Represent.v)
   eval      : expr -> result schema   its evaluation with the declaration model of C10/C11
   The text layer (literal reprs, indentation, commas) is outside the model: the harness
   parses the real text into an [expr] and compares (see harness/props/c06.py); finding F15
   (non-finite floats print as the bare names inf / nan) lives in that layer. *)
Require Import D42.Prelude D42.Value D42.Regex D42.Schema D42.Validate D42.CaseLib D42.Declare
               D42.Represent D42.Combinators.
Require Import D42P.DeclareSpec D42P.DeclareInv D42P.RepresentSpec D42P.RepresentReach.

(* For every schema satisfying the DSL invariant and free of type aliases / custom types:
   evaluating what repr prints succeeds and yields THE SAME model schema (Leibniz equality,
   finer than Python ==), hence a structurally identical one with the same repr.
   No NaN exclusion is needed in the model: a NaN parameter is rebuilt bit for bit; Python's
   == is irreflexive on it (F10 / C15), and its text does not parse back at all (F15). *)
Theorem repr_roundtrip_eq :
  forall s, dsl_inv s = true -> alias_custom_free s = true -> eval (represent s) = Ok s.
Proof. exact repr_roundtrip_eval. Qed.
Print Assumptions repr_roundtrip_eq.

Theorem repr_roundtrip :
  forall s, dsl_inv s = true -> alias_custom_free s = true ->
  exists s', eval (represent s) = Ok s' /\ s' = s /\ schema_same s s' = true /\
             represent s' = represent s.
Proof. exact repr_roundtrip_lemma. Qed.
Print Assumptions repr_roundtrip.

(* Reachability: the invariant holds for the bare types, is preserved by every successful
   declaration call (C10: decl_fixed_conforms / run_dsl_inv), by  d1 + d2  and by
   make_required (model of C13, theories/Combinators.v). *)
Theorem reach_bare : forall k, dsl_inv (bare k) = true.
Proof. exact bare_inv. Qed.
Print Assumptions reach_bare.

Theorem reach_decl :
  forall m s args s', dsl_inv s = true -> args_inv args = true -> decl m s args = Ok s' ->
  dsl_inv s' = true.
Proof. exact decl_inv_lemma. Qed.
Print Assumptions reach_decl.

Theorem reach_dict_add :
  forall a b c, dsl_inv a = true -> dsl_inv b = true -> dict_add a b = Ok c -> dsl_inv c = true.
Proof. exact dict_add_inv_lemma. Qed.
Print Assumptions reach_dict_add.

Theorem reach_make_required :
  forall s ks s', dsl_inv s = true -> make_required s ks = Ok s' -> dsl_inv s' = true.
Proof. exact make_required_inv_lemma. Qed.
Print Assumptions reach_make_required.

(* ... and so is the second hypothesis: no alias / custom type appears unless one is passed in *)
Theorem reach_decl_acf :
  forall m s args s', dsl_inv s = true -> args_inv args = true ->
  alias_custom_free s = true -> args_acf args = true -> decl m s args = Ok s' ->
  alias_custom_free s' = true.
Proof. exact decl_acf_lemma. Qed.
Print Assumptions reach_decl_acf.

Theorem reach_dict_add_acf :
  forall a b c, alias_custom_free a = true -> alias_custom_free b = true -> dict_add a b = Ok c ->
  alias_custom_free c = true.
Proof. exact dict_add_acf_lemma. Qed.
Print Assumptions reach_dict_add_acf.

Theorem reach_make_required_acf :
  forall s ks s', alias_custom_free s = true -> make_required s ks = Ok s' -> alias_custom_free s' = true.
Proof. exact make_required_acf_lemma. Qed.
Print Assumptions reach_make_required_acf.

(* ---- non-vacuity: a nested schema with every kind of constraint, an optional key, a `...`
        key in the middle, `...` elements, nested any ---- *)
Open Scope N_scope.
Definition ex_schema : schema :=
  SDict (Some [ (KStr [97],
                 Some (SList (Some [Some (SInt (Some (IInt 0%Z)) (Some (IInt 0%Z)) None); None])
                             None None (Some (IInt 1%Z)) None), false);
                (KEll, None, false);
                (KInt 1%Z,
                 Some (SAny (Some [SStr (Some [97;98]) None (Some (IInt 0%Z)) (Some (IInt 5%Z))
                                        (Some [97;98]) (Some [98]) None;
                                   SStr None None None None None None (Some ([97], [RLit 97]));
                                   SFloat (Some fnan) None None (Some (IBool true));
                                   SList None (Some (SDict (Some []))) (Some (IInt 0%Z)) None None])),
                 true) ]).
Example ex_inv : dsl_inv ex_schema = true /\ alias_custom_free ex_schema = true.
Proof. vm_compute. split; reflexivity. Qed.
Example ex_roundtrip : eval (represent ex_schema) = Ok ex_schema.
Proof. vm_compute. reflexivity. Qed.
(* the len tail really is part of the tree (F14 was its loss for an empty element list) *)
Example ex_empty_list_len :
  represent (SList (Some []) None (Some (IInt 0%Z)) None None)
  = EMeth (EMeth (EBase KdList) MCall [EListD []]) MLen [ELit (VInt 0%Z)].
Proof. reflexivity. Qed.
(* outside the invariant the statement fails: a length contradicting the fixed value is
   printed, and the printed chain is rejected *)
Example ex_needs_inv :
  eval (represent (SStr (Some [97]) (Some (IInt 3%Z)) None None None None None)) = Err DeclErr.
Proof. vm_compute. reflexivity. Qed.
