(* C04 - Substitution pins the given value into the schema.
   Only statements here; proofs are in proofs/SubstPins.v and proofs/SubstAccepts.v. *)
From Coq Require Import PrimFloat.
Require Import D42.Prelude D42.PyFloat D42.Value D42.Regex D42.Schema D42.Validate D42.Conforms
               D42.FromNative D42.Substitute D42.Agree D42.ChoiceFree.
Require Import D42.PyRandom D42.Generate D42.Sat D42.HSat.
Require Import D42P.ValidateSpec D42P.SubstPins D42P.SubstAccepts D42P.SubstSat.

(* Every value the substituted schema accepts carries the substituted data: for every
   well-formed schema s, every plain value v (dict keys pairwise distinct, as in any Python
   dict) with s % v = s', and EVERY value w accepted by s': scalars equal (int/bool up to
   True/False ~ 1/0, floats within the documented tolerance of the pinned value), lists
   element-wise and of the same length, dicts on every key of v ([pins], theories/Agree.v). *)
Theorem subst_pins :
  forall s, wf s = true ->
  forall v s', plain v = true -> vwf v = true -> substitute s v = Ok s' ->
  forall w, conforms s' w -> pins v w.
Proof. exact subst_pins_lemma. Qed.
Print Assumptions subst_pins.

(* Unspecified dict keys keep their original schema and optionality (and every key keeps
   its position). *)
Theorem subst_keeps_unspecified :
  forall ents0 d s',
    plain (VDict d) = true -> relaxed_only ents0 = false ->
    substitute (SDict (Some ents0)) (VDict d) = Ok s' ->
    exists ents, s' = SDict (Some ents) /\
                 Forall2 (fun e0 e => de_key e = de_key e0 /\
                                      (assoc (de_key e0) d = None -> e = e0)) ents0 ents.
Proof. exact subst_keeps_lemma. Qed.
Print Assumptions subst_keeps_unspecified.

(* "If the value itself conforms to the original schema then the result accepts it."
   The full statement is FALSE of the faithful model (and of the code: known findings F20,
   F25): at a choice point - alternatives of an any, windows of a [..., x, ...] list - the
   substitutor keeps the first alternative/window the value merely SUBSTITUTES into, and
   partial dicts substitute where they do not conform. *)
Definition subst_accepts_value_full : Prop :=
  forall s v s', wf s = true -> plain v = true -> vwf v = true -> no_nan v = true ->
                 substitute s v = Ok s' -> verdict s v = true -> verdict s' v = true.

Open Scope N_scope.
Definition kA := KStr [97]. Definition kB := KStr [98]. Definition kC := KStr [99].
Definition sint := SInt None None None.
(* F20: any(dict({a: int, ...: ...}), dict({a: int, b: int, c: int})) % {a: 1, b: 2} *)
Definition f20_s : schema :=
  SAny (Some [ SDict (Some [(kA, Some sint, false); (KEll, None, false)]);
               SDict (Some [(kA, Some sint, false); (kB, Some sint, false); (kC, Some sint, false)]) ]).
Definition f20_v : value := VDict [(kA, VInt 1%Z); (kB, VInt 2%Z)].
(* F25: list([..., dict({a: int, b: int}), ...]) % [{a: 1}, {a: 1, b: 2}] *)
Definition f25_s : schema :=
  SList (Some [None; Some (SDict (Some [(kA, Some sint, false); (kB, Some sint, false)])); None])
        None None None None.
Definition f25_v : value := VList [VDict [(kA, VInt 1%Z)]; VDict [(kA, VInt 1%Z); (kB, VInt 2%Z)]].

Theorem subst_accepts_value_refuted : ~ subst_accepts_value_full.
Proof.
  intros H. specialize (H f20_s f20_v).
  destruct (substitute f20_s f20_v) as [s'| |] eqn:E; [|vm_compute in E; discriminate ..].
  specialize (H s' eq_refl eq_refl eq_refl eq_refl eq_refl eq_refl).
  vm_compute in E. inversion E; subst. vm_compute in H. discriminate.
Qed.
Print Assumptions subst_accepts_value_refuted.

(* The part of the statement that does hold: for schemas without a choice point
   ([choice_free], proofs/SubstAccepts.v: every any has at most one alternative and no element
   list has the contains form [..., x, ...]; nested dicts with optional keys and ...: ...,
   typed lists, head/tail lists [a, ...] / [..., a], bounded scalars are all choice-free),
   a value that conforms to the original schema is accepted by the result.
   MISSING relative to the full statement: schemas with a choice point - an any with two or
   more alternatives (F20) or a [..., x, ...] list (F25) - where the statement is false
   ([subst_accepts_value_refuted], [f25_witness]).  Here conformance is [conforms] itself
   (= verdict for well-formed schemas, C02) and no no_nan hypothesis is needed. *)
Theorem subst_accepts_value_partial :
  forall s, wf s = true -> choice_free s = true ->
  forall v s', plain v = true -> vwf v = true -> substitute s v = Ok s' -> conforms s v -> conforms s' v.
Proof. exact subst_accepts_lemma. Qed.
Print Assumptions subst_accepts_value_partial.

Example f25_witness :
  match substitute f25_s f25_v with Ok s' => verdict f25_s f25_v && negb (verdict s' f25_v) | _ => false end = true.
Proof. vm_compute. reflexivity. Qed.

(* non-vacuity of subst_pins: a nested schema, a partial dict value, what the result accepts *)
Definition ex_s : schema :=
  SDict (Some [ (kA, Some (SList None (Some (SInt None (Some (IInt 0%Z)) None)) None None None), false);
                (kB, Some (SStr None None None None None None None), true);
                (KEll, None, false) ]).
Definition ex_v : value := VDict [(kA, VList [VInt 3%Z; VBool true])].
Example ex_hyps : wf ex_s = true /\ plain ex_v = true /\ vwf ex_v = true /\ is_ok (substitute ex_s ex_v) = true.
Proof. vm_compute. auto. Qed.
Example ex_accepts_carrier :
  match substitute ex_s ex_v with
  | Ok s' => verdict s' (VDict [(kA, VList [VInt 3%Z; VInt 1%Z]); (kC, VNone)])
  | _ => false end = true.
Proof. vm_compute. reflexivity. Qed.
Example ex_rejects_non_carrier :
  match substitute ex_s ex_v with
  | Ok s' => verdict s' (VDict [(kA, VList [VInt 3%Z; VInt 2%Z])])
  | _ => true end = false.
Proof. vm_compute. reflexivity. Qed.

(* non-vacuity of subst_accepts_value_partial: ex_s is choice-free, ex_v conforms to it, the
   substitution succeeds (ex_hyps) - and, as the theorem says, the result accepts ex_v *)
Example ex_choice_free :
  choice_free ex_s = true /\ verdict ex_s ex_v = true /\
  match substitute ex_s ex_v with Ok s' => verdict s' ex_v | _ => false end = true.
Proof. vm_compute. auto. Qed.
Example ex_partial_applies : exists s', substitute ex_s ex_v = Ok s' /\ conforms s' ex_v.
Proof.
  destruct (substitute ex_s ex_v) as [s'| |] eqn:E; [|vm_compute in E; discriminate ..].
  exists s'. split; [reflexivity|].
  apply (subst_accepts_value_partial ex_s); try (vm_compute; reflexivity); [exact E|].
  apply (verdict_iff_conforms_lemma ex_s); vm_compute; reflexivity.
Qed.

(* The generation clause, proved: "every value the result GENERATES carries the substituted data".  Under [hsat]
   (theories/HSat.v: a hypothesis on the original schema about what substitution leaves untouched) the result
   is satisfiable, so for every world and EVERY tape the generator returns a value - and that value carries v. *)
Theorem subst_generated_carries :
  forall w s v s', world_ok w -> wf s = true -> hsat w s -> plain v = true -> vwf v = true ->
    substitute s v = Ok s' ->
    forall t, exists g t', gen w s' t = Ok (g, t') /\ conforms s' g /\ pins v g.
Proof.
  intros w s v s' Hw Hwf Hh Hpl Hvw Hs t.
  destruct (subst_result_generates w s v s' Hw Hwf Hh Hpl Hvw Hs t) as (g & t' & Hg & Hc).
  exists g, t'. split; [exact Hg|]. split; [exact Hc|].
  exact (subst_pins_lemma s Hwf v s' Hpl Hvw Hs g Hc).
Qed.
Print Assumptions subst_generated_carries.
