(* C09 - Regex generation yields a full match or refuses loudly.
   Only statements here; proofs are in proofs/RegexGenSpec.v and proofs/RegexGenMatch.v.

   gen_re cfg hash_perm p tape  models RegexGenerator(Random(), alphabet=.., max_repeat=..)
   .generate(pattern) on the sre.parse tree p of the pattern, with the draws of the random
   module read from the tape (every outcome of every draw is some tape), and with the
   iteration order of the character set built in _generate_not_in as the parameter
   hash_perm (CPython: depends on PYTHONHASHSEED).  The theorems hold for EVERY tree p
   (supported or not), every tape and every order. *)
From Coq Require Import Permutation.
Require Import D42.Prelude D42.Regex D42.PyRandom D42.RegexGen.
Require Import D42Gen.GenConsts.
Require Import D42P.RegexGenSpec D42P.RegexGenMatch.

(* Whatever the generator returns matches the whole pattern.  Hypotheses:
   - alphabets_ok cfg (decidable; true of the running code's alphabets, next theorem);
   - anchors_ok p: ^ \A only as the first, $ \Z only as the last element of the top-level
     sequence, no other position assertion anywhere (\b, inner anchors are outside C09).
   No hypothesis about supportedness: if generation needs an unsupported node it does not
   return Ok, and matches has no rule for such nodes. *)
Theorem regen_fullmatch :
  forall (cfg : gcfg) (hash_perm : pystr -> pystr),
  (forall l : pystr, Permutation (hash_perm l) l) ->
  alphabets_ok cfg = true ->
  forall p : list re, anchors_ok p = true ->
  forall (t : tape) (s : pystr) (t' : tape),
  gen_re cfg hash_perm p t = Ok (s, t') -> matches_top p s.
Proof. exact regen_fullmatch_lemma. Qed.
Print Assumptions regen_fullmatch.

(* the alphabets of the running code (D42Gen.GenConsts, regenerated on every run) satisfy
   the hypothesis, for every max_repeat; and they are ASCII, so that the ASCII reading of
   \d \w in the model and Python's Unicode reading agree on every generated character *)
Theorem default_alphabets_ok : forall k : Z, alphabets_ok (default_cfg k) = true.
Proof. exact RegexGenSpec.default_alphabets_ok. Qed.
Print Assumptions default_alphabets_ok.

Theorem default_alphabets_ascii : forall k : Z, alphabets_ascii (default_cfg k) = true.
Proof. exact RegexGenSpec.default_alphabets_ascii. Qed.
Print Assumptions default_alphabets_ascii.

Theorem regen_fullmatch_default :
  forall (hash_perm : pystr -> pystr) (k : Z) (p : list re),
  (forall l : pystr, Permutation (hash_perm l) l) ->
  anchors_ok p = true ->
  forall (t : tape) (s : pystr) (t' : tape),
  gen_re (default_cfg k) hash_perm p t = Ok (s, t') -> matches_top p s.
Proof. exact regen_fullmatch_default_lemma. Qed.
Print Assumptions regen_fullmatch_default.

(* Loud refusal: an unsupported node that every run has to execute (top-level sequence,
   group bodies, repeat bodies with min >= 1, every alternative of a branch; a negated
   class with an unsupported category; a class all of whose items are unsupported
   categories: \s \S \D \W) makes generation raise, for every tape, order and alphabet. *)
Theorem regen_unsupported_raises :
  forall (cfg : gcfg) (hash_perm : pystr -> pystr) (p : list re),
  existsb must_refuse p = true ->
  forall t : tape, is_raise (gen_re cfg hash_perm p t) = true.
Proof. exact regen_unsupported_raises_lemma. Qed.
Print Assumptions regen_unsupported_raises.

(* The declarative semantics is the executable matcher the validator model uses
   (Brzozowski derivatives, D42.Regex), on every pattern that matcher is defined on. *)
Theorem matches_top_iff_fullmatchb :
  forall (p : list re) (s : pystr),
  re_modelled p = true -> (matches_top p s <-> fullmatchb p s = Some true).
Proof. exact matches_top_iff_fullmatchb_lemma. Qed.
Print Assumptions matches_top_iff_fullmatchb.

Theorem fullmatch_search :
  forall (p : list re) (s : pystr), fullmatchb p s = Some true -> searchb p s = Some true.
Proof. exact fullmatch_search_lemma. Qed.
Print Assumptions fullmatch_search.

(* schema.str.regex(p) generates strings its own validation (re.search) accepts *)
Theorem regen_validates :
  forall (hash_perm : pystr -> pystr) (cfg : gcfg) (p : list re) (t : tape) (s : pystr) (t' : tape),
  (forall l : pystr, Permutation (hash_perm l) l) ->
  alphabets_ok cfg = true ->
  re_modelled p = true ->
  gen_re cfg hash_perm p t = Ok (s, t') ->
  fullmatchb p s = Some true /\ searchb p s = Some true.
Proof. exact regen_validates_lemma. Qed.
Print Assumptions regen_validates.

(* the order used by the per-run correspondence is one of the orders covered *)
Theorem sort_cp_perm : forall l : pystr, Permutation (sort_cp l) l.
Proof. exact RegexGenSpec.sort_cp_perm. Qed.
Print Assumptions sort_cp_perm.

(* ---- non-vacuity ---- *)
Open Scope N_scope.
(* ^([a-c\d][^a-c\d])(?:x.{2,}||[^a])\w{0,3}?$ *)
Definition ex_p : list re :=
  [RAt AtBeg;
   RGroup [RIn false [CRange 97 99; CCat CDigit]; RIn true [CRange 97 99; CCat CDigit]];
   RBranch [[RLit 120; RRepeat false 2 None [RAny]]; []; [RNotLit 97]];
   RRepeat true 0 (Some 3) [RIn false [CCat CWord]];
   RAt AtEnd].
Definition id_perm (l : pystr) : pystr := l.
Lemma id_perm_perm : forall l, Permutation (id_perm l) l.
Proof. intros l. apply Permutation_refl. Qed.

Example ex_anchors_ok : anchors_ok ex_p = true.
Proof. vm_compute. reflexivity. Qed.
Example ex_modelled : re_modelled ex_p = true.
Proof. vm_compute. reflexivity. Qed.
(* all draws minimal: "ad" then the first alternative with 3 repeats of the first letter *)
Example ex_gen_min :
  gen_re (default_cfg 3) id_perm ex_p [] = Ok ([97; 100; 120; 97; 97], []).
Proof. vm_compute. reflexivity. Qed.
Example ex_gen_other :
  gen_re (default_cfg 3) id_perm ex_p [1; 5; 7; 0; 2; 94; 3; 3; 62; 1; 2]
  = Ok ([53; 107; 120; 32; 100; 98; 97; 97], []).
Proof. vm_compute. reflexivity. Qed.
Example ex_gen_sorted :
  gen_re (default_cfg 3) sort_cp ex_p [1; 5; 7; 0; 2; 94; 3; 3; 62; 1; 2]
  = Ok ([53; 39; 120; 32; 100; 98; 97; 97], []).
Proof. vm_compute. reflexivity. Qed.
Example ex_matches : matches_top ex_p [53; 107; 120; 32; 100; 98; 97; 97].
Proof.
  exact (regen_fullmatch_default id_perm 3 ex_p id_perm_perm ex_anchors_ok _ _ _ ex_gen_other).
Qed.
Example ex_fullmatchb : fullmatchb ex_p [53; 107; 120; 32; 100; 98; 97; 97] = Some true.
Proof. vm_compute. reflexivity. Qed.
(* the semantics is not trivially true: a forbidden character in the negated class *)
Example ex_fullmatchb_neg : fullmatchb ex_p [53; 98; 120; 32; 100; 98; 97; 97] = Some false.
Proof. vm_compute. reflexivity. Qed.
Example ex_not_matches : ~ matches_top ex_p [53; 98; 120; 32; 100; 98; 97; 97].
Proof.
  intros H. apply (matches_top_iff_fullmatchb _ _ ex_modelled) in H.
  rewrite ex_fullmatchb_neg in H. discriminate.
Qed.

(* refusal: a+(?:b|(?=c))\s  -- the lookahead sits in one alternative only, \s is mandatory *)
Definition ex_unsup : list re :=
  [RRepeat false 1 None [RLit 97]; RBranch [[RLit 98]; [RUnsupported 4]]; RIn false [CCat (COtherCat 15)]].
Example ex_unsup_mandatory : existsb must_refuse ex_unsup = true.
Proof. vm_compute. reflexivity. Qed.
Example ex_unsup_raises : gen_re (default_cfg 32) id_perm ex_unsup [5; 0] = Raise ValueError.
Proof. vm_compute. reflexivity. Qed.
(* an unsupported node that is not on every path: the run that avoids it returns a match *)
Example ex_unsup_avoidable :
  gen_re (default_cfg 32) id_perm [RBranch [[RLit 98]; [RUnsupported 4]]] [0] = Ok ([98], [])
  /\ gen_re (default_cfg 32) id_perm [RBranch [[RLit 98]; [RUnsupported 4]]] [1] = Raise ValueError.
Proof. vm_compute. split; reflexivity. Qed.
(* empty candidate set: [^ -~] raises IndexError (random.choice of an empty string) *)
Example ex_empty_candidates :
  gen_re (default_cfg 32) id_perm [RIn true [CRange 32 126]] [7] = Raise IndexError.
Proof. vm_compute. reflexivity. Qed.
