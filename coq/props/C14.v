(* C14 - from_native(value) denotes exactly that value.
   Only statements here; proofs are in proofs/FromNativeSpec.v (and GenerateSpec.v for the
   generation clause). *)
From Coq Require Import PrimFloat.
Require Import D42.Prelude D42.PyFloat D42.Value D42.Regex D42.Schema D42.Validate D42.Conforms
               D42.FromNative D42.Agree.
Require Import D42.PyRandom D42.RegexGen D42.Generate.
Require Import D42P.ValidateSpec D42P.FromNativeSpec D42P.GenFromNative.

(* Which values are converted: exactly the plain ones (None, bool, int, float, str, bytes,
   version-4 UUID, datetime, date, lists and dicts of those, no `...` key); every other
   value - at any depth - is refused with ValueError, never with another exception. *)
Theorem fn_converts_exactly_plain :
  forall v, (exists s, from_native v = Ok s) <-> plain v = true.
Proof. exact fn_ok_iff_plain. Qed.
Print Assumptions fn_converts_exactly_plain.

Theorem fn_refuses_nonplain :
  forall v, plain v = false -> from_native v = Raise ValueError.
Proof. exact fn_refuses_nonplain_lemma. Qed.
Print Assumptions fn_refuses_nonplain.

(* The schema accepts the value it was built from ([vwf]: dict keys pairwise distinct, which
   every Python dict satisfies).  NaN included since the repair of F10. *)
Theorem fn_accepts :
  forall v s, vwf v = true -> from_native v = Ok s ->
              wf s = true /\ conforms s v.
Proof. intros v s. apply fn_accepts_lemma. Qed.
Print Assumptions fn_accepts.

Theorem fn_accepts_verdict :
  forall v s, vwf v = true -> from_native v = Ok s -> verdict s v = true.
Proof.
  intros v s Hw Hs. destruct (fn_accepts_lemma v s Hw Hs) as [Hwf Hc].
  apply (verdict_iff_conforms_lemma s Hwf). exact Hc.
Qed.
Print Assumptions fn_accepts_verdict.

(* ... and rejects every value that is not the same plain value ([veq]: equal up to
   True/False ~ 1/0 in int positions and math.isclose on floats, NaN matching NaN; same length, same key
   set, member-wise). No hypothesis on w: tuples, sets, objects, `...` are all rejected. *)
Theorem fn_rejects_different :
  forall v s w, from_native v = Ok s -> conforms s w -> veq v w.
Proof. exact fn_rejects_lemma. Qed.
Print Assumptions fn_rejects_different.

Theorem fn_rejects_different_verdict :
  forall v s w, vwf v = true -> from_native v = Ok s -> verdict s w = true -> veq v w.
Proof.
  intros v s w Hw Hs Hv. apply (fn_rejects_lemma v s w Hs).
  apply (verdict_iff_conforms_lemma s (fn_wf_lemma v s Hw Hs)). exact Hv.
Qed.
Print Assumptions fn_rejects_different_verdict.

(* ... and generates exactly that value, for every world and every tape, consuming no
   random draw (the rest of the tape is the tape). *)
Theorem fn_generates_exactly :
  forall w v s, from_native v = Ok s -> forall t, gen w s t = Ok (v, t).
Proof. intros w v s H t. exact (gen_from_native_lemma w v s H t). Qed.
Print Assumptions fn_generates_exactly.

(* NaN is no longer an exception (F10 repaired): *)
Example fn_accepts_nan :
  match from_native (VList [VFloat PrimFloat.nan]) with
  | Ok s => verdict s (VList [VFloat PrimFloat.nan]) && negb (verdict s (VList [VFloat PrimFloat.one]))
  | _ => false end = true.
Proof. vm_compute. reflexivity. Qed.

(* non-vacuity: a nested plain value, its schema, a copy that is accepted and one-step
   perturbations that are rejected *)
Open Scope N_scope.
Definition ex_value : value :=
  VDict [ (KStr [97], VList [VInt 1%Z; VBool true; VNone]);
          (KInt 7%Z, VDict [(KNone, VStr [120; 121])]) ].
Example ex_plain : plain ex_value = true /\ vwf ex_value = true.
Proof. vm_compute. auto. Qed.
Example ex_accepts_self :
  match from_native ex_value with Ok s => verdict s ex_value | _ => false end = true.
Proof. vm_compute. reflexivity. Qed.
Example ex_rejects_bool_for_bool :      (* 1 is not True in a bool position *)
  match from_native ex_value with
  | Ok s => verdict s (VDict [ (KStr [97], VList [VInt 1%Z; VInt 1%Z; VNone]);
                               (KInt 7%Z, VDict [(KNone, VStr [120; 121])]) ])
  | _ => true end = false.
Proof. vm_compute. reflexivity. Qed.
Example ex_rejects_extra_key :
  match from_native ex_value with
  | Ok s => verdict s (VDict [ (KStr [97], VList [VInt 1%Z; VBool true; VNone]);
                               (KInt 7%Z, VDict [(KNone, VStr [120; 121]); (KStr [], VNone)]) ])
  | _ => true end = false.
Proof. vm_compute. reflexivity. Qed.
