(* C02 - Validation verdict equals the declared constraints, no more, no less.
   Only statements here; proofs are in proofs/ValidateSpec.v. *)
Require Import D42.Prelude D42.Value D42.Regex D42.Schema D42.Validate D42.Conforms.
Require Import D42P.ValidateSpec.

(* For every well-formed schema (what declaration, +, |, make_required and plain
   substitution produce), every path and EVERY value: the validator reports no error
   exactly when the value conforms to the declarative meaning of the schema
   (D42.Conforms.conforms: types, fixed value, min/max, len/alphabet/contains/regex, the
   four element-list forms by existence of a split, typed lists, dict keys
   required/optional/relaxed, any = some alternative, alias/custom = target). *)
Theorem validate_iff_conforms :
  forall s, wf s = true -> forall p v, validate Plain s p v = [] <-> conforms s v.
Proof. exact validate_iff_conforms_lemma. Qed.
Print Assumptions validate_iff_conforms.

Theorem verdict_iff_conforms :
  forall s, wf s = true -> forall v, verdict s v = true <-> conforms s v.
Proof. exact verdict_iff_conforms_lemma. Qed.
Print Assumptions verdict_iff_conforms.

(* non-vacuity: a nested, well-formed schema with a conforming and a non-conforming value *)
Open Scope N_scope.
Definition ex_schema : schema :=
  SDict (Some [ (KStr [97], Some (SList (Some [None; Some (SInt None (Some (IInt 1%Z)) None); None])
                                        None None None None), false);
                (KStr [98], Some (SAny (Some [SNone; SStr None None None None (Some [120;121]) None None])), true);
                (KEll, None, false) ]).
Example ex_wf : wf ex_schema = true.
Proof. vm_compute. reflexivity. Qed.
Example ex_accepts :
  verdict ex_schema (VDict [(KStr [97], VList [VNone; VInt 5%Z]); (KInt 7%Z, VNone)]) = true.
Proof. vm_compute. reflexivity. Qed.
Example ex_rejects :
  verdict ex_schema (VDict [(KStr [97], VList [VNone; VInt 0%Z]); (KStr [98], VStr [122])]) = false.
Proof. vm_compute. reflexivity. Qed.
