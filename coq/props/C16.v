(* C16 - Custom schema types behave like built-ins in every position.
   Only statements here; proofs are in proofs/CustomSpec.v.

   Model: a user-defined CustomSchema forwarding __validate__/__generate__/__represent__/
   __substitute__ to a built-in is [SCustom inner] (theories/Schema.v); [erase]
   (theories/Custom.v) removes every wrapper at every depth.  All theorems quantify over ALL
   schema trees (every choice of wrapped positions, nested arbitrarily, well-formed or not
   unless stated) and ALL values.

   That the real visitors forward path / indent / kwargs in every position is tied to the
   model per run by harness/props/c16.py (wrapped vs unwrapped on the real code, and the
   wrapped tree vs [validate]/[substitute] on the SCustom term). *)
Require Import D42.Prelude D42.Value D42.Regex D42.Schema D42.Validate D42.Conforms
               D42.FromNative D42.Substitute D42.Custom.
Require Import D42.PyRandom D42.RegexGen D42.Generate.
Require Import D42.Declare D42.Represent.
Require Import D42P.CustomSpec D42P.CustomGen D42P.CustomRepr.

(* Validation, both validators, every path: the same errors in the same order - same kind
   and parameters, same path, same actual value; the alternatives carried by a "none of the
   alternatives matched" error are the erased alternatives ([erase_err]). *)
Theorem erase_validate :
  forall m s p v, validate m (erase s) p v = map erase_err (validate m s p v).
Proof. exact erase_validate_lemma. Qed.
Print Assumptions erase_validate.

(* the same without erase_err: paths, actual values, number of errors *)
Theorem erase_validate_paths :
  forall m s p v,
    map epath (validate m (erase s) p v) = map epath (validate m s p v) /\
    map eactual (validate m (erase s) p v) = map eactual (validate m s p v) /\
    length (validate m (erase s) p v) = length (validate m s p v).
Proof. exact erase_validate_paths. Qed.
Print Assumptions erase_validate_paths.

Theorem erase_verdict : forall m s v, verdict_m m (erase s) v = verdict_m m s v.
Proof. exact erase_verdict. Qed.
Print Assumptions erase_verdict.

(* the faithful partial validator (every Python operation that can raise is partial): same
   outcome for ALL trees, well-formed or not - the same exception where it raises *)
Theorem erase_validateR :
  forall m s p v, validateR m (erase s) p v = rmap (map erase_err) (validateR m s p v).
Proof. exact erase_validateR_lemma. Qed.
Print Assumptions erase_validateR.

(* conformance (the declarative meaning), all trees *)
Theorem erase_conforms : forall s v, conforms (erase s) v <-> conforms s v.
Proof. exact erase_conforms_lemma. Qed.
Print Assumptions erase_conforms.

(* substitution: succeeds or fails identically (same SubstitutionError / same exception),
   and on success the result of the wrapped tree is the result of the unwrapped tree with
   the wrappers still around the substituted members *)
Theorem erase_subst : forall s v, rmap erase (substitute s v) = substitute (erase s) v.
Proof. intros s v. symmetry. apply erase_subst_lemma. Qed.
Print Assumptions erase_subst.

Theorem erase_wf : forall s, wf (erase s) = wf s.
Proof. exact erase_wf_lemma. Qed.
Print Assumptions erase_wf.

Theorem erase_removes_all : forall s, customs (erase s) = 0%nat.
Proof. exact erase_customs. Qed.
Print Assumptions erase_removes_all.

Theorem erase_idempotent : forall s, erase (erase s) = erase s.
Proof. exact erase_idem. Qed.
Print Assumptions erase_idempotent.

(* The printed form: [represent] builds the same expression tree for the wrapped tree as for
   the erased one - wrappers under elements, typed lists, dict members, alternatives, at any
   depth (theories/Represent.v: the SCustom case hands the visitor to the wrapped schema, as
   the forwarding __represent__ does; proofs/CustomRepr.v). *)
Theorem erase_represent : forall s, represent (erase s) = represent s.
Proof. exact erase_represent_lemma. Qed.
Print Assumptions erase_represent.

Example erase_represent_example :
  let s := SList (Some [Some (SCustom (SDict (Some [(KStr [97%N], Some (SCustom (SCustom SNone)), true)]))); None])
                 None None None None in
  customs s = 3%nat /\ represent s = represent (erase s) /\ represent s <> EOpaque.
Proof. vm_compute. repeat split. discriminate. Qed.

(* ---------------------------------------------------------------- non-vacuity ---- *)
Open Scope N_scope.
(* wrappers at the root, around a dict value, around a list element (twice), around an any
   alternative and around an alias target *)
Definition ex_wrapped : schema :=
  SCustom (SDict (Some
    [ (KStr [97], Some (SCustom (SList (Some [Some (SCustom (SCustom (SInt None (Some (IInt 1%Z)) None))); None])
                                       None None None None)), false);
      (KStr [98], Some (SAny (Some [SNone; SCustom (SStr None None None None None None None)])), true);
      (KStr [99], Some (SAlias (Some [65]) (SCustom (SBool None))), true) ])).
Example ex_customs : customs ex_wrapped = 6%nat /\ customs (erase ex_wrapped) = 0%nat /\ wf ex_wrapped = true.
Proof. vm_compute. auto. Qed.
Example ex_errors :
  validate Plain ex_wrapped [] (VDict [(KStr [97], VList [VInt 0%Z]); (KStr [98], VInt 3%Z)]) =
  [ VE (EMin (VInt 1%Z)) [KStr [97]; KInt 0%Z] (VInt 0%Z);
    VE (EMismatch [SNone; SCustom (SStr None None None None None None None)]) [KStr [98]] (VInt 3%Z) ] /\
  validate Plain (erase ex_wrapped) [] (VDict [(KStr [97], VList [VInt 0%Z]); (KStr [98], VInt 3%Z)]) =
  [ VE (EMin (VInt 1%Z)) [KStr [97]; KInt 0%Z] (VInt 0%Z);
    VE (EMismatch [SNone; SStr None None None None None None None]) [KStr [98]] (VInt 3%Z) ].
Proof. vm_compute. auto. Qed.
Example ex_subst :
  substitute ex_wrapped (VDict [(KStr [97], VList [VInt 5%Z; VNone])]) =
  Ok (SCustom (SDict (Some
    [ (KStr [97], Some (SCustom (SList (Some [Some (SCustom (SCustom (SInt (Some (IInt 5%Z)) (Some (IInt 1%Z)) None)));
                                              Some SNone]) None None None None)), false);
      (KStr [98], Some (SAny (Some [SNone; SCustom (SStr None None None None None None None)])), true);
      (KStr [99], Some (SAlias (Some [65]) (SCustom (SBool None))), true) ]))) /\
  substitute ex_wrapped (VDict [(KStr [97], VList [VInt 0%Z])]) = Err SubstErr.
Proof. vm_compute. auto. Qed.

(* Generation: for every world and every tape the wrapped tree generates the same value and
   leaves the same tape as the tree without wrappers (so "generation yields conforming values"
   transfers from the built-in tree, C01). *)
Theorem erase_gen : forall w s t, gen w (erase s) t = gen w s t.
Proof. intros w s t. exact (erase_gen_lemma w s t). Qed.
Print Assumptions erase_gen.
