(* C01 - Generated data always validates against its own schema.
   Only statements here; proofs are in proofs/GenerateSpec.v (and RandomSpec, GenerateScalar). *)
From Coq Require Import PrimFloat Permutation.
Require Import D42.Prelude D42.PyFloat D42.Value D42.Regex D42.Schema D42.Validate D42.Conforms
               D42.PyRandom D42.RegexGen D42.ReSupported D42.Generate D42.Sat D42.SatB.
Require Import D42Gen.GenConsts.
Require Import D42P.ValidateSpec D42P.RandomSpec D42P.GenerateSpec D42P.SatBSpec.

(* For every well-formed schema that is hereditarily satisfiable within the generator's
   reach ([sat], theories/Sat.v), every world (uuid4 / clock / set-iteration order) and EVERY
   tape - i.e. every outcome of every random draw, the extreme ones included - the generator
   returns a value, and the validator accepts that value with zero errors.
   No bound on nesting, list lengths, integer sizes or number of draws. *)
Theorem gen_sound :
  forall w s, world_ok w -> wf s = true -> sat w s ->
  forall t, exists v t', gen w s t = Ok (v, t') /\ conforms s v.
Proof.
  intros w s Hw Hwf Hs t. destruct (gen_sound_lemma w Hw s Hwf Hs t) as (v & t' & E & Hc). eauto.
Qed.
Print Assumptions gen_sound.

Theorem gen_validates :
  forall w s, world_ok w -> wf s = true -> sat w s ->
  forall t, exists v t', gen w s t = Ok (v, t') /\ validate Plain s [] v = [].
Proof.
  intros w s Hw Hwf Hs t. destruct (gen_sound_lemma w Hw s Hwf Hs t) as (v & t' & E & Hc).
  exists v, t'. split; auto. apply (validate_iff_conforms_lemma s Hwf [] v). exact Hc.
Qed.
Print Assumptions gen_validates.

(* The property as stated quantifies over every schema that admits SOME conforming value.
   That statement is false of the faithful model (and of the code: known findings): *)
Definition gen_sound_full : Prop :=
  forall w s, world_ok w -> wf s = true -> (exists v0, conforms s v0) ->
  forall t, exists v t', gen w s t = Ok (v, t') /\ conforms s v.

Definition w0 : world := mk_world 0x886313e13b8a43729b900c9aee199e5d 0 738000 (fun l => l).
Lemma w0_ok : world_ok w0.
Proof. split; [vm_compute; reflexivity | intros l; apply Permutation_refl]. Qed.

Open Scope N_scope.
(* F24: any(int, int.min(1).max(0)) admits 5, but the draw that picks the second alternative raises *)
Definition f24_s : schema :=
  SAny (Some [SInt None None None; SInt None (Some (IInt 1%Z)) (Some (IInt 0%Z))]).
Theorem gen_sound_full_refuted : ~ gen_sound_full.
Proof.
  intros H. specialize (H w0 f24_s w0_ok eq_refl).
  assert (Hex : exists v0, conforms f24_s v0).
  { exists (VInt 5%Z). cbn. left. exists 5%Z. cbn. auto. }
  destruct (H Hex [1]) as (v & t' & E & _). vm_compute in E. discriminate.
Qed.
Print Assumptions gen_sound_full_refuted.

(* F07 and F06 were repaired in the code (fix: commits); the former witnesses now satisfy [sat]
   and generate conforming values - e.g. under the all-minimal tape: *)
Definition f07_s : schema := SStr None None None None (Some []) None None.       (* str.alphabet('') *)
Definition f06_s : schema :=                                 (* float.min(0.15).max(0.35).precision(1) *)
  SFloat None (Some (mkf false 5404319552844595 (-55))) (Some (mkf false 3152519739159347 (-53)))
         (Some (IInt 1%Z)).
Example f07_repaired :
  sat w0 f07_s /\ match gen w0 f07_s [5] with Ok (v, _) => verdict f07_s v | _ => false end = true.
Proof.
  split; [|vm_compute; reflexivity]. cbn. unfold len_ok, STR_LEN_MIN, STR_LEN_MAX. cbn. repeat split; auto; lia.
Qed.
Example f06_repaired :
  sat w0 f06_s /\ match gen w0 f06_s [0] with Ok (v, _) => verdict f06_s v | _ => false end = true.
Proof. split; [cbn; split; [reflexivity | vm_compute; reflexivity] | vm_compute; reflexivity]. Qed.

(* a pattern schema: [a-c][^a]{1,3}\d* - [sat] is decidable here (re_total by computation) *)
Definition ex_pat : schema :=
  SStr None None None None None None
       (Some ([], [RIn false [CRange 97 99]; RRepeat false 1 (Some 3) [RIn true [CLit 97]];
                   RRepeat false 0 None [RIn false [CCat CDigit]]])).
Example ex_pat_sat : wf ex_pat = true /\ sat w0 ex_pat.
Proof. split; [vm_compute; reflexivity|]. cbn. repeat split; auto. Qed.
Example ex_pat_gen :
  match gen w0 ex_pat [2; 1; 5; 60; 3; 7; 4] with Ok (v, _) => verdict ex_pat v | _ => false end = true.
Proof. vm_compute. reflexivity. Qed.

(* F29 (open): the scaled bound overflows - excluded from [sat] by [prec_ok] *)
Definition f29_s : schema :=                              (* float.min(1.0).max(1e308).precision(2) *)
  SFloat None (Some PrimFloat.one) (Some (mkf false 5010420900022432 971)) (Some (IInt 2%Z)).
Example f29_witness :
  gen w0 f29_s [0] = Raise OverflowError /\ verdict f29_s (VFloat PrimFloat.one) = true
  /\ prec_ok PrimFloat.one (mkf false 5010420900022432 971) 2 = false.
Proof. vm_compute. auto. Qed.

(* non-vacuity: a nested schema meeting the hypotheses, generated under two tapes *)
Definition ex_s : schema :=
  SDict (Some [ (KStr [97], Some (SList (Some [None; Some (SInt None (Some (IInt 2%Z)) None)]) None
                                        (Some (IInt 3%Z)) None None), false);
                (KStr [98], Some (SStr None None (Some (IInt 1%Z)) (Some (IInt 4%Z)) (Some [120; 121]) (Some [121]) None), false);
                (KStr [99], Some (SInt None (Some (IInt 1%Z)) (Some (IInt 0%Z))), true);
                (KEll, None, false) ]).
Example ex_wf : wf ex_s = true.
Proof. vm_compute. reflexivity. Qed.
Example ex_sat : sat w0 ex_s.
Proof. cbn. unfold len_ok, padded_len. cbn. repeat split; auto; try lia; try discriminate. Qed.
Example ex_gen_min :
  match gen w0 ex_s [] with Ok (v, _) => verdict ex_s v | _ => false end = true.
Proof. vm_compute. reflexivity. Qed.
Example ex_gen_other :
  match gen w0 ex_s [7; 3; 2; 5; 1; 9] with Ok (v, _) => verdict ex_s v | _ => false end = true.
Proof. vm_compute. reflexivity. Qed.

(* [sat] is decidable: [satb] (theories/SatB.v) is a boolean that mirrors it clause by clause,
   so the hypothesis of [gen_sound] / [gen_validates] can be discharged by computation
   (proof: proofs/SatBSpec.v, which also has the converse [satb_complete_lemma]). *)
Theorem satb_sound : forall w s, wf s = true -> satb w s = true -> sat w s.
Proof. exact satb_sound_lemma. Qed.
Print Assumptions satb_sound.

Corollary gen_validates_decidable :
  forall w s, world_ok w -> wf s = true -> satb w s = true ->
  forall t, exists v t', gen w s t = Ok (v, t') /\ validate Plain s [] v = [].
Proof.
  intros w s Hw Hwf Hb. apply (gen_validates w s Hw Hwf). apply (satb_sound w s Hwf Hb).
Qed.
Print Assumptions gen_validates_decidable.

Example ex_s_satb : satb w0 ex_s = true.
Proof. vm_compute. reflexivity. Qed.
Example ex_pat_satb : satb w0 ex_pat = true.
Proof. vm_compute. reflexivity. Qed.
Example f06_satb : satb w0 f06_s = true.
Proof. vm_compute. reflexivity. Qed.
Example f07_satb : satb w0 f07_s = true.
Proof. vm_compute. reflexivity. Qed.
(* unsatisfiable bounds, alone and as an alternative of an any (F24), and the overflowing
   scaled bound (F29) are rejected *)
Example empty_int_satb : satb w0 (SInt None (Some (IInt 1%Z)) (Some (IInt 0%Z))) = false.
Proof. vm_compute. reflexivity. Qed.
Example f24_satb : satb w0 f24_s = false.
Proof. vm_compute. reflexivity. Qed.
Example f29_satb : satb w0 f29_s = false.
Proof. vm_compute. reflexivity. Qed.
(* the decidable hypothesis in use: ex_s generates and validates under every tape *)
Example ex_s_validates :
  forall t, exists v t', gen w0 ex_s t = Ok (v, t') /\ validate Plain ex_s [] v = [].
Proof. exact (gen_validates_decidable w0 ex_s w0_ok ex_wf ex_s_satb). Qed.
