(* C19 - v1-to-v2 migration rewrites imports and nothing else.
   Only statements here; proofs are in proofs/MigrateSpec.v and proofs/MigrateSplice.v, the model in theories/Migrate.v,
   the tables in generated/GenMapping.v and generated/GenExports.v (rewritten on every run
   from the running d42 by harness/gen_tables_migrate.py). *)
Require Import D42.Prelude D42.Migrate.
Require Import D42Gen.GenMapping D42Gen.GenExports.
Require Import D42P.MigrateSpec D42P.MigrateSplice.
From Coq Require Import Permutation.
Open Scope nat_scope.

(* ---- 1. every target of the mapping is importable from this package ------------------
   Finite domain: the bound is the regenerated table itself (gen_mapping = the dict
   d42.migration.migrate_v1_to_v2.mapping of this run; gen_exports = what importing each
   target module of this run and asking hasattr gave). *)
Theorem mapping_table_generated : gen_mapping_error = None.
Proof. exact gen_mapping_error_none. Qed.
Print Assumptions mapping_table_generated.

Theorem mapping_targets_exported :
  forall m n m' n', In (m, n, (m', n')) (flat_mapping gen_mapping) ->
    in_package gen_package m' = true /\
    exists names, In (m', (true, names)) gen_exports /\ In n' names.
Proof. exact mapping_targets_exported_lemma. Qed.
Print Assumptions mapping_targets_exported.

(* the same through the lookup rewrite_imports performs *)
Theorem mapped_name_importable :
  forall m n m' n', lookup2 gen_mapping (Some m) n = Some (m', n') ->
    in_package gen_package m' = true /\
    exists names, In (m', (true, names)) gen_exports /\ In n' names.
Proof. exact mapped_name_importable_lemma. Qed.
Print Assumptions mapped_name_importable.

(* the v2 name is the v1 name, so an import without `as` binds the same local name *)
Theorem mapping_keeps_names :
  forall m n m' n', In (m, n, (m', n')) (flat_mapping gen_mapping) -> n' = n.
Proof. exact mapping_keeps_names_lemma. Qed.
Print Assumptions mapping_keeps_names.

(* `from m import *` is never touched; no target module is itself a key of the table (so a
   second run finds nothing to map) *)
Theorem star_never_mapped : forall m, lookup2 gen_mapping m [42%N] = None.
Proof. exact star_unmapped_lemma. Qed.
Print Assumptions star_never_mapped.

Theorem targets_are_not_sources :
  forall m n m' n', In (m, n, (m', n')) (flat_mapping gen_mapping) ->
    n <> [42%N] /\ assoc m' gen_mapping = None.
Proof. exact entries_sane. Qed.
Print Assumptions targets_are_not_sources.

(* ---- 2. what one absolute from-import is replaced by ----------------------------------
   For ANY table whose entries keep the name (in particular the regenerated one), any module
   and any list of (name, asname): the replacement statements are absolute from-imports and
   bind exactly the same local names (as a multiset), each mapped name from its mapped
   (module, name), each unmapped name (including "*") from the original module, asname kept. *)
Theorem rewrite_import_binds_same :
  forall (mp : mapping_t) (m : option pystr) (ns : list alias),
    (forall n nm nn, lookup2 mp m n = Some (nm, nn) -> nn = n) ->
    Permutation (bindings (rewrite_import mp m ns)) (map (expected_binding mp m) ns) /\
    Forall (fun s => rewritten s = true) (rewrite_import mp m ns).
Proof. exact rewrite_import_binds_same_full. Qed.
Print Assumptions rewrite_import_binds_same.

Theorem rewrite_import_binds_same_table :
  forall (m : option pystr) (ns : list alias),
    Permutation (bindings (rewrite_import gen_mapping m ns))
                (map (expected_binding gen_mapping m) ns).
Proof. exact rewrite_import_binds_same_gen. Qed.
Print Assumptions rewrite_import_binds_same_table.

(* order: for every module M, the names the replacement statements import from M are, in the
   original order, exactly the imported names whose target module is M (a mapped name under its
   new name, asname kept) - provided no mapped name of m has m itself as target, which holds for
   the regenerated table *)
Theorem rewrite_import_order_per_target :
  forall (mp : mapping_t) (m : option pystr) (ns : list alias) (M : option pystr),
    (forall n nm nn, lookup2 mp m n = Some (nm, nn) -> Some nm <> m) ->
    names_from M (rewrite_import mp m ns) = flat_map (contrib mp m M) ns.
Proof. exact rewrite_import_order_lemma. Qed.
Print Assumptions rewrite_import_order_per_target.

Theorem rewrite_import_order_per_target_table :
  forall (m : option pystr) (ns : list alias) (M : option pystr),
    names_from M (rewrite_import gen_mapping m ns) = flat_map (contrib gen_mapping m M) ns.
Proof. exact rewrite_import_order_gen. Qed.
Print Assumptions rewrite_import_order_per_target_table.

(* a second run finds nothing left to map: the expected statements are a fixed point *)
Theorem rewrite_twice_stable :
  forall s, flat_map (rewrite_stmt gen_mapping) (rewrite_stmt gen_mapping s) = rewrite_stmt gen_mapping s.
Proof. exact rewrite_stmt_twice_gen. Qed.
Print Assumptions rewrite_twice_stable.

(* relative imports and every other statement are expected (and, by rewrite_splice_correct,
   found) unchanged *)
Theorem rewrite_stmt_relative_untouched :
  forall mp l m ns, rewrite_stmt mp (ImportFrom (S l) m ns) = [ImportFrom (S l) m ns].
Proof. reflexivity. Qed.
Theorem rewrite_stmt_other_untouched : forall mp i, rewrite_stmt mp (Other i) = [Other i].
Proof. reflexivity. Qed.

(* ---- 3. the line splice (after the repair of F21: the import's own span is spliced) -----
   For every list of physical lines whose ast view is [body] (positions reported by ast =
   positions in the list the implementation splits) - NO condition on how lines are shared:
   the spliced lines read back as the original statements, in order, each absolute from-import
   replaced by its replacement statements and everything else as is.  [ast_view ls = Some body]
   only says the input is a sequence of whole statements (each from-import naming >= 1 name)
   laid out on the lines, which ast.parse guarantees. *)
Theorem rewrite_splice_correct :
  forall (mp : mapping_t) (ls : list (list frag)) (body : list (stmt * (nat * nat) * (nat * nat))),
    ast_view ls = Some body ->
    stmts_of (apply_replacements (replacements mp body) ls)
    = Some (flat_map (rewrite_stmt mp) (map it_stmt body)).
Proof. exact rewrite_splice_correct_lemma. Qed.
Print Assumptions rewrite_splice_correct.

(* None ("nothing to do") exactly when there is no absolute from-import at top level - even
   if none of the imported names is mapped the function returns the rewritten text *)
Theorem rewrite_none_iff :
  forall mp ls body,
    rewrite_imports mp ls body = None <->
    (forall it, In it body -> rewritten (it_stmt it) = false).
Proof. exact rewrite_none_iff_lemma. Qed.
Print Assumptions rewrite_none_iff.

(* the whole function on any parsable source: never raises, None or the rewritten statements *)
Theorem rewrite_source_correct :
  forall mp ls body,
    ast_view ls = Some body ->
    match rewrite_source mp ls with
    | Ok None => forall it, In it body -> rewritten (it_stmt it) = false
    | Ok (Some out) =>
        (exists it, In it body /\ rewritten (it_stmt it) = true) /\
        stmts_of out = Some (flat_map (rewrite_stmt mp) (map it_stmt body))
    | _ => False
    end.
Proof. exact rewrite_source_correct_lemma. Qed.
Print Assumptions rewrite_source_correct.

(* ---- 4. the former counterexamples ----------------------------------------------------
   F21 `from district42 import schema; x = 1`: the import is replaced in place, `x = 1`
   (Other 1) stays on the line. *)
Example f21_now_correct :
  line_disjoint f21_lines = false /\
  rewrite_source gen_mapping f21_lines
  = Ok (Some [[Frag (ImportFrom 0 (Some s_d42) [(s_schema, None)]) 0 1; Frag (Other 1) 0 1]]).
Proof. exact f21_now_correct_lemma. Qed.

(* F27 "\x0cfrom district42 import schema\nx = 1\n": the line list is now the tokenizer's
   (two lines), the form feed is a blank before the import *)
Example ff_now_correct :
  rewrite_source gen_mapping ff_lines
  = Ok (Some [[Frag (ImportFrom 0 (Some s_d42) [(s_schema, None)]) 0 1]; [Frag (Other 1) 0 1]]).
Proof. exact ff_now_correct_lemma. Qed.

(* the remaining hypothesis is needed in the model: positions that do not index the line list
   (what str.splitlines() produced before the repair of F27) replace the wrong line.  The
   harness checks on every input that the implementation's line list is the tokenizer's. *)
Example misaligned_positions_go_wrong :
  aligned mis_lines mis_body = false /\
  match rewrite_imports gen_mapping mis_lines mis_body with
  | Some out => stmts_of out = Some [ImportFrom 0 (Some s_d42) [(s_schema, None)]; f21_import; Other 1]
  | None => False
  end.
Proof. exact misaligned_positions_lemma. Qed.

(* ---- 5. non-vacuity --------------------------------------------------------------------
   a docstring over two lines; `x = 1; from district42 import (` ... `); y = 2` - a three-line
   parenthesised import mixing mapped names of two target modules, an alias and an unmapped
   name, sharing its first line with x = 1 and its last with y = 2; a relative import; a def
   over two lines sharing its last line with two imports; a blank line; a star import:

     0 """doc                               5 from .valera import validate
     1 """                                  6 def f():
     2 x = 1; from district42 import (      7     pass; from valera import validate; from district42 import foo
     3     schema as s, foo,                8
       from_native, optional                9 from district42 import *
     4 ); y = 2                                                                         *)
Definition s_from_native : pystr := [102;114;111;109;95;110;97;116;105;118;101]%N.
Definition s_optional : pystr := [111;112;116;105;111;110;97;108]%N.
Definition s_d42_utils : pystr := [100;52;50;46;117;116;105;108;115]%N.
Definition s_valera : pystr := [118;97;108;101;114;97]%N.
Definition s_validate : pystr := [118;97;108;105;100;97;116;101]%N.
Definition s_s : pystr := [115]%N.

Definition ex_imp : stmt :=
  ImportFrom 0 (Some s_district42)
             [(s_schema, Some s_s); (s_foo, None); (s_from_native, None); (s_optional, None)].
Definition ex_rel : stmt := ImportFrom 1 (Some s_valera) [(s_validate, None)].
Definition ex_val : stmt := ImportFrom 0 (Some s_valera) [(s_validate, None)].
Definition ex_foo : stmt := ImportFrom 0 (Some s_district42) [(s_foo, None)].
Definition ex_star : stmt := ImportFrom 0 (Some s_district42) [([42%N], None)].
Definition ex_lines : list (list frag) :=
  [ [Frag (Other 1) 0 2]; [Frag (Other 1) 1 2];
    [Frag (Other 4) 0 1; Frag ex_imp 0 3]; [Frag ex_imp 1 3]; [Frag ex_imp 2 3; Frag (Other 5) 0 1];
    [Frag ex_rel 0 1];
    [Frag (Other 2) 0 2]; [Frag (Other 2) 1 2; Frag ex_val 0 1; Frag ex_foo 0 1];
    [];
    [Frag ex_star 0 1] ].

Example hypotheses_satisfiable :
  exists body out,
    ast_view ex_lines = Some body /\ line_disjoint ex_lines = false /\
    map it_stmt body = [Other 1; Other 4; ex_imp; Other 5; ex_rel; Other 2; ex_val; ex_foo; ex_star] /\
    rewrite_source gen_mapping ex_lines = Ok (Some out) /\ length out = 8 /\
    stmts_of out = Some
      [ Other 1; Other 4;
        ImportFrom 0 (Some s_d42) [(s_schema, Some s_s); (s_optional, None)];
        ImportFrom 0 (Some s_d42_utils) [(s_from_native, None)];
        ImportFrom 0 (Some s_district42) [(s_foo, None)];
        Other 5; ex_rel; Other 2;
        ImportFrom 0 (Some s_d42) [(s_validate, None)]; ex_foo; ex_star ].
Proof. eexists. eexists. vm_compute. repeat split. Qed.

Example nothing_to_do :
  rewrite_source gen_mapping [[Frag ex_rel 0 1]; [Frag (Other 2) 0 2]; [Frag (Other 2) 1 2]] = Ok None.
Proof. vm_compute. reflexivity. Qed.

(* an absolute from-import of an unmapped module is "rewritten" to itself: not None *)
Example unmapped_module_is_not_none :
  let imp := ImportFrom 0 (Some s_foo) [(s_schema, None)] in
  exists out, rewrite_source gen_mapping [[Frag imp 0 1]] = Ok (Some out) /\ stmts_of out = Some [imp].
Proof. eexists. vm_compute. split; reflexivity. Qed.

(* a from-import without names is not something ast.parse returns: the model says SyntaxError *)
Example empty_import_is_not_a_module :
  rewrite_source gen_mapping [[Frag (ImportFrom 0 (Some s_foo) []) 0 1]] = Raise OtherExn.
Proof. vm_compute. reflexivity. Qed.

Example table_is_not_empty :
  length (flat_mapping gen_mapping) <> 0 /\
  lookup2 gen_mapping (Some s_district42) s_schema = Some (s_d42, s_schema).
Proof. vm_compute. split; [discriminate | reflexivity]. Qed.
