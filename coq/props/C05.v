(* C05 - Substitution only narrows a schema, never widens it.
   Only statements here; the proof is in proofs/SubstNarrows.v. *)
Require Import D42.Prelude D42.Value D42.Regex D42.Schema D42.Validate D42.Conforms
               D42.FromNative D42.Substitute.
Require Import D42.Agree.
Require Import D42P.ValidateSpec D42P.SubstNarrows D42P.SubstSat.

(* For every well-formed schema s (any type, any nesting), every plain value v (no `...`
   / Nil placeholders, no opaque objects) for which s % v succeeds, and EVERY value w:
   if the result accepts w then s accepts w.  All constraints of the original stay in force. *)
Theorem subst_narrows :
  forall s, wf s = true ->
  forall v s', plain v = true -> substitute s v = Ok s' ->
  forall w, conforms s' w -> conforms s w.
Proof. exact subst_narrows_lemma. Qed.
Print Assumptions subst_narrows.

(* the same statement on validator verdicts, when the result is well-formed *)
Theorem subst_narrows_verdict :
  forall s, wf s = true ->
  forall v s', plain v = true -> substitute s v = Ok s' -> wf s' = true ->
  forall w, verdict s' w = true -> verdict s w = true.
Proof.
  intros s Hwf v s' Hpl Hs Hwf' w Hv.
  apply (verdict_iff_conforms_lemma s Hwf). apply (subst_narrows_lemma s Hwf v s' Hpl Hs).
  apply (verdict_iff_conforms_lemma s' Hwf'). exact Hv.
Qed.
Print Assumptions subst_narrows_verdict.

(* non-vacuity: a contains-list of partial dicts under an any, substituted with a plain value *)
Open Scope N_scope.
Definition ex_s : schema :=
  SAny (Some [ SNone;
               SList (Some [None;
                            Some (SDict (Some [ (KStr [97], Some (SInt None (Some (IInt 0%Z)) None), false);
                                                (KStr [98], Some (SStr None None None None None None None), true) ]));
                            None]) None None None None ]).
Definition ex_v : value := VList [VInt 7%Z; VDict [(KStr [97], VInt 3%Z)]; VNone].
Example ex_hyps : wf ex_s = true /\ plain ex_v = true /\ is_ok (substitute ex_s ex_v) = true.
Proof. vm_compute. auto. Qed.
Example ex_result_accepts_v :
  match substitute ex_s ex_v with Ok s' => verdict s' ex_v && wf s' | _ => false end = true.
Proof. vm_compute. reflexivity. Qed.
Example ex_result_rejects_other :   (* the original accepts it, the narrowed schema does not *)
  match substitute ex_s ex_v with
  | Ok s' => verdict s' (VList [VInt 8%Z; VDict [(KStr [97], VInt 3%Z)]; VNone])
  | _ => true end = false
  /\ verdict ex_s (VList [VInt 8%Z; VDict [(KStr [97], VInt 3%Z)]; VNone]) = true.
Proof. vm_compute. auto. Qed.

(* With the result's well-formedness proved (subst_result_wf, proofs/SubstSat.v), the verdict form needs no
   hypothesis about s' any more (dict keys of v pairwise distinct, as in any Python dict): *)
Theorem subst_narrows_verdict_closed :
  forall s, wf s = true ->
  forall v s', plain v = true -> vwf v = true -> substitute s v = Ok s' ->
  forall w, verdict s' w = true -> verdict s w = true.
Proof.
  intros s Hwf v s' Hpl Hvw Hs w Hv.
  exact (subst_narrows_verdict s Hwf v s' Hpl Hs (subst_wf_lemma s Hwf v s' Hpl Hvw Hs) w Hv).
Qed.
Print Assumptions subst_narrows_verdict_closed.
