(* C05 - Substitution only narrows a schema, never widens it.
   Only statements here; the proof is in proofs/SubstNarrows.v. *)
Require Import D42.Prelude D42.Value D42.Regex D42.Schema D42.Validate D42.Conforms
               D42.FromNative D42.Substitute.
Require Import D42.Agree.
Require Import D42P.ValidateSpec D42P.SubstNarrows D42P.SubstSat.

(* For every well-formed schema s (any type, any nesting), every plain value v (no `...`
   / Nil placeholders, no opaque objects) for which s % v succeeds, and EVERY value w:
   if the result accepts w then s accepts w.  All constraints of the original stay in force. *)
Theorem subst_narrows :
  forall s, wf s = true ->
  forall v s', plain v = true -> substitute s v = Ok s' ->
  forall w, conforms s' w -> conforms s w.
Proof. exact subst_narrows_lemma. Qed.
Print Assumptions subst_narrows.

(* the same statement on validator verdicts, when the result is well-formed *)
Theorem subst_narrows_verdict :
  forall s, wf s = true ->
  forall v s', plain v = true -> substitute s v = Ok s' -> wf s' = true ->
  forall w, verdict s' w = true -> verdict s w = true.
Proof.
  intros s Hwf v s' Hpl Hs Hwf' w Hv.
  apply (verdict_iff_conforms_lemma s Hwf). apply (subst_narrows_lemma s Hwf v s' Hpl Hs).
  apply (verdict_iff_conforms_lemma s' Hwf'). exact Hv.
Qed.
Print Assumptions subst_narrows_verdict.

(* non-vacuity: a contains-list of partial dicts under an any, substituted with a plain value *)
Open Scope N_scope.
Definition ex_s : schema :=
  SAny (Some [ SNone;
               SList (Some [None;
                            Some (SDict (Some [ (KStr [97], Some (SInt None (Some (IInt 0%Z)) None), false);
                                                (KStr [98], Some (SStr None None None None None None None), true) ]));
                            None]) None None None None ]).
Definition ex_v : value := VList [VInt 7%Z; VDict [(KStr [97], VInt 3%Z)]; VNone].
Example ex_hyps : wf ex_s = true /\ plain ex_v = true /\ is_ok (substitute ex_s ex_v) = true.
Proof. vm_compute. auto. Qed.
Example ex_result_accepts_v :
  match substitute ex_s ex_v with Ok s' => verdict s' ex_v && wf s' | _ => false end = true.
Proof. vm_compute. reflexivity. Qed.
Example ex_result_rejects_other :   (* the original accepts it, the narrowed schema does not *)
  match substitute ex_s ex_v with
  | Ok s' => verdict s' (VList [VInt 8%Z; VDict [(KStr [97], VInt 3%Z)]; VNone])
  | _ => true end = false
  /\ verdict ex_s (VList [VInt 8%Z; VDict [(KStr [97], VInt 3%Z)]; VNone]) = true.
Proof. vm_compute. auto. Qed.

(* With the result's well-formedness proved (subst_result_wf, proofs/SubstSat.v), the verdict form needs no
   hypothesis about s' any more (dict keys of v pairwise distinct, as in any Python dict): *)
Theorem subst_narrows_verdict_closed :
  forall s, wf s = true ->
  forall v s', plain v = true -> vwf v = true -> substitute s v = Ok s' ->
  forall w, verdict s' w = true -> verdict s w = true.
Proof.
  intros s Hwf v s' Hpl Hvw Hs w Hv.
  exact (subst_narrows_verdict s Hwf v s' Hpl Hs (subst_wf_lemma s Hwf v s' Hpl Hvw Hs) w Hv).
Qed.
Print Assumptions subst_narrows_verdict_closed.

(* Chained substitution, any number of steps: ((S % v1) % v2) % ... % vn, every vi plain with
   distinct dict keys.  If the whole chain succeeds, the final schema is well-formed and every
   value it accepts is accepted by EVERY intermediate schema and by S itself: narrowing
   composes, nothing a step pinned or kept is lost by a later step.  Induction over the list
   of values; no bound on its length. *)
Definition subst_chain (s : schema) (vs : list value) : result schema :=
  fold_left (fun r v => bind r (fun s0 => substitute s0 v)) vs (Ok s).

Lemma subst_chain_not_ok : forall vs (r : result schema) s',
  is_ok r = false -> fold_left (fun r v => bind r (fun s0 => substitute s0 v)) vs r <> Ok s'.
Proof.
  induction vs as [|v vs IH]; intros r s' Hr; cbn [fold_left].
  - destruct r; [discriminate Hr | discriminate | discriminate].
  - apply IH. destruct r; [discriminate Hr | reflexivity | reflexivity].
Qed.

Theorem subst_chain_narrows :
  forall vs s, wf s = true ->
  forallb plain vs = true -> forallb vwf vs = true ->
  forall s', subst_chain s vs = Ok s' ->
  wf s' = true /\ forall w, verdict s' w = true -> verdict s w = true.
Proof.
  unfold subst_chain.
  induction vs as [|v vs IH]; intros s Hwf Hpl Hvw s' Hs; cbn [fold_left] in Hs.
  - inversion Hs; subst. split; [exact Hwf | auto].
  - cbn [forallb] in Hpl, Hvw.
    apply andb_prop in Hpl. destruct Hpl as [Hp1 Hp2].
    apply andb_prop in Hvw. destruct Hvw as [Hv1 Hv2].
    cbn [bind] in Hs.
    destruct (substitute s v) as [s1 | k | e] eqn:E1.
    + pose proof (subst_wf_lemma s Hwf v s1 Hp1 Hv1 E1) as Hwf1.
      destruct (IH s1 Hwf1 Hp2 Hv2 s' Hs) as [Hwf' Hn].
      split; [exact Hwf'|]. intros w Hw.
      exact (subst_narrows_verdict_closed s Hwf v s1 Hp1 Hv1 E1 w (Hn w Hw)).
    + exfalso. exact (subst_chain_not_ok vs (Err k) s' eq_refl Hs).
    + exfalso. exact (subst_chain_not_ok vs (Raise e) s' eq_refl Hs).
Qed.
Print Assumptions subst_chain_narrows.

(* every prefix of the chain is narrowed too: the final schema refines each intermediate one *)
Theorem subst_chain_narrows_intermediate :
  forall vs1 vs2 s, wf s = true ->
  forallb plain (vs1 ++ vs2) = true -> forallb vwf (vs1 ++ vs2) = true ->
  forall s', subst_chain s (vs1 ++ vs2) = Ok s' ->
  exists s1, subst_chain s vs1 = Ok s1 /\ wf s1 = true /\
             forall w, verdict s' w = true -> verdict s1 w = true.
Proof.
  intros vs1 vs2 s Hwf Hpl Hvw s' Hs.
  unfold subst_chain in *. rewrite fold_left_app in Hs.
  rewrite forallb_app in Hpl, Hvw.
  apply andb_prop in Hpl. destruct Hpl as [Hp1 Hp2].
  apply andb_prop in Hvw. destruct Hvw as [Hv1 Hv2].
  destruct (fold_left (fun r v => bind r (fun s0 => substitute s0 v)) vs1 (Ok s)) as [s1 | k | e] eqn:E1.
  - exists s1. split; [reflexivity|].
    destruct (subst_chain_narrows vs1 s Hwf Hp1 Hv1 s1 E1) as [Hwf1 _].
    split; [exact Hwf1|].
    exact (proj2 (subst_chain_narrows vs2 s1 Hwf1 Hp2 Hv2 s' Hs)).
  - exfalso. exact (subst_chain_not_ok vs2 (Err k) s' eq_refl Hs).
  - exfalso. exact (subst_chain_not_ok vs2 (Raise e) s' eq_refl Hs).
Qed.
Print Assumptions subst_chain_narrows_intermediate.

(* non-vacuity: a two-step chain on the example above (a partial value, then a fuller one) *)
Definition ex_v2 : value := VList [VInt 7%Z; VDict [(KStr [97], VInt 3%Z); (KStr [98], VStr [120])]; VNone].
Example ex_chain_hyps :
  forallb plain [ex_v; ex_v2] = true /\ forallb vwf [ex_v; ex_v2] = true
  /\ is_ok (subst_chain ex_s [ex_v; ex_v2]) = true.
Proof. vm_compute. auto. Qed.
