(* C10 - A declaration either fails cleanly or yields a self-consistent schema.
   Only statements here; proofs are in proofs/DeclareSpec.v and proofs/DeclareInv.v.

   [decl m s args] is the call  s.m(args...)  of the model (theories/Declare.v):
   Ok s' = returns s', Err DeclErr = raises DeclarationError, Raise e = another exception.
   "The receiver is unchanged" is not a theorem: schemas are values in the model; the
   harness observes repr/props of the receiver before and after every call. *)

Require Import D42.Prelude D42.PyFloat D42.Value D42.Regex D42.Schema D42.Validate D42.Conforms
               D42.CaseLib D42.Declare.
Require Import D42P.DeclareSpec D42P.DeclareInv.
Require Import D42.DslWf D42P.DslWf D42P.ValidateSpec.

(* Whatever the arguments are (any type, any number of wrongly typed ones), a call of a
   method the type has, with a number of arguments Python accepts, never lets an exception
   other than DeclarationError escape.  [arity_ok] : the type has the method, the argument
   count fits its signature, and a str offered to regex() comes with its parse info. *)
Theorem decl_only_declerr :
  forall m s args, arity_ok (kind_of s) m args = true -> forall e, decl m s args <> Raise e.
Proof. exact decl_only_declerr_lemma. Qed.
Print Assumptions decl_only_declerr.

(* ... and so for call chains of any length *)
Theorem run_only_declerr :
  forall ops s, Forall (fun o : op => arity_ok (kind_of s) (fst o) (snd o) = true) ops ->
  forall e, run ops s <> Raise e.
Proof. exact run_only_declerr_lemma. Qed.
Print Assumptions run_only_declerr.

(* Re-declaring an already declared property is rejected, for any arguments. *)
Theorem redeclare_rejected :
  forall m s args, prop_declared m s = true -> arity_ok (kind_of s) m args = true ->
  decl m s args = Err DeclErr.
Proof. exact redeclare_rejected_lemma. Qed.
Print Assumptions redeclare_rejected.

(* The invariant [dsl_inv] (decidable: value consistent with every constraint, regex
   exclusive with len/alphabet/contains, len(n) exclusive with len(a, b), elements xor type,
   `...` first/last only, lengths consistent with the element list, dict keys distinct,
   any-alternatives flattened; hereditary) holds for every bare type and is preserved by
   every successful declaration whose schema arguments satisfy it. *)
Theorem bare_dsl_inv : forall k, dsl_inv (bare k) = true.
Proof. exact bare_inv. Qed.
Print Assumptions bare_dsl_inv.

(* A returned schema satisfies the invariant, and if it carries a fixed value (a declared
   value; or a fully fixed element list: every element carries one, no `...`) that is not
   NaN / does not contain NaN, the schema accepts that value: the validator reports no
   error, and the value conforms to the declarative meaning (D42.Conforms). *)
Theorem decl_fixed_conforms :
  forall m s args s',
  dsl_inv s = true -> args_inv args = true -> decl m s args = Ok s' ->
  dsl_inv s' = true /\
  forall v, fixed s' = Some v -> value_no_nan v = true -> verdict s' v = true /\ conforms s' v.
Proof. exact decl_fixed_conforms_lemma. Qed.
Print Assumptions decl_fixed_conforms.

(* The same with the NaN exclusion stated on the inputs: no fixed float value inside the
   receiver ([schema_no_nan]) or inside the arguments, at any depth ([no_nan_args]), is NaN.
   Then the result has the same property and accepts whatever fixed value it carries. *)
Theorem decl_fixed_conforms_no_nan_args :
  forall m s args s',
  dsl_inv s = true -> schema_no_nan s = true -> args_inv args = true -> no_nan_args args = true ->
  decl m s args = Ok s' ->
  dsl_inv s' = true /\ schema_no_nan s' = true /\
  forall v, fixed s' = Some v -> verdict s' v = true /\ conforms s' v.
Proof. exact decl_fixed_conforms_nn_lemma. Qed.
Print Assumptions decl_fixed_conforms_no_nan_args.

Theorem run_dsl_inv :
  forall ops s s', dsl_inv s = true -> Forall (fun o : op => args_inv (snd o) = true) ops ->
  run ops s = Ok s' -> dsl_inv s' = true.
Proof. exact run_inv_lemma. Qed.
Print Assumptions run_dsl_inv.

(* F10 was repaired in the code (a value declared as nan is matched by nan): the former
   counter-example now conforms.  The NaN-free hypotheses of decl_fixed_conforms are kept as
   proved; they are no longer needed for this instance. *)
Example decl_nan_conforms :
  decl MCall (bare KdFloat) [AVal (VFloat fnan)] = Ok (SFloat (Some fnan) None None None)
  /\ verdict (SFloat (Some fnan) None None None) (VFloat fnan) = true.
Proof. vm_compute. split; reflexivity. Qed.

(* ---- non-vacuity ---- *)
Open Scope N_scope.
(* schema.str("banana").regex("an+a") is accepted ... *)
Definition ex_anna : list re := [RLit 97; RRepeat false 1 None [RLit 110]; RLit 97].
Example ex_regex_ok :
  run [(MCall, [AVal (VStr [98;97;110;97;110;97])]); (MRegex, [APattern [97;110;43;97] ex_anna true])]
      (bare KdStr)
  = Ok (SStr (Some [98;97;110;97;110;97]) None None None None None (Some ([97;110;43;97], ex_anna))).
Proof. vm_compute. reflexivity. Qed.
(* ... schema.int(0).min(1) is rejected, schema.int.min(1).min(0) is a re-declaration ... *)
Example ex_contradiction :
  run [(MCall, [AVal (VInt 0%Z)]); (MMin, [AVal (VInt 1%Z)])] (bare KdInt) = Err DeclErr.
Proof. vm_compute. reflexivity. Qed.
Example ex_redeclared : prop_declared MMin (SInt None (Some (IInt 1%Z)) None) = true.
Proof. reflexivity. Qed.
(* ... and a nested fixed list satisfies all hypotheses of decl_fixed_conforms *)
Definition ex_list_arg : arg :=
  AList [ASchema (SInt (Some (IInt 1%Z)) (Some (IInt 0%Z)) None);
         ASchema (SList (Some [Some (SStr (Some [97]) (Some (IInt 1%Z)) None None None None None)])
                        None None None None)].
Example ex_fixed_list :
  exists s', decl MCall (bare KdList) [ex_list_arg] = Ok s' /\ args_inv [ex_list_arg] = true /\
             fixed s' = Some (VList [VInt 1%Z; VList [VStr [97]]]).
Proof. eexists. vm_compute. repeat split; reflexivity. Qed.
Example ex_wrong_types :
  decl MLen (bare KdStr) [AVal VEllipsis; AVal VNil] = Err DeclErr /\
  decl MCall (bare KdDict) [ADict [(DKey KEll, ASchema SNone)]] = Err DeclErr /\
  arity_ok KdStr MLen [AVal VEllipsis; AVal VNil] = true.
Proof. vm_compute. repeat split; reflexivity. Qed.

(* ---- DSL-built schemas are well-formed ---- *)
Close Scope N_scope.
(* Every schema obtained from a bare type by any chain of successful DSL calls whose schema
   arguments were themselves DSL-built ([args_inv], exactly the hypothesis of run_dsl_inv) is
   well-formed.  This discharges the hypothesis [wf s = true] of the theorems of
   C02/C04/C05/C08/C12 for every schema built through the DSL.  The one side condition,
   [pats_modelled s] (theories/DslWf.v), is the regex clause of [wf]: every regex the schema
   carries, at any depth, is in the modelled fragment [re_modelled] of C09; [dsl_inv] says
   nothing about it (regex() accepts whatever re.compile accepts).  Every other clause of
   [wf] (`...` only first/last and not [..., ...]; shape of dict entries; distinct keys;
   hereditarily) follows from [dsl_inv]. *)
Theorem dsl_built_wf :
  forall k ops s,
  Forall (fun o : op => args_inv (snd o) = true) ops ->
  run ops (bare k) = Ok s -> pats_modelled s = true -> wf s = true.
Proof. exact run_wf_lemma. Qed.
Print Assumptions dsl_built_wf.

Theorem dsl_inv_wf : forall s, dsl_inv s = true -> pats_modelled s = true -> wf s = true.
Proof. exact dsl_inv_wf_lemma. Qed.
Print Assumptions dsl_inv_wf.

(* non-vacuity, and the intended use: schema.list([..., schema.str.regex("an+a")]).len(1, 3)
   is built by the DSL from DSL-built arguments, so C02's verdict_iff_conforms (here its
   lemma, proofs/ValidateSpec.v) applies to it without any well-formedness side proof. *)
Open Scope N_scope.
Definition ex_built_ops : list op :=
  [(MCall, [AList [AVal VEllipsis;
                   ASchema (SStr None None None None None None (Some ([97;110;43;97], ex_anna)))]]);
   (MLen, [AVal (VInt 1%Z); AVal (VInt 3%Z)])].
Definition ex_built : schema :=
  SList (Some [None; Some (SStr None None None None None None (Some ([97;110;43;97], ex_anna)))])
        None None (Some (IInt 1%Z)) (Some (IInt 3%Z)).
Example ex_built_arg :
  run [(MRegex, [APattern [97;110;43;97] ex_anna true])] (bare KdStr)
  = Ok (SStr None None None None None None (Some ([97;110;43;97], ex_anna))).
Proof. vm_compute. reflexivity. Qed.
Example ex_built_run : run ex_built_ops (bare KdList) = Ok ex_built.
Proof. vm_compute. reflexivity. Qed.
Example ex_built_verdict : forall v, verdict ex_built v = true <-> conforms ex_built v.
Proof.
  apply verdict_iff_conforms_lemma.
  apply (dsl_built_wf KdList ex_built_ops ex_built).
  - repeat constructor.
  - exact ex_built_run.
  - vm_compute. reflexivity.
Qed.
Close Scope N_scope.
