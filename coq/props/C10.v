(* C10 - placeholder while the proofs are being written *)
Require Import D42.Prelude D42.Declare.
Example c10_stub : run [] (bare KdNone) = Ok (bare KdNone).
Proof. reflexivity. Qed.
