(* C08 - Validation is total: any Python value yields a result, and failing is reporting.
   Only statements here; proofs are in proofs/ValidateTotal.v. *)
Require Import D42.Prelude D42.Value D42.Regex D42.Schema D42.Validate.
Require Import D42P.ValidateTotal.

(* [validateR] models every Python operation of the two validators that can raise on some
   operand (comparisons on non-numbers, len() of non-sized values, re.search on non-str,
   .version on non-UUID, round() of inf/nan, __accept__ on the Ellipsis object) as partial.
   For every well-formed schema, both validators, every path and EVERY value (including
   VOther = tuple/set/Decimal/object(), non-finite floats, unbounded ints, non-v4 uuids,
   markers nested anywhere) no such operation is reached with a bad operand: *)
Theorem validate_total :
  forall m s, wf s = true -> forall p v, validateR m s p v = Ok (validate m s p v).
Proof. exact validate_total_lemma. Qed.
Print Assumptions validate_total.

Corollary validate_never_raises :
  forall m s, wf s = true -> forall p v, exists es, validateR m s p v = Ok es.
Proof. intros m s H p v. eexists. apply validate_total_lemma. exact H. Qed.

(* validate_or_fail: True exactly when there are no errors, otherwise ValidationException
   with one bullet per error; never another exception. *)
Theorem validate_or_fail_spec :
  forall s, wf s = true -> forall v,
    (validate_or_fail s v = VofTrue <-> validate Plain s [] v = []) /\
    (validate Plain s [] v <> [] ->
       validate_or_fail s v = VofRaises (length (validate Plain s [] v))).
Proof.
  intros s H v. unfold validate_or_fail. rewrite (validate_total_lemma Plain s H [] v).
  destruct (validate Plain s [] v); split; try (split; congruence); congruence.
Qed.
Print Assumptions validate_or_fail_spec.

(* the hypothesis is needed: a `...` marker in the middle of an element list (only
   reachable by substituting a value that itself contains `...` placeholders) makes the
   real validator raise AttributeError, and the model says so. *)
Open Scope N_scope.
Example nonwf_raises :
  let s := SList (Some [Some SNone; None; Some SNone]) None None None None in
  wf s = false /\ validateR Plain s [] (VList [VNone; VInt 1%Z; VNone]) = Raise AttributeError.
Proof. vm_compute. split; reflexivity. Qed.

(* non-vacuity: hostile values nested inside an otherwise conforming value *)
Example hostile_reported :
  let s := SDict (Some [(KStr [97], Some (SList None (Some (SFloat (Some PrimFloat.one) None None (Some (IInt 2%Z)))) None None None), false)]) in
  wf s = true /\
  length (validate Plain s [] (VDict [(KStr [97], VList [VFloat PrimFloat.infinity; VOther 3; VFloat PrimFloat.nan])])) = 3%nat.
Proof. vm_compute. split; reflexivity. Qed.
