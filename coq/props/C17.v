(* C17 - Seeded generation is reproducible.
   Only statements here; proofs are in proofs/GenIndep.v.
   The tape is a function of the seed (random.seed + Mersenne Twister: trusted); everything
   else the generator could read is the [world]: OS entropy behind uuid4(), the clock, and the
   iteration order of sets of characters (string hashing, PYTHONHASHSEED). *)
Require Import D42.Prelude D42.Value D42.Regex D42.Schema D42.PyRandom D42.RegexGen D42.Generate
               D42.EnvFree.
Require Import D42P.GenIndep.

(* For schemas without an unfixed uuid4 / datetime / date and without a negated character
   class in any pattern, the values generated for any sequence of schemas are a function of
   the tape only: any two worlds give the same values (and leave the same tape). *)
Theorem gen_world_independent_partial :
  forall w1 w2 ss, forallb (env_free false) ss = true ->
  forall t, gen_seq w1 ss t = gen_seq w2 ss t.
Proof.
  intros w1 w2 ss H t. apply (gen_seq_indep_lemma w1 w2 false); [discriminate | exact H].
Qed.
Print Assumptions gen_world_independent_partial.

(* With negated classes allowed, the values are a function of the tape and of the set
   iteration order only: same order (same interpreter, same PYTHONHASHSEED) - same values,
   whatever the clock and the entropy. *)
Theorem gen_same_process_reproducible :
  forall w1 w2 ss, (forall l, w_perm w1 l = w_perm w2 l) ->
  forallb (env_free true) ss = true ->
  forall t, gen_seq w1 ss t = gen_seq w2 ss t.
Proof.
  intros w1 w2 ss Hp H t. apply (gen_seq_indep_lemma w1 w2 true); [intros _; exact Hp | exact H].
Qed.
Print Assumptions gen_same_process_reproducible.

(* The property as stated ("whatever its hash randomisation") is false of the faithful model
   when a pattern has a negated class: known finding F18. *)
Definition gen_world_independent_full : Prop :=
  forall w1 w2 ss, forallb (env_free true) ss = true ->
  forall t, gen_seq w1 ss t = gen_seq w2 ss t.

Open Scope N_scope.
Definition wa : world := mk_world 0 0 0 (fun l => l).
Definition wb : world := mk_world 0 0 0 (fun l => rev l).
Definition f18_s : schema :=          (* schema.str.regex("[^a]") *)
  SStr None None None None None None (Some ([91; 94; 97; 93], [RIn true [CLit 97]])).
Theorem gen_world_independent_refuted : ~ gen_world_independent_full.
Proof.
  intros H. specialize (H wa wb [f18_s] eq_refl [0]). vm_compute in H. discriminate.
Qed.
Print Assumptions gen_world_independent_refuted.

(* non-vacuity: a nested env-free schema with a (non-negated) pattern, two very different worlds *)
Definition ex_s : schema :=
  SDict (Some [ (KStr [97], Some (SList None (Some (SInt None (Some (IInt 0%Z)) (Some (IInt 9%Z))))
                                        (Some (IInt 3%Z)) None None), false);
                (KStr [98], Some (SStr None None None None None None
                                       (Some ([], [RRepeat false 1 (Some 3) [RIn false [CRange 97 99; CCat CDigit]]]))), false);
                (KStr [99], Some (SUuid (Some 5)), false) ]).
Example ex_env_free : env_free false ex_s = true.
Proof. vm_compute. reflexivity. Qed.
Example ex_same :
  gen_seq wa [ex_s; ex_s] [3; 14; 15; 92; 6; 5; 3; 5] =
  gen_seq (mk_world 77 123456 700000 (fun l => rev l)) [ex_s; ex_s] [3; 14; 15; 92; 6; 5; 3; 5].
Proof. vm_compute. reflexivity. Qed.
Example ex_not_env_free : env_free true (SList None (Some (SUuid None)) None None None) = false.
Proof. vm_compute. reflexivity. Qed.
