(* C03 - Every validation error is true and points at the offending sub-value.
   Only statements here; proofs are in proofs/ErrorsSpec.v. *)
Require Import D42.Prelude D42.Value D42.Regex D42.Schema D42.Validate D42.Format.
Require Import D42P.ErrorsSpec.

(* For EVERY schema (well-formed or not), both validators, every root value, every position
   p inside it and every error e reported when validating the sub-value at p:
   - e's path extends p (nothing leaks to siblings or ancestors),
   - following e's path from the root reaches exactly the value e reports,
   - the fact e states is true of that value (D42P.ErrorsSpec.fact: wrong type, unequal,
     below min, above max, wrong length, character outside alphabet, missing substring,
     regex mismatch, key/element missing resp. present at the stated key/index, no
     alternative accepts, UUID version <> 4). *)
Theorem errors_located_true :
  forall m s root p v, lookup root p = Some v ->
    forall e, In e (validate m s p v) ->
      (exists q, epath e = p ++ q) /\
      lookup root (epath e) = Some (eactual e) /\
      fact m e.
Proof.
  intros m s root p v Hp e He.
  exact (proj1 (Forall_forall _ _) (errors_good_lemma m root s p v Hp) e He).
Qed.
Print Assumptions errors_located_true.

(* from the root: *)
Corollary errors_located_true_root :
  forall m s v e, In e (validate m s [] v) ->
    lookup v (epath e) = Some (eactual e) /\ fact m e.
Proof.
  intros m s v e He.
  destruct (errors_located_true m s v [] v eq_refl e He) as (_ & H1 & H2). auto.
Qed.

(* errors of different siblings have different prefixes: an error found while validating
   the member at p ++ [k] carries p ++ [k] *)
Corollary siblings_disjoint :
  forall m s root p k x, lookup root (p ++ [k]) = Some x ->
    forall e, In e (validate m s (p ++ [k]) x) -> exists q, epath e = (p ++ [k]) ++ q.
Proof.
  intros m s root p k x H e He. destruct (errors_located_true m s root _ x H e He) as (Hq & _). exact Hq.
Qed.

(* the path printed in the message: the error's own path, extended by the missing
   key/index for "does not exist" messages - and there it names an absent position *)
Theorem rendered_path_spec :
  forall m s root p v, lookup root p = Some v ->
    forall e, In e (validate m s p v) ->
      match missing_item e with
      | None => rendered_path e = epath e /\ lookup root (rendered_path e) = Some (eactual e)
      | Some k => rendered_path e = epath e ++ [k] /\ lookup root (rendered_path e) = None
      end.
Proof.
  intros m s root p v Hp e He.
  destruct (errors_located_true m s root p v Hp e He) as (_ & Hl & Hf).
  unfold rendered_path, missing_item, fact in *.
  destruct (ekind_of e) eqn:Ek; try (split; [reflexivity | exact Hl]).
  - destruct Hf as (l & Ha & Hi & Hn). split; [reflexivity|].
    rewrite lookup_app, Hl, Ha. simpl. destruct (Z.ltb_spec i 0); [reflexivity|]. rewrite Hn. reflexivity.
  - destruct Hf as (d & Ha & Hn). split; [reflexivity|].
    rewrite lookup_app, Hl, Ha. simpl. rewrite Hn. reflexivity.
Qed.
Print Assumptions rendered_path_spec.

(* non-vacuity: nested errors at depth 2 under two siblings *)
Open Scope N_scope.
Example ex_nested_errors :
  let s := SDict (Some [(KStr [97], Some (SList (Some [Some (SStr None None None None (Some [97;98]) None None);
                                                      Some (SInt None (Some (IInt 3%Z)) None)]) None None None None), false)]) in
  map epath (validate Plain s [] (VDict [(KStr [97], VList [VStr [120]; VInt 1%Z; VNone])]))
  = [[KStr [97]; KInt 0%Z]; [KStr [97]; KInt 1%Z]; [KStr [97]]].
Proof. vm_compute. reflexivity. Qed.
