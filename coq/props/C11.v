(* C11 - Constraint refinements can be declared in any order.
   Only statements here; proofs are in proofs/DeclareSpec.v. *)
From Coq Require Import Permutation.
Require Import D42.Prelude D42.Value D42.Regex D42.Schema D42.Validate D42.Declare.
Require Import D42P.DeclareSpec.

(* [outcome_eq] identifies all DeclarationErrors and compares returned schemas with Leibniz
   equality of the model terms (finer than Python ==: literal True vs 1 and -0.0 vs 0.0 are
   kept apart, NaN parameters are equal to themselves).
   For ANY state s (bare, or with a value fixed first, or after other refinements), any two
   non-value refinement methods of its type - distinct or not - and any arguments: *)
Theorem commute :
  forall s o1 a1 o2 a2,
  refinement o1 = true -> refinement o2 = true ->
  arity_ok (kind_of s) o1 a1 = true -> arity_ok (kind_of s) o2 a2 = true ->
  outcome_eq (then2 o1 a1 o2 a2 s) (then2 o2 a2 o1 a1 s).
Proof. exact commute_lemma. Qed.
Print Assumptions commute.

(* any number of refinements, any permutation.  No distinctness hypothesis is needed: two
   refinements setting the same property (e.g. two len forms) fail in either order. *)
Theorem perm_same_outcome :
  forall ops ops', Permutation ops ops' ->
  forall s, refinement_ops (kind_of s) ops -> outcome_eq (run ops s) (run ops' s).
Proof. exact perm_same_outcome_lemma. Qed.
Print Assumptions perm_same_outcome.

(* "optionally after fixing a value first" *)
Theorem perm_same_outcome_after_value :
  forall v ops ops', Permutation ops ops' ->
  forall s, refinement_ops (kind_of s) ops ->
  outcome_eq (run ((MCall, v) :: ops) s) (run ((MCall, v) :: ops') s).
Proof. exact perm_after_value_lemma. Qed.
Print Assumptions perm_same_outcome_after_value.

(* the value itself does not commute with refinements (why the property says "first") *)
Theorem value_does_not_commute :
  exists s v a, outcome_eq (then2 MCall v MMin a s) (then2 MMin a MCall v s) -> False.
Proof. exact value_does_not_commute_lemma. Qed.
Print Assumptions value_does_not_commute.

(* ---- non-vacuity ---- *)
Open Scope N_scope.
Definition ex_ops : list op :=
  [(MLen, [AVal (VInt 1%Z); AVal (VInt 10%Z)]); (MAlphabet, [AVal (VStr [97;98;110])]);
   (MContains, [AVal (VStr [110;97;110])])].
Example ex_ops_ok : refinement_ops KdStr ex_ops.
Proof. repeat constructor. Qed.
Example ex_all_succeed :
  exists s', run (rev ex_ops) (SStr (Some [98;97;110;97;110;97]) None None None None None None) = Ok s'.
Proof. eexists. vm_compute. reflexivity. Qed.
Example ex_all_fail :
  run ((MRegex, [APattern [97] [RLit 97] true]) :: ex_ops) (bare KdStr) = Err DeclErr /\
  run (ex_ops ++ [(MRegex, [APattern [97] [RLit 97] true])]) (bare KdStr) = Err DeclErr.
Proof. vm_compute. split; reflexivity. Qed.
