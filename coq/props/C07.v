(* C07 - Schemas are immutable values and all operations on them are pure.
   Only statements here; the model is theories/Store.v, proofs are in proofs/StoreSpec.v.

   Reading guide.  The store model has a heap of cells (Python lists / dicts / registries,
   each owned either by the Caller or by d42's schema objects) and a pool of schema objects.
   [sites] has one flag per place where d42 stores or rebuilds a container (true = takes a
   fresh container, false = keeps / rewrites the one it was handed).  [sites_repo] (all
   true) is what /repo does; that claim and the absence of any state outside heap and pool
   are VALIDATED on every run by the operation histories of harness/props/c07.py and are
   not proved here.  What is proved: given those flags, no history of public operations
   interleaved with arbitrary caller mutations can change what any pooled schema denotes;
   no operation but the caller's own mutation touches an existing cell; an operation's
   result is a function of the denotations of its arguments; and with the pre-F16 flag the
   first statement is false (so the flags matter and the theorem is not vacuous). *)
Require Import D42.Prelude D42.Store.
Require Import D42P.StoreSpec.

Theorem sites_repo_are_fresh : sites_fresh sites_repo = true.
Proof. exact sites_repo_fresh. Qed.
Print Assumptions sites_repo_are_fresh.

(* For every history [ops] (any length; declarations from caller containers, refinements
   that succeed or raise, +, |, %, from_native, make_required, validate, represent,
   iteration, indexing, fake, and caller mutations of ANY caller container, also of those
   passed in earlier), every start state, every two points i <= j of the history and every
   schema s pooled at point i: s denotes at j what it denoted at i (for every reading depth). *)
Theorem history_frame :
  forall σ, sites_fresh σ = true ->
  forall ops st0, wf_state st0 ->
  forall i j s, i <= j -> s < length (pool (after σ ops i st0)) ->
  forall fuel, denote fuel (after σ ops j st0) s = denote fuel (after σ ops i st0) s.
Proof. exact history_frame_thm. Qed.
Print Assumptions history_frame.

(* No operation other than caller_mutates changes any existing cell; in particular the
   containers passed as arguments are left exactly as they were. *)
Theorem args_unchanged :
  forall σ, sites_fresh σ = true ->
  forall o st, wf_state st -> is_mutation o = false ->
  forall c cl, nth_error (heap st) c = Some cl ->
               nth_error (heap (fst (step σ o st))) c = Some cl.
Proof. exact args_unchanged_thm. Qed.
Print Assumptions args_unchanged.

(* Running the same d42 operation in two states that agree on the denotations of its
   arguments (at every depth) yields the same outcome: same raise / same denotation of the
   returned schema, container or observation.  [RInvalid] = the model cannot follow the
   operation (dangling index, a cell the caller does not own); excluded on both sides. *)
Theorem replay_deterministic :
  forall σ, sites_fresh σ = true ->
  forall o A B, wf_state A -> wf_state B -> is_caller_op o = false ->
  (forall a, In a (op_args o) -> forall f, den f A a = den f B a) ->
  snd (step σ o A) <> RInvalid -> snd (step σ o B) <> RInvalid ->
  forall f, outcome σ o A f = outcome σ o B f.
Proof. exact replay_deterministic_thm. Qed.
Print Assumptions replay_deterministic.

(* With ListSchema.__call__ keeping the caller's list (the tree before 5805b93, F16):
   l = [5]; s = schema.list(l); l.append(6)  changes s. *)
Theorem history_frame_refuted :
  exists ops st0 i j s fuel,
    wf_state st0 /\ i <= j /\ s < length (pool (after sites_f16 ops i st0)) /\
    denote fuel (after sites_f16 ops j st0) s <> denote fuel (after sites_f16 ops i st0) s.
Proof. exact history_frame_refuted_thm. Qed.
Print Assumptions history_frame_refuted.

(* ---- non-vacuity ---- *)
Open Scope N_scope.

Example empty_wf : wf_state empty_state.
Proof. reflexivity. Qed.

(* d = {"a": <int>}; s = schema.dict(d); t = s + s; r = make_required(t, ["a"]);
   v = [1, [2]]; n = from_native(v); d["b"] = <int>; v.clear(); del d[0] ... *)
Definition ex_history : list op :=
  [ OLeaf 10;                                          (* 0: schema.int            pool 0 *)
    ONew [(100, ISch 0)];                              (* 1: d = {"a": schema.int} cell 1 *)
    OLeaf cls_dict;                                    (* 2: schema.dict           pool 1 *)
    op_decl_dict 1 1 true;                             (* 3: schema.dict(d)        pool 2 *)
    op_add 2 2 true;                                   (* 4: s + s                 pool 3 *)
    ONew [(0, IAtom 100)];                             (* 5: keys = ["a"]                 *)
    op_make_required 3 (ICon 7) 4 true;                (* 6: make_required(t,keys) pool 4 *)
    caller_mutates 1 (DAppend (101, ISch 0));          (* 7: d["b"] = schema.int          *)
    caller_mutates 7 DClear;                           (* 8: keys.clear()                 *)
    op_validate 4 (ICon 1);                            (* 9                               *)
    op_getitem 4 100;                                  (* 10: r["a"] is pool 0            *)
    op_refine 4 n_value 7 false;                       (* 11: a refinement that raises    *)
    caller_mutates 1 (DDelete 0%nat) ].                (* 12: del d["a"]                  *)

Example ex_history_pool :
  length (pool (after sites_repo ex_history 13 empty_state)) = 5%nat.
Proof. vm_compute. reflexivity. Qed.

Example ex_history_getitem :
  snd (step sites_repo (op_getitem 4 100) (after sites_repo ex_history 10 empty_state)) = RSchema 0.
Proof. vm_compute. reflexivity. Qed.

Example ex_history_trace_valid :
  forallb (fun o => match o with Some _ => true | None => false end)
          (trace sites_repo case_fuel ex_history empty_state) = true.
Proof. vm_compute. reflexivity. Qed.

(* the caller's dict really changed while the schemas did not *)
Example ex_history_caller_changed :
  den 5 (after sites_repo ex_history 13 empty_state) (ICon 1)
  <> den 5 (after sites_repo ex_history 7 empty_state) (ICon 1).
Proof. vm_compute. discriminate. Qed.

Example ex_history_frame :
  denote 12 (after sites_repo ex_history 13 empty_state) 4
  = denote 12 (after sites_repo ex_history 7 empty_state) 4.
Proof. apply history_frame; [reflexivity | reflexivity | lia | vm_compute; lia]. Qed.

(* replay determinism between two DIFFERENT states: the same declaration after unrelated
   work (different cell numbers would make the op ill-formed, so the unrelated work comes
   after the arguments were built) *)
Definition ex_A : state := after sites_repo ex_history 3 empty_state.
Definition ex_B : state := after sites_repo ex_history 13 empty_state.
Example ex_replay :
  forall f, outcome sites_repo (op_refine 1 n_value 7 true) ex_A f
          = outcome sites_repo (op_refine 1 n_value 7 true) ex_B f.
Proof.
  apply replay_deterministic; try reflexivity.
  - intros a [<- | [<- | []]] f.
    + symmetry. apply (history_frame sites_repo eq_refl ex_history empty_state eq_refl 3 13 1); [lia | vm_compute; lia].
    + destruct f; reflexivity.
  - vm_compute. discriminate.
  - vm_compute. discriminate.
Qed.
