(* C12 - Substitution fails only with SubstitutionError and is idempotent.
   Only statements here; proofs are in proofs/SubstClean.v. *)
Require Import D42.Prelude D42.Value D42.Regex D42.Schema D42.Validate D42.Conforms
               D42.FromNative D42.Substitute D42.Agree.
From Coq Require Import PrimFloat.
Require Import D42P.SubstClean D42P.SubstIdem.

(* For every well-formed schema and EVERY value - conforming or not, convertible or not,
   with `...`/Nil placeholders or opaque objects anywhere - substitution returns a schema
   or fails with SubstitutionError: never another exception, never DeclarationError.
   ([clean r] is: r = Ok _ or r = Err SubstErr.) *)
Theorem subst_only_substerr :
  forall s, wf s = true -> forall v, clean (substitute s v).
Proof. exact subst_clean_lemma. Qed.
Print Assumptions subst_only_substerr.

Corollary subst_never_raises :
  forall s v e, wf s = true -> substitute s v <> Raise e.
Proof.
  intros s v e Hwf H. pose proof (subst_clean_lemma s Hwf v) as Hc. rewrite H in Hc. exact Hc.
Qed.

Corollary subst_never_declerr :
  forall s v, wf s = true -> substitute s v <> Err DeclErr.
Proof.
  intros s v Hwf H. pose proof (subst_clean_lemma s Hwf v) as Hc. rewrite H in Hc. exact Hc.
Qed.

(* The well-formedness hypothesis is needed: a schema with a `...` marker in the middle of
   its element list (produced only by substituting a value with a placeholder in the
   middle, known finding F22) makes the faithful model raise AttributeError. *)
Open Scope N_scope.
Example ill_formed_raises :
  substitute (SList (Some [Some SNone; None; Some SNone]) None None None None)
             (VList [VNone; VNone; VNone]) = Raise AttributeError.
Proof. vm_compute. reflexivity. Qed.

(* Idempotence: substituting the same plain value (NaN included since the repair of F10; dict keys pairwise distinct, as in
   any Python dict) into the result again succeeds and returns the SAME schema (Leibniz-equal,
   hence equal under schema ==); the partial validator accepts the value at every path.  This
   holds for every well-formed schema, including the choice points where "the result accepts
   v" fails (F20/F25). *)
Theorem subst_idempotent :
  forall s v s', wf s = true -> plain v = true -> vwf v = true ->
                 substitute s v = Ok s' -> substitute s' v = Ok s'.
Proof.
  intros s v s' Hwf Hp Hv Hs. exact (proj2 (subst_idem_lemma s Hwf v s' Hp Hv Hs)).
Qed.
Print Assumptions subst_idempotent.

Theorem subst_result_revalidates :
  forall s v s', wf s = true -> plain v = true -> vwf v = true ->
                 substitute s v = Ok s' -> forall p, validate Subst s' p v = [].
Proof.
  intros s v s' Hwf Hp Hv Hs. exact (proj1 (subst_idem_lemma s Hwf v s' Hp Hv Hs)).
Qed.
Print Assumptions subst_result_revalidates.

(* NaN is no longer an exception (F10 was repaired: a value declared as nan is matched by nan): *)
Example idempotent_for_nan :
  match substitute (SFloat None None None None) (VFloat PrimFloat.nan) with
  | Ok s' => match substitute s' (VFloat PrimFloat.nan) with Ok s'' => true | _ => false end
  | _ => false end = true.
Proof. vm_compute. reflexivity. Qed.

(* "Never returns a schema that accepts nothing or cannot be generated from" is decided per
   run on /repo (harness/props/c12.py): when every sub-schema of S generates accepted values,
   so must S % v.  In the model it follows from C04's subst_pins/C05's subst_narrows only
   together with C01's [sat], which substitution need not preserve for unsatisfiable optional
   members (DESIGN 6, C12). *)

(* non-vacuity *)
Example ex_err : substitute (SInt None None None) (VStr [97]) = Err SubstErr.
Proof. vm_compute. reflexivity. Qed.
Example ex_unconvertible :
  substitute (SList None None None None None) (VList [VInt 1%Z; VOther 3]) = Err SubstErr.
Proof. vm_compute. reflexivity. Qed.
Example ex_idempotent_instance :
  let s := SList (Some [None; Some (SInt None None None); None]) None None None None in
  let v := VList [VStr [97]; VInt 5%Z] in
  match substitute s v with Ok s' => match substitute s' v with Ok s'' => true | _ => false end | _ => false end = true.
Proof. vm_compute. reflexivity. Qed.
