(* C12 - Substitution fails only with SubstitutionError and is idempotent.
   Only statements here; proofs are in proofs/SubstClean.v. *)
Require Import D42.Prelude D42.Value D42.Regex D42.Schema D42.Validate D42.Conforms
               D42.FromNative D42.Substitute D42.Agree.
From Coq Require Import PrimFloat.
Require Import D42P.SubstClean D42P.SubstIdem.

(* For every well-formed schema and EVERY value - conforming or not, convertible or not,
   with `...`/Nil placeholders or opaque objects anywhere - substitution returns a schema
   or fails with SubstitutionError: never another exception, never DeclarationError.
   ([clean r] is: r = Ok _ or r = Err SubstErr.) *)
Theorem subst_only_substerr :
  forall s, wf s = true -> forall v, clean (substitute s v).
Proof. exact subst_clean_lemma. Qed.
Print Assumptions subst_only_substerr.

Corollary subst_never_raises :
  forall s v e, wf s = true -> substitute s v <> Raise e.
Proof.
  intros s v e Hwf H. pose proof (subst_clean_lemma s Hwf v) as Hc. rewrite H in Hc. exact Hc.
Qed.

Corollary subst_never_declerr :
  forall s v, wf s = true -> substitute s v <> Err DeclErr.
Proof.
  intros s v Hwf H. pose proof (subst_clean_lemma s Hwf v) as Hc. rewrite H in Hc. exact Hc.
Qed.

(* The well-formedness hypothesis is needed: a schema with a `...` marker in the middle of
   its element list (produced only by substituting a value with a placeholder in the
   middle, known finding F22) makes the faithful model raise AttributeError. *)
Open Scope N_scope.
Example ill_formed_raises :
  substitute (SList (Some [Some SNone; None; Some SNone]) None None None None)
             (VList [VNone; VNone; VNone]) = Raise AttributeError.
Proof. vm_compute. reflexivity. Qed.

(* Idempotence: substituting the same plain value (NaN included since the repair of F10; dict keys pairwise distinct, as in
   any Python dict) into the result again succeeds and returns the SAME schema (Leibniz-equal,
   hence equal under schema ==); the partial validator accepts the value at every path.  This
   holds for every well-formed schema, including the choice points where "the result accepts
   v" fails (F20/F25). *)
Theorem subst_idempotent :
  forall s v s', wf s = true -> plain v = true -> vwf v = true ->
                 substitute s v = Ok s' -> substitute s' v = Ok s'.
Proof.
  intros s v s' Hwf Hp Hv Hs. exact (proj2 (subst_idem_lemma s Hwf v s' Hp Hv Hs)).
Qed.
Print Assumptions subst_idempotent.

Theorem subst_result_revalidates :
  forall s v s', wf s = true -> plain v = true -> vwf v = true ->
                 substitute s v = Ok s' -> forall p, validate Subst s' p v = [].
Proof.
  intros s v s' Hwf Hp Hv Hs. exact (proj1 (subst_idem_lemma s Hwf v s' Hp Hv Hs)).
Qed.
Print Assumptions subst_result_revalidates.

(* NaN is no longer an exception (F10 was repaired: a value declared as nan is matched by nan): *)
Example idempotent_for_nan :
  match substitute (SFloat None None None None) (VFloat PrimFloat.nan) with
  | Ok s' => match substitute s' (VFloat PrimFloat.nan) with Ok s'' => true | _ => false end
  | _ => false end = true.
Proof. vm_compute. reflexivity. Qed.

(* "Never returns a schema that accepts nothing or cannot be generated from": proved at the end of
   this file (subst_preserves_sat, subst_result_can_be_generated_from) under [hsat], a hypothesis on the
   ORIGINAL schema about what substitution leaves untouched; on /repo the clause is also decided per run
   (harness/props/c12.py). *)

(* non-vacuity *)
Example ex_err : substitute (SInt None None None) (VStr [97]) = Err SubstErr.
Proof. vm_compute. reflexivity. Qed.
Example ex_unconvertible :
  substitute (SList None None None None None) (VList [VInt 1%Z; VOther 3]) = Err SubstErr.
Proof. vm_compute. reflexivity. Qed.
Example ex_idempotent_instance :
  let s := SList (Some [None; Some (SInt None None None); None]) None None None None in
  let v := VList [VStr [97]; VInt 5%Z] in
  match substitute s v with Ok s' => match substitute s' v with Ok s'' => true | _ => false end | _ => false end = true.
Proof. vm_compute. reflexivity. Qed.

(* ===== to append to /verif/coq/props/C12.v =====
   (replaces the closing remark "Never returns a schema that accepts nothing or cannot be
   generated from is decided per run ... which substitution need not preserve for
   unsatisfiable optional members": that gap is now closed by [hsat], theories/HSat.v.)
   Statements only; proofs are in proofs/SubstSat.v. *)
From Coq Require Import Permutation.
Require Import D42.PyRandom D42.Generate D42.Sat D42.SatB D42.HSat.
Require Import D42P.SatBSpec D42P.SubstSat.
Open Scope N_scope.

(* The result of substituting a plain value into a well-formed schema is well-formed. *)
Theorem subst_result_wf :
  forall s, wf s = true -> forall v s', plain v = true -> vwf v = true ->
            substitute s v = Ok s' -> wf s' = true.
Proof. exact subst_wf_lemma. Qed.
Print Assumptions subst_result_wf.

(* Substitution of a plain value never returns a schema that cannot be generated from:
   the result is hereditarily satisfiable within the generator's reach ([sat], the
   hypothesis of C01's theorem) whenever the ORIGINAL schema is [hsat] (theories/HSat.v):
   what substitution leaves untouched - a declared float value, the members a dict value
   does not mention, optional ones included below the top - is satisfiable.  Everything
   substitution pins needs no hypothesis: the value that passed validation is its own witness
   (in particular a str with a pattern gets a fixed value: [re_total] is not needed). *)
Theorem subst_preserves_sat :
  forall w s, wf s = true -> hsat w s ->
  forall v s', plain v = true -> vwf v = true -> substitute s v = Ok s' -> sat w s'.
Proof. exact subst_sat_lemma. Qed.
Print Assumptions subst_preserves_sat.

(* ... hence (with C01's gen_sound_lemma) the generator returns a conforming value from the
   result, on EVERY tape *)
Theorem subst_result_can_be_generated_from :
  forall w s v s', world_ok w -> wf s = true -> hsat w s -> plain v = true -> vwf v = true ->
  substitute s v = Ok s' ->
  forall t, exists g t', gen w s' t = Ok (g, t') /\ conforms s' g.
Proof. exact subst_result_generates. Qed.
Print Assumptions subst_result_can_be_generated_from.

(* [hsat] is decidable ([hsatb]); without optional dict members [sat] itself is enough *)
Theorem hsatb_sound : forall w s, wf s = true -> hsatb w s = true -> hsat w s.
Proof. exact hsatb_sound_lemma. Qed.
Theorem subst_preserves_sat_without_optional :
  forall w s, wf s = true -> opt_free s = true -> sat w s ->
  forall v s', plain v = true -> vwf v = true -> substitute s v = Ok s' -> sat w s'.
Proof. exact subst_sat_opt_free. Qed.
Print Assumptions subst_preserves_sat_without_optional.

(* ---- non-vacuity ---- *)
Definition w12 : world := mk_world 0x886313e13b8a43729b900c9aee199e5d 0 738000 (fun l => l).
Lemma w12_ok : world_ok w12.
Proof. split; [vm_compute; reflexivity | intros l; apply Permutation_refl]. Qed.

(* {"a": int.min(0).max(10), optional "b": str.regex("[a-c]+") , "c": [int, ...]} % {"a": 5, "c": [1, 2]} *)
Definition ex12_s : schema :=
  SDict (Some [ (KStr [97], Some (SInt None (Some (IInt 0%Z)) (Some (IInt 10%Z))), false);
                (KStr [98], Some (SStr None None None None None None
                                       (Some ([], [RRepeat false 1 None [RIn false [CRange 97 99]]]))), true);
                (KStr [99], Some (SList (Some [Some (SInt None None None); None]) None None None None), false) ]).
Definition ex12_v : value :=
  VDict [ (KStr [97], VInt 5%Z); (KStr [99], VList [VInt 1%Z; VInt 2%Z]) ].

Example ex12_generates :
  exists s', substitute ex12_s ex12_v = Ok s' /\
             forall t, exists g t', gen w12 s' t = Ok (g, t') /\ conforms s' g.
Proof.
  destruct (substitute ex12_s ex12_v) as [s'| |] eqn:E; try (vm_compute in E; discriminate).
  exists s'. split; [reflexivity|].
  apply (subst_result_can_be_generated_from w12 ex12_s ex12_v s' w12_ok); auto;
    try (vm_compute; reflexivity).
  apply hsatb_sound; vm_compute; reflexivity.
Qed.
Example ex12_generated_value :
  match substitute ex12_s ex12_v with
  | Ok s' => match gen w12 s' [] with Ok (g, _) => verdict s' g && verdict ex12_s g | _ => false end
  | _ => false end = true.
Proof. vm_compute. reflexivity. Qed.

(* The hypothesis is needed, and [sat] of the original is NOT enough (this is why the clause was
   only decided per run before): an OPTIONAL member may hide an unsatisfiable required
   sub-member; mentioning the member makes it required and keeps the sub-member.
   {optional "a": {"b": int.min(1).max(0), "c": int}} % {"a": {"c": 1}} *)
Definition ex12_bad : schema :=
  SDict (Some [ (KStr [97],
                 Some (SDict (Some [ (KStr [98], Some (SInt None (Some (IInt 1%Z)) (Some (IInt 0%Z))), false);
                                     (KStr [99], Some (SInt None None None), false) ])), true) ]).
Definition ex12_bad_v : value := VDict [ (KStr [97], VDict [ (KStr [99], VInt 1%Z) ]) ].
Example sat_alone_is_not_preserved :
  wf ex12_bad = true /\ sat w12 ex12_bad /\ hsatb w12 ex12_bad = false /\
  exists s', substitute ex12_bad ex12_bad_v = Ok s' /\ ~ sat w12 s' /\
             forall t, exists e, gen w12 s' t = Raise e.
Proof.
  split; [vm_compute; reflexivity|].
  split; [apply satb_sound_lemma; vm_compute; reflexivity|].
  split; [vm_compute; reflexivity|].
  destruct (substitute ex12_bad ex12_bad_v) as [s'| |] eqn:E; try (vm_compute in E; discriminate).
  exists s'. split; [reflexivity|].
  vm_compute in E. inversion E; subst s'; clear E.
  split.
  - intros H. apply satb_complete_lemma in H; [vm_compute in H; discriminate | vm_compute; reflexivity].
  - intros t. eexists. vm_compute. reflexivity.
Qed.

(* Chains of substitutions, any length: ((S % v1) % v2) ... % vn with plain values ends in a
   schema or in SubstitutionError - never another exception at ANY step, although every step
   after the first runs on a schema the substitutor itself produced; and when the chain
   succeeds, substituting its last value once more changes nothing (idempotence at the end of
   a chain).  Induction over the list of values, [subst_result_wf] carries [wf] along. *)
Definition chain (s : schema) (vs : list value) : result schema :=
  fold_left (fun r v => bind r (fun s0 => substitute s0 v)) vs (Ok s).

Lemma chain_failed_stays : forall vs (r : result schema),
  is_ok r = false -> fold_left (fun r v => bind r (fun s0 => substitute s0 v)) vs r = r.
Proof.
  induction vs as [|v vs IH]; intros r Hr; cbn [fold_left]; [reflexivity|].
  destruct r as [a|k|e]; [discriminate Hr | exact (IH (Err k) eq_refl) | exact (IH (Raise e) eq_refl)].
Qed.

Theorem subst_chain_only_substerr :
  forall vs s, wf s = true -> forallb plain vs = true -> forallb vwf vs = true ->
  clean (chain s vs).
Proof.
  unfold chain. induction vs as [|v vs IH]; intros s Hwf Hpl Hvw; cbn [fold_left]; [exact I|].
  cbn [forallb] in Hpl, Hvw.
  apply andb_prop in Hpl. destruct Hpl as [Hp1 Hp2].
  apply andb_prop in Hvw. destruct Hvw as [Hv1 Hv2].
  cbn [bind]. pose proof (subst_clean_lemma s Hwf v) as Hc.
  destruct (substitute s v) as [s1|k|e] eqn:E.
  - exact (IH s1 (subst_wf_lemma s Hwf v s1 Hp1 Hv1 E) Hp2 Hv2).
  - rewrite (chain_failed_stays vs (Err k) eq_refl). exact Hc.
  - rewrite (chain_failed_stays vs (Raise e) eq_refl). exact Hc.
Qed.
Print Assumptions subst_chain_only_substerr.

Theorem subst_chain_idempotent_at_end :
  forall vs v s s', wf s = true ->
  forallb plain (vs ++ [v]) = true -> forallb vwf (vs ++ [v]) = true ->
  chain s (vs ++ [v]) = Ok s' -> chain s (vs ++ [v; v]) = Ok s'.
Proof.
  unfold chain. induction vs as [|u vs IH]; intros v s s' Hwf Hpl Hvw Hs.
  - cbn [app fold_left bind forallb] in *.
    apply andb_prop in Hpl. destruct Hpl as [Hp _]. apply andb_prop in Hvw. destruct Hvw as [Hv _].
    rewrite Hs. cbn [bind]. exact (subst_idempotent s v s' Hwf Hp Hv Hs).
  - cbn [app fold_left bind forallb] in *.
    apply andb_prop in Hpl. destruct Hpl as [Hp1 Hp2]. apply andb_prop in Hvw. destruct Hvw as [Hv1 Hv2].
    destruct (substitute s u) as [s1|k|e] eqn:E.
    + exact (IH v s1 s' (subst_wf_lemma s Hwf u s1 Hp1 Hv1 E) Hp2 Hv2 Hs).
    + rewrite (chain_failed_stays (vs ++ [v]) (Err k) eq_refl) in Hs. discriminate Hs.
    + rewrite (chain_failed_stays (vs ++ [v]) (Raise e) eq_refl) in Hs. discriminate Hs.
Qed.
Print Assumptions subst_chain_idempotent_at_end.
