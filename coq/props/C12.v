(* C12 - Substitution fails only with SubstitutionError and is idempotent.
   Only statements here; proofs are in proofs/SubstClean.v. *)
Require Import D42.Prelude D42.Value D42.Regex D42.Schema D42.Validate D42.Conforms
               D42.FromNative D42.Substitute D42.Agree.
Require Import D42P.SubstClean.

(* For every well-formed schema and EVERY value - conforming or not, convertible or not,
   with `...`/Nil placeholders or opaque objects anywhere - substitution returns a schema
   or fails with SubstitutionError: never another exception, never DeclarationError.
   ([clean r] is: r = Ok _ or r = Err SubstErr.) *)
Theorem subst_only_substerr :
  forall s, wf s = true -> forall v, clean (substitute s v).
Proof. exact subst_clean_lemma. Qed.
Print Assumptions subst_only_substerr.

Corollary subst_never_raises :
  forall s v e, wf s = true -> substitute s v <> Raise e.
Proof.
  intros s v e Hwf H. pose proof (subst_clean_lemma s Hwf v) as Hc. rewrite H in Hc. exact Hc.
Qed.

Corollary subst_never_declerr :
  forall s v, wf s = true -> substitute s v <> Err DeclErr.
Proof.
  intros s v Hwf H. pose proof (subst_clean_lemma s Hwf v) as Hc. rewrite H in Hc. exact Hc.
Qed.

(* The well-formedness hypothesis is needed: a schema with a `...` marker in the middle of
   its element list (produced only by substituting a value with a placeholder in the
   middle, known finding F22) makes the faithful model raise AttributeError. *)
Open Scope N_scope.
Example ill_formed_raises :
  substitute (SList (Some [Some SNone; None; Some SNone]) None None None None)
             (VList [VNone; VNone; VNone]) = Raise AttributeError.
Proof. vm_compute. reflexivity. Qed.

(* The second half of the property, as a statement: substituting the same plain, NaN-free
   value into the result again returns the same schema.  Not yet proved in Coq (see
   DESIGN.md); checked on every run by the oracle on the implementation and by the
   correspondence of both substitutions with the model. *)
Definition subst_idempotent_statement : Prop :=
  forall s v s', wf s = true -> plain v = true -> vwf v = true -> no_nan v = true ->
                 substitute s v = Ok s' -> substitute s' v = Ok s'.

(* non-vacuity *)
Example ex_err : substitute (SInt None None None) (VStr [97]) = Err SubstErr.
Proof. vm_compute. reflexivity. Qed.
Example ex_unconvertible :
  substitute (SList None None None None None) (VList [VInt 1%Z; VOther 3]) = Err SubstErr.
Proof. vm_compute. reflexivity. Qed.
Example ex_idempotent_instance :
  let s := SList (Some [None; Some (SInt None None None); None]) None None None None in
  let v := VList [VStr [97]; VInt 5%Z] in
  match substitute s v with Ok s' => match substitute s' v with Ok s'' => true | _ => false end | _ => false end = true.
Proof. vm_compute. reflexivity. Qed.
