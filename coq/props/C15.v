(* C15 - Schema equality is structural; schema == value means the value validates.
   Only statements here; the model is theories/SchemaEq.v, proofs are in proofs/SchemaEqSpec.v.

   schema_eqb s1 s2      s1 == s2 between two independently built schemas (Schema.__eq__ as
                         installed by d42.validation, Props.__eq__ with both loops, Python's
                         list/tuple/dict comparison, schema-vs-marker falling into validate)
   schema_neb            s1 != s2
   schema_eq_value s v   s == v for a non-schema v
   schema_eqb_self s     s == s on one object (identity shortcut inside containers)         *)
From Coq Require Import PrimFloat.
Require Import D42.Prelude D42.PyFloat D42.Value D42.Regex D42.Schema D42.Validate D42.Conforms
               D42.CaseLib D42.SchemaEq.
Require Import D42P.SchemaEqSpec.

(* ---- != is the negation of == (schemas and non-schema values) ---- *)
Theorem ne_is_negb : forall s1 s2, schema_neb s1 s2 = negb (schema_eqb s1 s2).
Proof. exact ne_is_negb_lemma. Qed.
Print Assumptions ne_is_negb.

Theorem ne_value_is_negb : forall s v, schema_ne_value s v = negb (schema_eq_value s v).
Proof. exact ne_value_is_negb_lemma. Qed.
Print Assumptions ne_value_is_negb.

(* ---- schema == non-schema value: exactly when the validator reports nothing; on
        well-formed schemas, exactly when the value conforms (C02) ---- *)
Theorem eq_value_is_validate :
  forall s v, schema_eq_value s v = true <-> validate Plain s [] v = [].
Proof. exact eq_value_is_validate_lemma. Qed.
Print Assumptions eq_value_is_validate.

Theorem eq_value_iff_conforms :
  forall s v, wf s = true -> (schema_eq_value s v = true <-> conforms s v).
Proof. exact eq_value_iff_conforms_lemma. Qed.
Print Assumptions eq_value_iff_conforms.

(* ---- symmetric, for ALL pairs of schemas (NaN parameters and markers included) ---- *)
Theorem eq_sym : forall s1 s2, schema_eqb s1 s2 = schema_eqb s2 s1.
Proof. exact eq_sym_lemma. Qed.
Print Assumptions eq_sym.

(* ---- reflexive, NaN parameters included (F10 is repaired: Props.__eq__ counts two NaN
        parameters as equal).
        keys_distinct is the representation invariant of key tables: a Python dict has
        pairwise distinct keys, the list of entries of the model could repeat one;
        date_params_ok: a date parameter is a date or a datetime (all schema.date(v) accepts). ---- *)
Theorem eq_refl :
  forall s, keys_distinct s = true -> date_params_ok s = true -> schema_eqb s s = true.
Proof. exact eq_refl_lemma. Qed.
Print Assumptions eq_refl.

(* NaN parameters: schema.float(nan) equals itself, its rebuild (also inside list([..]),
   list(..)), min(nan) == min(nan); unequal to float(1.0), float, and min(nan) != max(nan);
   it validates nan and nothing else *)
Example nan_params :
  schema_eqb ex_float_nan ex_float_nan = true /\ schema_eqb_self ex_float_nan = true /\
  schema_eqb (SFloat None (Some fnan) None None) (SFloat None (Some fnan) None None) = true /\
  schema_eqb ex_float_nan (SFloat (Some (mkf false 1%Z 0%Z)) None None None) = false /\
  schema_eqb (SFloat (Some (mkf false 1%Z 0%Z)) None None None) ex_float_nan = false /\
  schema_eqb ex_float_nan (SFloat None None None None) = false /\
  schema_eqb (SFloat None (Some fnan) None None) (SFloat None None (Some fnan) None) = false /\
  schema_eqb (SList (Some [Some ex_float_nan]) None None None None)
             (SList (Some [Some ex_float_nan]) None None None None) = true /\
  schema_eqb (SList None (Some ex_float_nan) None None None)
             (SList None (Some ex_float_nan) None None None) = true /\
  verdict ex_float_nan (VFloat fnan) = true /\ verdict ex_float_nan (VFloat (mkf false 1%Z 0%Z)) = false.
Proof. exact nan_params_lemma. Qed.

(* the same object compared with itself is at least as equal (identity shortcut of
   list/tuple/dict comparison) *)
Theorem eq_self_weaker : forall s, schema_eqb s s = true -> schema_eqb_self s = true.
Proof. exact eq_self_lemma. Qed.
Print Assumptions eq_self_weaker.

(* ---- two independent builds of one declaration (identical parameters: floats bitwise,
        bool and int literals kept apart, patterns by text, keys in the same order) ---- *)
Theorem rebuild_equal :
  forall s s', schema_same s s' = true -> keys_distinct s = true -> date_params_ok s = true ->
               schema_eqb s s' = true.
Proof. exact rebuild_equal_lemma. Qed.
Print Assumptions rebuild_equal.

(* ---- equal schemas give identical verdicts on EVERY value, unless a marker (`...`, absent
        prop) faces a sub-schema that validates it (finding F19).  [parse]: the parse tree
        stored next to a pattern is a function of the pattern text (re's parser). ---- *)
Theorem eq_same_verdicts :
  forall parse s1 s2,
    pats_from parse s1 -> pats_from parse s2 ->
    marker_free s1 = true -> marker_free s2 = true ->
    schema_eqb s1 s2 = true -> forall v, verdict s1 v = verdict s2 v.
Proof. exact eq_same_verdicts_lemma. Qed.
Print Assumptions eq_same_verdicts.

(* the same, read as discrimination: a variant that some value tells apart is unequal *)
Theorem discriminated_unequal :
  forall parse s1 s2 v,
    pats_from parse s1 -> pats_from parse s2 ->
    marker_free s1 = true -> marker_free s2 = true ->
    verdict s1 v <> verdict s2 v -> schema_eqb s1 s2 = false.
Proof. exact discriminated_unequal_lemma. Qed.
Print Assumptions discriminated_unequal.

(* schema.list([schema.any]) == schema.list([...]) although only the second accepts []
   (witnesses ex_list_any, ex_list_ell, ex_list_alias are defined in proofs/SchemaEqSpec.v) *)

Theorem eq_same_verdicts_refuted :
  exists s1 s2 v, wf s1 = true /\ wf s2 = true /\ date_params_ok s1 = true /\ date_params_ok s2 = true /\
                  schema_eqb s1 s2 = true /\ verdict s1 v = false /\ verdict s2 v = true.
Proof. exact eq_same_verdicts_refuted_lemma. Qed.
Print Assumptions eq_same_verdicts_refuted.

(* ---- transitive under the same hypothesis; without it: [any] == [...] == [alias x any],
        but [any] != [alias x any] (F19) ---- *)
Theorem eq_trans :
  forall s1 s2 s3,
    marker_free s1 = true -> marker_free s2 = true -> marker_free s3 = true ->
    schema_eqb s1 s2 = true -> schema_eqb s2 s3 = true -> schema_eqb s1 s3 = true.
Proof. exact eq_trans_lemma. Qed.
Print Assumptions eq_trans.

Theorem eq_trans_refuted :
  exists s1 s2 s3, wf s1 = true /\ wf s2 = true /\ wf s3 = true /\
                   schema_eqb s1 s2 = true /\ schema_eqb s2 s3 = true /\ schema_eqb s1 s3 = false.
Proof. exact eq_trans_refuted_lemma. Qed.
Print Assumptions eq_trans_refuted.

(* ================= non-vacuity ================= *)
Open Scope N_scope.
(* the excluded region is exactly where the witnesses live *)
Example ex_any_not_marker_free : marker_free ex_list_any = false /\ marker_free ex_list_alias = false.
Proof. vm_compute. auto. Qed.
Example ex_ell_marker_free : marker_free ex_list_ell = true.
Proof. vm_compute. reflexivity. Qed.

(* an ordinary nested schema (dict with optional key, relaxed entry, element lists with
   markers, typed list, any, alias, custom, float bounds, pattern) satisfies every hypothesis;
   `any` as a dict value, as an alternative and under an alias is allowed *)
Definition ex_parse (t : pystr) : list re := if str_eqb t [97] then [RLit 97] else [].
Definition ex_a : schema :=
  SDict (Some [ (KStr [97], Some (SList (Some [None; Some (SInt None (Some (IInt 1%Z)) None); None])
                                        None None None None), false);
                (KStr [98], Some (SAny (Some [SNone; SStr None None None None (Some [120;121]) None (Some ([97], [RLit 97]))])), true);
                (KInt 1%Z, Some (SList None (Some (SFloat (Some fzero) None (Some (mkf false 3%Z (-1)%Z)) None)) (Some (IInt 1%Z)) None None), false);
                (KStr [99], Some (SAny None), false);
                (KStr [100], Some (SAlias (Some [110]) (SCustom (SAny (Some [SAny None; SBool None])))), false);
                (KEll, None, false) ]).
(* the same declaration written differently: other key order, True for 1, -0.0 for 0.0 *)
Definition ex_b : schema :=
  SDict (Some [ (KEll, None, false);
                (KStr [100], Some (SAlias (Some [110]) (SCustom (SAny (Some [SAny None; SBool None])))), false);
                (KStr [99], Some (SAny None), false);
                (KInt 1%Z, Some (SList None (Some (SFloat (Some fnzero) None (Some (mkf false 3%Z (-1)%Z)) None)) (Some (IBool true)) None None), false);
                (KStr [98], Some (SAny (Some [SNone; SStr None None None None (Some [120;121]) None (Some ([97], [RLit 97]))])), true);
                (KStr [97], Some (SList (Some [None; Some (SInt None (Some (IBool true)) None); None])
                                        None None None None), false) ]).
(* a single-parameter variant: the optional flag of key "b" *)
Definition ex_c : schema :=
  SDict (Some [ (KStr [97], Some (SList (Some [None; Some (SInt None (Some (IInt 1%Z)) None); None])
                                        None None None None), false);
                (KStr [98], Some (SAny (Some [SNone; SStr None None None None (Some [120;121]) None (Some ([97], [RLit 97]))])), false);
                (KInt 1%Z, Some (SList None (Some (SFloat (Some fzero) None (Some (mkf false 3%Z (-1)%Z)) None)) (Some (IInt 1%Z)) None None), false);
                (KStr [99], Some (SAny None), false);
                (KStr [100], Some (SAlias (Some [110]) (SCustom (SAny (Some [SAny None; SBool None])))), false);
                (KEll, None, false) ]).

Example ex_hypotheses :
  wf ex_a = true /\ marker_free ex_a = true /\ date_params_ok ex_a = true /\ keys_distinct ex_a = true /\
  wf ex_b = true /\ marker_free ex_b = true /\ date_params_ok ex_b = true /\ keys_distinct ex_b = true /\
  marker_free ex_c = true.
Proof. vm_compute. auto 12. Qed.
Example ex_pats : pats_from ex_parse ex_a /\ pats_from ex_parse ex_b /\ pats_from ex_parse ex_c.
Proof. vm_compute. auto 30. Qed.
Example ex_equal : schema_eqb ex_a ex_b = true /\ schema_eqb ex_b ex_a = true /\ schema_same ex_a ex_b = false.
Proof. vm_compute. auto. Qed.
Example ex_variant_unequal :
  schema_eqb ex_a ex_c = false /\
  verdict ex_a (VDict [(KStr [97], VList [VInt 4%Z]); (KInt 1%Z, VList [VFloat fzero]); (KStr [99], VNone); (KStr [100], VEllipsis)]) = true /\
  verdict ex_c (VDict [(KStr [97], VList [VInt 4%Z]); (KInt 1%Z, VList [VFloat fzero]); (KStr [99], VNone); (KStr [100], VEllipsis)]) = false.
Proof. vm_compute. auto. Qed.
Example ex_refl : schema_eqb ex_a ex_a = true /\ schema_eqb_self ex_a = true.
Proof. vm_compute. auto. Qed.
(* the two side hypotheses are not decoration: a key table that repeats a key (no Python
   dict does) is not equal to itself in the model, and two pattern entries with the same
   text but different trees (re's parser never produces that) are equal with different verdicts *)
Example ex_needs_keys_distinct :
  let s := SDict (Some [(KStr [97], Some (SInt None None None), false); (KStr [97], Some SNone, false)]) in
  date_params_ok s = true /\ keys_distinct s = false /\ schema_eqb s s = false.
Proof. vm_compute. auto. Qed.
Example ex_needs_parse :
  let s1 := SStr None None None None None None (Some ([97], [RLit 97])) in
  let s2 := SStr None None None None None None (Some ([97], [RLit 98])) in
  schema_eqb s1 s2 = true /\ verdict s1 (VStr [97]) = true /\ verdict s2 (VStr [97]) = false.
Proof. vm_compute. auto. Qed.
(* a date parameter that is neither a date nor a datetime cannot be declared; the model's
   date comparison answers False for it, hence date_params_ok *)
Example ex_needs_date_ok :
  date_params_ok (SDate (Some VNone)) = false /\ schema_eqb (SDate (Some VNone)) (SDate (Some VNone)) = false.
Proof. vm_compute. auto. Qed.
