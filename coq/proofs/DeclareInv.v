(* C10 (second half) : the invariant of everything the DSL builds, its preservation by every
   declaration call, and self-consistency: a schema carrying a fixed value accepts it. *)
From Coq Require Import PrimFloat SpecFloat FloatOps FloatAxioms.
Require Import D42.Prelude D42.PyFloat D42.Value D42.Regex D42.Schema D42.Validate D42.Conforms
               D42.Declare.
Require Import D42P.ListLemmas D42P.ScalarSpec D42P.ContainerSpec D42P.FloatFacts D42P.DeclareSpec.
Open Scope Z_scope.

(* ------------------------------------------------------------------------------------ *)
(* small facts                                                                           *)
(* ------------------------------------------------------------------------------------ *)
Lemma dkey_eqb_eq a b : key_eqb a b = true <-> a = b.
Proof.
  destruct a, b; simpl; try (split; [discriminate | intros H; inversion H]); try tauto.
  - rewrite str_eqb_eq. split; [intros ->; reflexivity | intros H; inversion H; reflexivity].
  - rewrite Z.eqb_eq. split; [intros ->; reflexivity | intros H; inversion H; reflexivity].
  - rewrite bytes_eqb_eq. split; [intros ->; reflexivity | intros H; inversion H; reflexivity].
  - rewrite N.eqb_eq. split; [intros ->; reflexivity | intros H; inversion H; reflexivity].
Qed.

Lemma forallb_id_map' {A} (f : A -> bool) l :
  forallb (fun x => x) (map f l) = forallb f l.
Proof. induction l as [|a r IH]; simpl; [reflexivity|]. rewrite IH. reflexivity. Qed.

Ltac rw_conds :=
  repeat match goal with
         | H : ?c = false |- context[?c] => rewrite H
         | H : ?c = true |- context[?c] => rewrite H
         end.

Ltac fin :=
  let E := fresh "E" in
  intros E; try discriminate E; inversion E; subst; clear E;
  cbn [dsl_inv opt_all is_none is_some negb andb orb len_group_ok option_map] in *;
  bdestr;
  repeat match goal with
         | H : is_some ?x = false |- _ => is_var x; destruct x; [discriminate H | clear H]
         | H : is_some ?x = true |- _ => is_var x; destruct x; [clear H | discriminate H]
         end;
  cbn [dsl_inv opt_all is_none is_some negb andb orb len_group_ok option_map] in *;
  rewrite ?andb_true_r in *;
  bdestr; rw_conds; cbn [negb andb orb]; auto.

Ltac nones :=
  repeat match goal with
         | H : _ || _ = false |- _ => apply orb_false_iff in H; destruct H
         | H : is_some ?x = false |- _ => is_var x; destruct x; [discriminate H | clear H]
         end.
Ltac dall2 :=
  repeat (cbn [bind is_some is_none negb orb andb a_int a_float a_str a_pat a_ell a_nil a_rawstr option_map];
          rw_views; try dstep).

(* ------------------------------------------------------------------------------------ *)
(* the dict loop                                                                         *)
(* ------------------------------------------------------------------------------------ *)
Definition dents_ok (l : list dentry) : bool :=
  forallb entry_shape_ok l && nodup_keys (map de_key l) &&
  forallb (fun x => x) (map (fun e => match de_schema e with Some t => dsl_inv t | None => true end) l).

Lemma upsert_keys k s o l :
  map de_key (upsert k s o l) =
  if existsb (key_eqb k) (map de_key l) then map de_key l else map de_key l ++ [k].
Proof.
  induction l as [|e r IH]; cbn [upsert map existsb app]; [reflexivity|].
  destruct (key_eqb k (de_key e)) eqn:E; cbn [orb map de_key fst snd]; [reflexivity|].
  rewrite IH. destruct (existsb (key_eqb k) (map de_key r)); reflexivity.
Qed.

Lemma existsb_app' {A} (f : A -> bool) a b : existsb f (a ++ b) = existsb f a || existsb f b.
Proof. induction a as [|x r IH]; simpl; [reflexivity|]. rewrite IH, orb_assoc. reflexivity. Qed.

Lemma key_eqb_sym a b : key_eqb a b = key_eqb b a.
Proof.
  destruct (key_eqb a b) eqn:E1, (key_eqb b a) eqn:E2; auto.
  - apply dkey_eqb_eq in E1. subst. rewrite (proj2 (dkey_eqb_eq b b) eq_refl) in E2. discriminate.
  - apply dkey_eqb_eq in E2. subst. rewrite (proj2 (dkey_eqb_eq a a) eq_refl) in E1. discriminate.
Qed.

Lemma nodup_keys_snoc l k :
  nodup_keys l = true -> existsb (key_eqb k) l = false -> nodup_keys (l ++ [k]) = true.
Proof.
  induction l as [|x r IH]; cbn [nodup_keys app existsb]; intros Hn He; [reflexivity|].
  apply andb_true_iff in Hn as [Hx Hr]. apply orb_false_iff in He as [Hkx Hkr].
  apply andb_true_intro. split; [|apply IH; assumption].
  rewrite existsb_app'. cbn [existsb]. apply negb_true_iff in Hx. rewrite Hx.
  rewrite key_eqb_sym, Hkx. reflexivity.
Qed.

Lemma upsert_ok k s o l :
  dents_ok l = true -> entry_shape_ok (k, s, o) = true ->
  match s with Some t => dsl_inv t | None => true end = true ->
  dents_ok (upsert k s o l) = true.
Proof.
  unfold dents_ok. intros H Hs Hi. bdestr.
  rename H into Hshape, H1 into Hnd, H0 into Hinv.
  bsplit.
  - clear Hnd Hinv. induction l as [|e r IH]; cbn [upsert forallb].
    + rewrite Hs. reflexivity.
    + cbn [forallb] in Hshape. apply andb_true_iff in Hshape as [He Hr].
      destruct (key_eqb k (de_key e)) eqn:E; cbn [forallb].
      * apply dkey_eqb_eq in E. subst k. rewrite Hs, Hr. reflexivity.
      * rewrite He, (IH Hr). reflexivity.
  - rewrite upsert_keys. destruct (existsb (key_eqb k) (map de_key l)) eqn:E; [exact Hnd|].
    apply nodup_keys_snoc; assumption.
  - clear Hshape Hnd. induction l as [|e r IH]; cbn [upsert map forallb de_schema fst snd].
    + rewrite Hi. reflexivity.
    + cbn [map forallb] in Hinv. apply andb_true_iff in Hinv as [He Hr].
      destruct (key_eqb k (de_key e)); cbn [map forallb de_schema fst snd].
      * rewrite Hi. exact Hr.
      * rewrite He. apply IH. exact Hr.
Qed.

Definition item_inv (kx : dkey * arg) : bool :=
  negb (match fst kx with DOpt KEll => true | _ => false end) && arg_inv (snd kx).

Lemma dict_loop_inv items acc l :
  dents_ok acc = true -> forallb item_inv items = true ->
  dict_loop items acc = Ok l -> dents_ok l = true.
Proof.
  revert acc. induction items as [|[k a] r IH]; intros acc Hacc Hit; cbn [dict_loop].
  - intros E. inversion E. subst. exact Hacc.
  - cbn [forallb] in Hit. apply andb_true_iff in Hit as [Hka Hr].
    unfold item_inv in Hka. cbn [fst snd] in Hka. apply andb_true_iff in Hka as [Hk Ha].
    destruct (dkey_ell k || a_ell a) eqn:Ee.
    + destruct (dkey_ell k) eqn:Ek; cbn [negb]; [|discriminate].
      destruct (a_ell a) eqn:Ea; cbn [negb]; [|discriminate].
      apply IH; [|exact Hr]. apply upsert_ok; auto.
      destruct k as [[]|]; try discriminate Ek. reflexivity.
    + apply orb_false_iff in Ee as [Ek Ea].
      destruct a as [v|s| | |]; try discriminate.
      apply IH; [|exact Hr]. apply upsert_ok; auto.
      destruct k as [k0|k0]; cbn [dkey_key dkey_opt].
      * destruct k0; try reflexivity. discriminate Ek.
      * destruct k0; try reflexivity. discriminate Hk.
Qed.

Lemma a_dict_inv a items :
  arg_inv a = true -> a_dict a = Some items -> forallb item_inv items = true.
Proof.
  destruct a as [v| | | |d]; cbn [a_dict]; try discriminate.
  - destruct v; try discriminate. intros _ E. inversion E. subst. clear E.
    induction d as [|[k x] r IH]; cbn [map forallb]; [reflexivity|]. rewrite IH. reflexivity.
  - cbn [arg_inv]. intros H E. inversion E. subst. rewrite forallb_id_map' in H. exact H.
Qed.

(* ------------------------------------------------------------------------------------ *)
(* the element loop                                                                      *)
(* ------------------------------------------------------------------------------------ *)
Definition elems_inv (es : list (option schema)) : bool :=
  forallb (fun x => x) (map (fun o => match o with Some e => dsl_inv e | None => true end) es).

Lemma elems_loop_spec n idx l es :
  elems_loop n idx l = Ok es ->
  length es = length l /\ ell_positions_ok n idx es = true /\
  (forallb arg_inv l = true -> elems_inv es = true).
Proof.
  revert idx es. induction l as [|a r IH]; intros idx es; cbn [elems_loop].
  - intros E. inversion E. subst. repeat split; reflexivity.
  - destruct (elem_of_arg a) as [e|] eqn:Ea; [|discriminate].
    destruct (is_none e && negb (idx =? 0)%nat && negb (idx =? n - 1)%nat) eqn:Ec; [discriminate|].
    destruct (elems_loop n (S idx) r) as [es'| |] eqn:Er; cbn [bind]; try discriminate.
    intros E. inversion E. subst. clear E.
    destruct (IH _ _ Er) as (Hl & Hp & Hi). cbn [length]. split; [congruence|]. split.
    + cbn [ell_positions_ok]. rewrite Hp, andb_true_r.
      destruct e; cbn [is_some is_none negb orb] in *; [reflexivity|].
      destruct (idx =? 0)%nat; [reflexivity|]. destruct (idx =? n - 1)%nat; [reflexivity|].
      discriminate Ec.
    + cbn [forallb]. intros H. apply andb_true_iff in H as [Ha Hr].
      unfold elems_inv in *. cbn [map forallb]. rewrite (Hi Hr), andb_true_r.
      destruct a as [v|s| | |]; cbn [elem_of_arg] in Ea; try discriminate.
      * destruct v; try discriminate. inversion Ea. reflexivity.
      * inversion Ea. subst. exact Ha.
Qed.

Lemma a_list_inv a l : arg_inv a = true -> a_list a = Some l -> forallb arg_inv l = true.
Proof.
  destruct a as [v| | |l0|]; cbn [a_list]; try discriminate.
  - destruct v; try discriminate. intros _ E. inversion E. subst. clear E.
    induction l0 as [|x r IH]; cbn [map forallb]; auto.
  - cbn [arg_inv]. intros H E. inversion E. subst. rewrite forallb_id_map' in H. exact H.
Qed.

(* ------------------------------------------------------------------------------------ *)
(* any: flattening                                                                       *)
(* ------------------------------------------------------------------------------------ *)
Lemma flatten1_not_any s : is_any_some s = false -> flatten1 s = [s].
Proof. destruct s as [| | | | | | |[ts|]| | | | | |]; cbn; auto; discriminate. Qed.

Lemma flat_map_flatten_flat ts :
  forallb (fun t => negb (is_any_some t)) ts = true -> flat_map flatten1 ts = ts.
Proof.
  induction ts as [|t r IH]; cbn [forallb flat_map]; [reflexivity|].
  intros H. apply andb_true_iff in H as [Ht Hr]. apply negb_true_iff in Ht.
  rewrite (flatten1_not_any _ Ht), (IH Hr). reflexivity.
Qed.

Definition anys_ok (l : list schema) : bool :=
  forallb (fun t => negb (is_any_some t)) l && forallb (fun x => x) (map (fun t => dsl_inv t) l).

Lemma flatten1_inv s :
  dsl_inv s = true -> flatten1 s <> [] /\ anys_ok (flatten1 s) = true.
Proof.
  intros H.
  destruct (is_any_some s) eqn:E.
  - destruct s as [| | | | | | |[ts|]| | | | | |]; try discriminate E.
    cbn [dsl_inv] in H. bdestr. cbn [flatten1].
    rewrite (flat_map_flatten_flat _ H1). split.
    + destruct ts; [discriminate|discriminate].
    + unfold anys_ok. rewrite H1, H0. reflexivity.
  - rewrite (flatten1_not_any _ E). split; [discriminate|].
    unfold anys_ok. cbn [forallb map]. rewrite E, H. reflexivity.
Qed.

Lemma anys_ok_app a b : anys_ok a = true -> anys_ok b = true -> anys_ok (a ++ b) = true.
Proof.
  unfold anys_ok. intros Ha Hb. bdestr. rewrite map_app, !forallb_app.
  rewrite H, H0, H1, H2. reflexivity.
Qed.

Lemma flat_map_flatten_inv l :
  forallb (fun x => x) (map (fun t => dsl_inv t) l) = true -> l <> [] ->
  flat_map flatten1 l <> [] /\ anys_ok (flat_map flatten1 l) = true.
Proof.
  induction l as [|s r IH]; intros H Hne; [contradiction|].
  cbn [map forallb] in H. apply andb_true_iff in H as [Hs Hr].
  destruct (flatten1_inv s Hs) as [Hn Ho]. cbn [flat_map]. split.
  - destruct (flatten1 s); [contradiction | discriminate].
  - apply anys_ok_app; [exact Ho|].
    destruct r as [|s2 r2]; [reflexivity|]. apply IH; [exact Hr | discriminate].
Qed.

Lemma all_schemas_inv args l :
  args_inv args = true -> all_schemas args = Some l ->
  forallb (fun x => x) (map (fun t => dsl_inv t) l) = true /\ length l = length args.
Proof.
  revert l. induction args as [|a r IH]; intros l H E; cbn [all_schemas] in E.
  - inversion E. split; reflexivity.
  - destruct a as [|s| | |]; try discriminate.
    destruct (all_schemas r) as [r'|] eqn:Er; [|discriminate]. inversion E. subst. clear E.
    unfold args_inv in H. cbn [forallb arg_inv] in H. apply andb_true_iff in H as [Hs Hr].
    destruct (IH r' Hr eq_refl) as [Hi Hl]. cbn [map forallb length]. rewrite Hs, Hi. auto.
Qed.

(* ------------------------------------------------------------------------------------ *)
(* every successful declaration preserves the invariant                                  *)
(* ------------------------------------------------------------------------------------ *)
Lemma bare_inv k : dsl_inv (bare k) = true.
Proof. destruct k; reflexivity. Qed.

Lemma decl_inv_lemma m s args s' :
  dsl_inv s = true -> args_inv args = true -> decl m s args = Ok s' -> dsl_inv s' = true.
Proof.
  intros Hinv Hargs.
  destruct s; destruct m; cbn [decl]; try discriminate;
    unfold with1, with_len, len_args;
    destruct args as [|a [|b [|c r]]]; try discriminate.
  all: unfold args_inv in Hargs; cbn [forallb] in Hargs.
  (* scalars and str *)
  all: try (unfold bool_call, int_call, float_call, str_call, bytes_call, uuid_call, datetime_call,
            date_call; unfold_decl; unfold bind, option_map; dall2; fin; fail).
  - (* list call *)
    unfold list_call, dE.
    assert (Ha : arg_inv a = true) by (bdestr; assumption).
    destruct a as [v0|t0| |l0|]; cbn [a_list]; try discriminate.
    + destruct v0 as [| | | | | | | | |l0| | | |]; try discriminate.
      dall; try discriminate. destruct (elems_loop _ _ _) as [es'| |] eqn:El; cbn [bind]; try discriminate.
      destruct (two_ells es') eqn:E2; [discriminate|]. intros E; inversion E; subst; clear E. nones.
      destruct (elems_loop_spec _ _ _ _ El) as (Hl & Hp & Hi).
      cbn [dsl_inv is_some is_none negb andb len_group_ok orb].
      unfold elems_ok, list_lens_ok. cbn [opt_all]. rewrite map_length in Hl, Hp. rewrite Hl, Hp, E2.
      fold (elems_inv es'). rewrite Hi; [reflexivity|].
      apply (a_list_inv (AVal (VList l0))); auto.
    + dall; try discriminate. intros E; inversion E; subst; clear E. nones.
      cbn [dsl_inv is_some is_none negb andb len_group_ok orb]. exact Ha.
    + dall; try discriminate. destruct (elems_loop _ _ _) as [es'| |] eqn:El; cbn [bind]; try discriminate.
      destruct (two_ells es') eqn:E2; [discriminate|]. intros E; inversion E; subst; clear E. nones.
      destruct (elems_loop_spec _ _ _ _ El) as (Hl & Hp & Hi).
      cbn [dsl_inv is_some is_none negb andb len_group_ok orb].
      unfold elems_ok, list_lens_ok. cbn [opt_all]. rewrite Hl, Hp, E2.
      fold (elems_inv es'). rewrite Hi; [reflexivity|].
      apply (a_list_inv (AList l0)); auto.
  - (* list len, one argument *)
    unfold_decl. unfold bind. dall; fin; unfold list_lens_ok in *; cbn [opt_all] in *; bdestr; rw_conds;
      cbn [negb andb]; auto.
  - unfold_decl. unfold bind. dall; fin; unfold list_lens_ok in *; cbn [opt_all] in *; bdestr; rw_conds;
      cbn [negb andb]; auto.
  - (* dict *)
    unfold dict_call, dE. destruct (a_dict a) as [items|] eqn:Ea; [|discriminate].
    destruct ks as [k0|]; cbn [is_some is_none negb]; [discriminate|].
    destruct (dict_loop items []) as [l| |] eqn:El; cbn [bind]; try discriminate.
    intros E; inversion E; subst; clear E.
    assert (Hd : dents_ok l = true).
    { apply (dict_loop_inv items [] l); auto. apply (a_dict_inv a); auto. bdestr; assumption. }
    unfold dents_ok in Hd. cbn [dsl_inv]. exact Hd.
  - (* any *)
    unfold any_call, dE. destruct (all_schemas [a]) as [l|] eqn:Ea; [|discriminate].
    destruct ts as [t0|]; cbn [is_some is_none negb]; [discriminate|]. intros E; inversion E; subst; clear E.
    destruct (all_schemas_inv [a] l) as [Hi Hl]; auto.
    destruct (flat_map_flatten_inv l Hi) as [Hn Ho]; [destruct l; [discriminate Hl | discriminate]|].
    unfold anys_ok in Ho. cbn [dsl_inv]. destruct (flat_map flatten1 l); [contradiction|]. exact Ho.
  - unfold any_call, dE. destruct (all_schemas [a; b]) as [l|] eqn:Ea; [|discriminate].
    destruct ts as [t0|]; cbn [is_some is_none negb]; [discriminate|]. intros E; inversion E; subst; clear E.
    destruct (all_schemas_inv [a; b] l) as [Hi Hl]; auto.
    destruct (flat_map_flatten_inv l Hi) as [Hn Ho]; [destruct l; [discriminate Hl | discriminate]|].
    unfold anys_ok in Ho. cbn [dsl_inv]. destruct (flat_map flatten1 l); [contradiction|]. exact Ho.
  - unfold any_call, dE. destruct (all_schemas (a :: b :: c :: r)) as [l|] eqn:Ea; [|discriminate].
    destruct ts as [t0|]; cbn [is_some is_none negb]; [discriminate|]. intros E; inversion E; subst; clear E.
    destruct (all_schemas_inv (a :: b :: c :: r) l) as [Hi Hl]; auto.
    destruct (flat_map_flatten_inv l Hi) as [Hn Ho]; [destruct l; [discriminate Hl | discriminate]|].
    unfold anys_ok in Ho. cbn [dsl_inv]. destruct (flat_map flatten1 l); [contradiction|]. exact Ho.
Qed.

(* ------------------------------------------------------------------------------------ *)
(* self-consistency: a schema that carries a fixed value accepts it                      *)
(* ------------------------------------------------------------------------------------ *)
Lemma eqb_refl_not_nan f : is_nan f = false -> PrimFloat.eqb f f = true.
Proof.
  unfold is_nan, view. rewrite FloatAxioms.eqb_spec. unfold SFeqb, SFcompare.
  destruct (Prim2SF f) as [s|s| |s m e]; try discriminate; intros _.
  - reflexivity.
  - destruct s; reflexivity.
  - rewrite Z.compare_refl. destruct s; rewrite Pos.compare_cont_refl; reflexivity.
Qed.

Fixpoint fixed_elems (l : list (option schema)) : option (list value) :=
  match l with
  | [] => Some []
  | Some e :: r =>
      match fixed e, fixed_elems r with
      | Some v, Some vs => Some (v :: vs)
      | _, _ => None end
  | None :: _ => None
  end.

Lemma fixed_list es len mnl mxl :
  fixed (SList (Some es) None len mnl mxl) =
  match fixed_elems es with Some vs => Some (VList vs) | None => None end.
Proof.
  reflexivity.
Qed.

Lemma fixed_elems_some es vs :
  fixed_elems es = Some vs ->
  exists ss, es = map Some ss /\ Forall2 (fun s v => fixed s = Some v) ss vs.
Proof.
  revert vs. induction es as [|[e|] r IH]; intros vs; cbn [fixed_elems].
  - intros E. inversion E. exists []. split; [reflexivity | constructor].
  - destruct (fixed e) as [v|] eqn:Ef; [|discriminate].
    destruct (fixed_elems r) as [vs'|] eqn:Er; [|discriminate].
    intros E. inversion E. subst. destruct (IH vs' eq_refl) as (ss & Hs & HF).
    exists (e :: ss). split; [cbn [map]; congruence | constructor; assumption].
  - discriminate.
Qed.

Lemma first_ell_map_some {A} (ss : list A) : first_ell (map Some ss) = false.
Proof. destruct ss; reflexivity. Qed.
Lemma last_ell_map_some {A} (ss : list A) : last_ell (map Some ss) = false.
Proof.
  unfold last_ell. rewrite <- map_rev. destruct (rev ss); reflexivity.
Qed.
Lemma classify_map_some {A} (ss : list A) : classify (map Some ss) = FExact.
Proof.
  unfold classify. rewrite first_ell_map_some, last_ell_map_some, !andb_false_r. reflexivity.
Qed.
Lemma strip_map_some {A} (ss : list A) : strip (map Some ss) = ss.
Proof. unfold strip. induction ss as [|s r IH]; cbn; [reflexivity|]. f_equal. exact IH. Qed.

Lemma velems_fixed (ss : list schema) (vs : list value) :
  Forall2 (fun s v => forall p, validate Plain s p v = []) ss vs ->
  forall pre p, velems (map (validate Plain) ss) p (pre ++ vs) (length pre) = [].
Proof.
  induction 1 as [|s v ss vs Hsv HF IH]; intros pre p; cbn [map velems]; [reflexivity|].
  rewrite nth_error_app2 by lia. rewrite Nat.sub_diag. cbn [nth_error].
  rewrite Hsv. cbn [app].
  specialize (IH (pre ++ [v]) p). rewrite <- app_assoc in IH. cbn [app] in IH.
  rewrite app_length in IH. cbn [length] in IH. rewrite Nat.add_1_r in IH. exact IH.
Qed.

Lemma pat_search_modelled pt x : pat_search pt x = true -> searchb (snd pt) x = Some true.
Proof. unfold pat_search. destruct (searchb (snd pt) x) as [[]|]; auto; discriminate. Qed.

Lemma searchb_some_modelled p x b : searchb p x = Some b -> re_modelled p = true.
Proof. unfold searchb, re_modelled. destruct (search_rx p); [reflexivity | discriminate]. Qed.

Lemma py_eqb_refl_date v : isinst TDate v = true -> py_eqb v v = true.
Proof.
  destruct v; try discriminate; intros _; cbn [py_eqb].
  - rewrite Bool.eqb_reflx, Z.eqb_refl. reflexivity.
  - apply Z.eqb_refl.
Qed.

Ltac zb :=
  repeat match goal with
         | H : (_ <? _) = false |- _ => apply Z.ltb_ge in H
         | H : (_ =? _) = true |- _ => apply Z.eqb_eq in H
         end.

Definition self_ok (s : schema) : Prop :=
  dsl_inv s = true -> forall v, fixed s = Some v -> value_no_nan v = true ->
  (forall p, validate Plain s p v = []) /\ conforms s v.

Lemma fixed_self_lemma : forall s, self_ok s.
Proof.
  induction s as [ | val | val mn mx | val mn mx pr | val len mnl mxl al sub pat
                 | es ty len mnl mxl IHes IHty | ks IHks | ts IHts
                 | val | val | val | val | nm t IHt | t IHt ] using schema_ind';
    unfold self_ok; intros Hinv v Hfix Hnn.
  - (* none *)
    cbn [fixed] in Hfix. inversion Hfix. subst. split; [intros p; reflexivity | reflexivity].
  - (* bool *)
    destruct val as [b|]; [|discriminate]. cbn [fixed] in Hfix. inversion Hfix. subst.
    assert (C : conforms (SBool (Some b)) (VBool b)) by (exists b; split; reflexivity).
    split; [intros p; apply (v_bool_nil (Some b) p); exact C | exact C].
  - (* int *)
    destruct val as [i|]; [|discriminate]. cbn [fixed] in Hfix. inversion Hfix. subst.
    cbn [dsl_inv opt_all] in Hinv. bdestr.
    assert (C : conforms (SInt (Some i) mn mx) (of_intv i)).
    { exists (iz i). split; [destruct i as [z|[]]; reflexivity|]. split; [reflexivity|]. split.
      - destruct mn as [m|]; cbn [opt_holds opt_all] in *; auto. apply negb_true_iff in H. zb. lia.
      - destruct mx as [m|]; cbn [opt_holds opt_all] in *; auto. apply negb_true_iff in H0. zb. lia. }
    split; [intros p; apply (v_int_nil (Some i) mn mx p); exact C | exact C].
  - (* float *)
    destruct val as [f|]; [|discriminate]. cbn [fixed] in Hfix. inversion Hfix. subst.
    cbn [value_no_nan] in Hnn. apply negb_true_iff in Hnn.
    cbn [dsl_inv opt_all] in Hinv. bdestr.
    assert (C : conforms (SFloat (Some f) mn mx pr) (VFloat f)).
    { exists f. split; [reflexivity|]. split.
      - cbn [opt_holds]. apply eqb_true_value_ok. apply eqb_refl_not_nan. exact Hnn.
      - split.
        + destruct mn as [m|]; cbn [opt_holds opt_all] in *; auto. apply negb_true_iff in H. exact H.
        + destruct mx as [m|]; cbn [opt_holds opt_all] in *; auto. apply negb_true_iff in H1. exact H1. }
    split; [intros p; apply (v_float_nil (Some f) mn mx pr p); exact C | exact C].
  - (* str *)
    destruct val as [x|]; [|discriminate]. cbn [fixed] in Hfix. inversion Hfix. subst.
    cbn [dsl_inv opt_all] in Hinv. bdestr.
    assert (C : conforms (SStr (Some x) len mnl mxl al sub pat) (VStr x)).
    { exists x. split; [reflexivity|]. split; [reflexivity|]. split.
      - destruct pat as [pt|]; cbn [opt_holds opt_all] in *; auto. apply pat_search_modelled. assumption.
      - split.
        + unfold len_ok. repeat split.
          * destruct len as [k|]; cbn [opt_holds opt_all] in *; auto. apply Z.eqb_eq. assumption.
          * destruct mnl as [k|]; cbn [opt_holds opt_all] in *; auto. bdestr. zb. lia.
          * destruct mxl as [k|]; cbn [opt_holds opt_all] in *; auto. bdestr. zb. lia.
        + split.
          * destruct sub as [t|]; cbn [opt_holds opt_all] in *; auto.
          * destruct al as [a|]; cbn [opt_holds opt_all] in *; auto. apply forallb_Nmem. assumption. }
    split; [|exact C]. intros p. apply (v_str_nil (Some x) len mnl mxl al sub pat p); [|exact C].
    destruct pat as [[src tree]|]; cbn [pat_ok opt_all] in *; [|reflexivity].
    eapply searchb_some_modelled. apply (pat_search_modelled (src, tree)). eassumption.
  - (* list *)
    destruct es as [es'|]; [|discriminate]. destruct ty as [t|]; [discriminate|].
    rewrite fixed_list in Hfix. destruct (fixed_elems es') as [vs|] eqn:Ef; [|discriminate].
    inversion Hfix. subst v. clear Hfix.
    destruct (fixed_elems_some _ _ Ef) as (ss & -> & HF).
    specialize (IHes (map Some ss) eq_refl).
    cbn [dsl_inv is_some is_none negb andb] in Hinv. bdestr.
    match goal with H : forallb (fun x => x) (map _ (map Some ss)) = true |- _ => rename H into Hel end.
    match goal with H : list_lens_ok _ _ _ _ = true |- _ => rename H into Hlens end.
    (* every element accepts its own value *)
    assert (Hall : Forall2 (fun s v => (forall p, validate Plain s p v = []) /\ conforms s v) ss vs).
    { clear - IHes HF Hel Hnn. cbn [value_no_nan] in Hnn.
      revert IHes Hel Hnn. induction HF as [|s v ss vs Hsv HF IH]; intros IHes Hel Hnn; constructor.
      - inversion IHes as [|? ? Hs _]; subst. cbn [map forallb] in Hel, Hnn. bdestr.
        apply (Hs s eq_refl); auto.
      - inversion IHes; subst. cbn [map forallb] in Hel, Hnn. bdestr. apply IH; auto. }
    assert (Hlen : length ss = length vs) by (eapply Forall2_len; exact HF).
    assert (Hlo : len_ok (zlen vs) len mnl mxl).
    { assert (Hc : concrete (map Some ss) = length ss)
        by (unfold concrete; rewrite strip_map_some; reflexivity).
      assert (Hac : all_concrete (map Some ss) = true)
        by (unfold all_concrete; rewrite Hc, map_length; apply Nat.eqb_refl).
      unfold list_lens_ok in Hlens. unfold zlen. rewrite <- Hlen. unfold len_ok.
      destruct len as [k1|], mnl as [k2|], mxl as [k3|]; cbn [opt_all opt_holds] in *;
        rewrite ?Hc, ?Hac in Hlens; bdestr; zb; repeat split; auto; lia. }
    split.
    + intros p. cbn [validate].
      rewrite (proj2 (check_len_first_nil p (VList vs) (zlen vs) len mnl mxl) Hlo).
      rewrite map_map. cbn beta iota.
      change (map (fun x : schema => Some (validate Plain x)) ss)
        with (map (fun x => Some (validate Plain x)) ss).
      rewrite <- (map_map (validate Plain) Some).
      unfold list_logic. rewrite classify_map_some. unfold middle. rewrite classify_map_some.
      rewrite strip_map_some, !map_length.
      assert (Hv : Forall2 (fun s v => forall p, validate Plain s p v = []) ss vs).
      { clear - Hall. induction Hall; constructor; tauto. }
      pose proof (velems_fixed ss vs Hv [] p) as Hve. cbn [app length] in Hve. rewrite Hve.
      cbn [app]. apply extras_nil. lia.
    + cbn [conforms]. exists vs. split; [reflexivity|]. split; [exact Hlo|].
      rewrite map_map. cbn beta iota.
      rewrite <- (map_map (fun s => conforms s) Some).
      unfold list_spec. rewrite classify_map_some. unfold middle. rewrite classify_map_some.
      rewrite strip_map_some.
      clear - Hall. induction Hall; cbn [map]; constructor; tauto.
  - destruct ks; discriminate.
  - destruct ts; discriminate.
  - (* bytes *)
    destruct val as [b|]; [|discriminate]. cbn [fixed] in Hfix. inversion Hfix. subst.
    assert (C : conforms (SBytes (Some b)) (VBytes b)) by (exists b; split; reflexivity).
    split; [intros p; apply (v_bytes_nil (Some b) p); exact C | exact C].
  - (* uuid *)
    destruct val as [n|]; [|discriminate]. cbn [fixed] in Hfix. inversion Hfix. subst.
    cbn [dsl_inv opt_all] in Hinv.
    assert (C : conforms (SUuid (Some n)) (VUuid n)).
    { exists n. split; [reflexivity|]. split; [apply uuid_is_v4_iff; exact Hinv | reflexivity]. }
    split; [intros p; apply (v_uuid_nil (Some n) p); exact C | exact C].
  - (* datetime *)
    destruct val as [[aw us]|]; [|discriminate]. cbn [fixed] in Hfix. inversion Hfix. subst.
    assert (C : conforms (SDatetime (Some (aw, us))) (VDatetime aw us)).
    { exists aw, us. split; reflexivity. }
    split; [intros p; apply (v_datetime_nil (Some (aw, us)) p); exact C | exact C].
  - (* date *)
    destruct val as [d|]; [|discriminate]. cbn [fixed] in Hfix. inversion Hfix. subst.
    cbn [dsl_inv opt_all] in Hinv.
    assert (C : conforms (SDate (Some v)) v).
    { split; [exact Hinv|]. cbn [opt_holds]. apply py_eqb_refl_date. exact Hinv. }
    split; [intros p; apply (v_date_nil (Some v) p); exact C | exact C].
  - discriminate.
  - discriminate.
Qed.

Lemma validate_nil_verdict s v : (forall p, validate Plain s p v = []) -> verdict s v = true.
Proof. intros H. unfold verdict. rewrite H. reflexivity. Qed.

Lemma fixed_conforms_lemma s v :
  dsl_inv s = true -> fixed s = Some v -> value_no_nan v = true ->
  verdict s v = true /\ conforms s v.
Proof.
  intros Hi Hf Hn. destruct (fixed_self_lemma s Hi v Hf Hn) as [Hv Hc].
  split; [apply validate_nil_verdict; exact Hv | exact Hc].
Qed.

Lemma decl_fixed_conforms_lemma m s args s' :
  dsl_inv s = true -> args_inv args = true -> decl m s args = Ok s' ->
  dsl_inv s' = true /\
  forall v, fixed s' = Some v -> value_no_nan v = true -> verdict s' v = true /\ conforms s' v.
Proof.
  intros Hi Ha Hd. pose proof (decl_inv_lemma m s args s' Hi Ha Hd) as Hi'.
  split; [exact Hi'|]. intros v Hf Hn. apply fixed_conforms_lemma; assumption.
Qed.

(* chains *)
Lemma run_inv_lemma ops : forall s s',
  dsl_inv s = true -> Forall (fun o : op => args_inv (snd o) = true) ops ->
  run ops s = Ok s' -> dsl_inv s' = true.
Proof.
  induction ops as [|[m a] r IH]; intros s s' Hi Ha; cbn [run].
  - intros E. inversion E. subst. exact Hi.
  - inversion Ha as [|? ? Ha1 Har]; subst. cbn [snd] in Ha1.
    destruct (decl m s a) as [s1| |] eqn:E; cbn [bind]; try discriminate.
    apply IH; [|exact Har]. eapply decl_inv_lemma; eassumption.
Qed.

Lemma run_only_declerr_lemma ops : forall s,
  Forall (fun o : op => arity_ok (kind_of s) (fst o) (snd o) = true) ops ->
  forall e, run ops s <> Raise e.
Proof.
  induction ops as [|[m a] r IH]; intros s Ha e; cbn [run]; [discriminate|].
  inversion Ha as [|? ? Ha1 Har]; subst. cbn [fst snd] in Ha1.
  destruct (decl m s a) as [s1| |] eqn:E; cbn [bind]; try discriminate.
  - apply IH. rewrite (decl_kind _ _ _ _ E). exact Har.
  - exfalso. exact (decl_only_declerr_lemma m s a Ha1 e0 E).
Qed.

(* ------------------------------------------------------------------------------------ *)
(* the NaN exclusion stated on the arguments (F10)                                       *)
(* ------------------------------------------------------------------------------------ *)
Definition elems_nn (es : list (option schema)) : bool :=
  forallb (fun x => x) (map (fun o => match o with Some e => schema_no_nan e | None => true end) es).
Definition dents_nn (l : list dentry) : bool :=
  forallb (fun x => x) (map (fun e => match de_schema e with Some t => schema_no_nan t | None => true end) l).

Lemma fixed_no_nan_lemma : forall s,
  dsl_inv s = true -> schema_no_nan s = true -> forall v, fixed s = Some v -> value_no_nan v = true.
Proof.
  induction s as [ | val | val mn mx | val mn mx pr | val len mnl mxl al sub pat
                 | es ty len mnl mxl IHes IHty | ks IHks | ts IHts
                 | val | val | val | val | nm t IHt | t IHt ] using schema_ind';
    intros Hinv Hnn v Hfix; cbn [fixed] in Hfix; try discriminate.
  - inversion Hfix. reflexivity.
  - destruct val; inversion Hfix. reflexivity.
  - destruct val as [i|]; inversion Hfix. destruct i; reflexivity.
  - destruct val as [f|]; inversion Hfix. subst. exact Hnn.
  - destruct val; inversion Hfix. reflexivity.
  - destruct es as [es'|]; [|discriminate]. destruct ty; [discriminate|].
    change (fixed (SList (Some es') None len mnl mxl) = Some v) in Hfix.
    rewrite fixed_list in Hfix. destruct (fixed_elems es') as [vs|] eqn:Ef; [|discriminate].
    inversion Hfix. subst v. clear Hfix.
    destruct (fixed_elems_some _ _ Ef) as (ss & -> & HF).
    specialize (IHes (map Some ss) eq_refl).
    cbn [dsl_inv is_some is_none negb andb] in Hinv. cbn [schema_no_nan] in Hnn. bdestr.
    match goal with H : forallb (fun x => x) (map (fun o => match o with Some e => dsl_inv e | None => true end) (map Some ss)) = true |- _ => rename H into Hel end.
    match goal with H : forallb (fun x => x) (map (fun o => match o with Some e => schema_no_nan e | None => true end) (map Some ss)) = true |- _ => rename H into Hn end.
    cbn [value_no_nan]. clear - IHes HF Hel Hn.
    revert IHes Hel Hn. induction HF as [|s v ss vs Hsv HF IH]; intros IHes Hel Hn; [reflexivity|].
    cbn [map forallb] in *. bdestr. inversion IHes as [|? ? Hs Hr]; subst.
    rewrite (Hs s eq_refl) with (v := v); auto.
  - destruct val; inversion Hfix. reflexivity.
  - destruct val; inversion Hfix. reflexivity.
  - destruct val as [[aw us]|]; inversion Hfix. reflexivity.
  - destruct val as [d|]; inversion Hfix. subst. cbn [dsl_inv opt_all] in Hinv.
    destruct v; try discriminate Hinv; reflexivity.
Qed.

Lemma elems_loop_nn n l : forall idx es,
  elems_loop n idx l = Ok es -> forallb arg_no_nan l = true -> elems_nn es = true.
Proof.
  induction l as [|a r IH]; intros idx es; cbn [elems_loop].
  - intros E _. inversion E. reflexivity.
  - destruct (elem_of_arg a) as [e|] eqn:Ea; [|discriminate].
    destruct (is_none e && _ && _); [discriminate|].
    destruct (elems_loop n (S idx) r) as [es'| |] eqn:Er; cbn [bind]; try discriminate.
    intros E H. inversion E. subst. clear E. cbn [forallb] in H. apply andb_true_iff in H as [Ha Hr].
    unfold elems_nn in *. cbn [map forallb]. rewrite (IH _ _ Er Hr), andb_true_r.
    destruct a as [v|s| | |]; cbn [elem_of_arg] in Ea; try discriminate.
    + destruct v; try discriminate. inversion Ea. reflexivity.
    + inversion Ea. subst. exact Ha.
Qed.

Lemma a_list_nn a l : arg_no_nan a = true -> a_list a = Some l -> forallb arg_no_nan l = true.
Proof.
  destruct a as [v| | |l0|]; cbn [a_list]; try discriminate.
  - destruct v; try discriminate. cbn [arg_no_nan value_no_nan]. intros H E. inversion E. subst. clear E.
    rewrite forallb_id_map' in H. induction l0 as [|x r IH]; cbn [map forallb] in *; auto.
    apply andb_true_iff in H as [H1 H2]. cbn [arg_no_nan]. rewrite H1, (IH H2). reflexivity.
  - cbn [arg_no_nan]. intros H E. inversion E. subst. rewrite forallb_id_map' in H. exact H.
Qed.

Lemma upsert_nn k s o l :
  dents_nn l = true -> match s with Some t => schema_no_nan t | None => true end = true ->
  dents_nn (upsert k s o l) = true.
Proof.
  unfold dents_nn. intros Hl Hs. induction l as [|e r IH]; cbn [upsert map forallb de_schema fst snd].
  - rewrite Hs. reflexivity.
  - cbn [map forallb] in Hl. apply andb_true_iff in Hl as [He Hr].
    destruct (key_eqb k (de_key e)); cbn [map forallb de_schema fst snd].
    + rewrite Hs. exact Hr.
    + rewrite He. apply IH. exact Hr.
Qed.

Lemma dict_loop_nn items : forall acc l,
  dents_nn acc = true -> forallb (fun kx : dkey * arg => arg_no_nan (snd kx)) items = true ->
  dict_loop items acc = Ok l -> dents_nn l = true.
Proof.
  induction items as [|[k a] r IH]; intros acc l Hacc Hit; cbn [dict_loop].
  - intros E. inversion E. subst. exact Hacc.
  - cbn [forallb snd] in Hit. apply andb_true_iff in Hit as [Ha Hr].
    destruct (dkey_ell k || a_ell a).
    + destruct (negb (dkey_ell k)); [discriminate|]. destruct (negb (a_ell a)); [discriminate|].
      apply IH; [|exact Hr]. apply upsert_nn; auto.
    + destruct a as [v|s| | |]; try discriminate.
      apply IH; [|exact Hr]. apply upsert_nn; auto.
Qed.

Lemma a_dict_nn a items :
  arg_no_nan a = true -> a_dict a = Some items ->
  forallb (fun kx : dkey * arg => arg_no_nan (snd kx)) items = true.
Proof.
  destruct a as [v| | | |d]; cbn [a_dict]; try discriminate.
  - destruct v; try discriminate. cbn [arg_no_nan value_no_nan]. intros H E. inversion E. subst. clear E.
    rewrite forallb_id_map' in H. induction d as [|[k x] r IH]; cbn [map forallb fst snd] in *; auto.
    apply andb_true_iff in H as [H1 H2]. cbn [arg_no_nan]. rewrite H1, (IH H2). reflexivity.
  - cbn [arg_no_nan]. intros H E. inversion E. subst. rewrite forallb_id_map' in H. exact H.
Qed.

Definition schemas_nn (l : list schema) : bool := forallb (fun x => x) (map (fun t => schema_no_nan t) l).

Lemma flat_map_flatten_nn l :
  forallb (fun x => x) (map (fun t => dsl_inv t) l) = true -> schemas_nn l = true ->
  schemas_nn (flat_map flatten1 l) = true.
Proof.
  unfold schemas_nn. induction l as [|s r IH]; cbn [map forallb flat_map]; [reflexivity|].
  intros Hi Hn. apply andb_true_iff in Hi as [His Hir]. apply andb_true_iff in Hn as [Hns Hnr].
  rewrite map_app, forallb_app, (IH Hir Hnr), andb_true_r.
  destruct (is_any_some s) eqn:E.
  - destruct s as [| | | | | | |[ts|]| | | | | |]; try discriminate E.
    cbn [dsl_inv] in His. apply andb_true_iff in His as [His _]. apply andb_true_iff in His as [_ Hflat].
    cbn [flatten1]. rewrite (flat_map_flatten_flat _ Hflat). exact Hns.
  - rewrite (flatten1_not_any _ E). cbn [map forallb]. rewrite Hns. reflexivity.
Qed.

Lemma all_schemas_nn args l :
  no_nan_args args = true -> all_schemas args = Some l -> schemas_nn l = true.
Proof.
  revert l. induction args as [|a r IH]; intros l H E; cbn [all_schemas] in E.
  - inversion E. reflexivity.
  - destruct a as [|s| | |]; try discriminate.
    destruct (all_schemas r) as [r'|] eqn:Er; [|discriminate]. inversion E. subst. clear E.
    unfold no_nan_args in H. cbn [forallb arg_no_nan] in H. apply andb_true_iff in H as [Hs Hr].
    unfold schemas_nn in *. cbn [map forallb]. rewrite Hs, (IH r' Hr eq_refl). reflexivity.
Qed.

Lemma decl_no_nan_lemma m s args s' :
  dsl_inv s = true -> args_inv args = true ->
  schema_no_nan s = true -> no_nan_args args = true -> decl m s args = Ok s' ->
  schema_no_nan s' = true.
Proof.
  intros Hinv Hai Hnn Hargs.
  destruct s; destruct m; cbn [decl]; try discriminate;
    unfold with1, with_len, len_args;
    destruct args as [|a [|b [|c r]]]; try discriminate.
  all: unfold no_nan_args in Hargs; cbn [forallb] in Hargs.
  all: try (unfold bool_call, int_call, float_min, float_max, float_precision, str_call, bytes_call,
            uuid_call, datetime_call, date_call; unfold_decl; unfold bind, option_map; dall2;
            try discriminate; intros E; inversion E; subst; clear E; cbn [schema_no_nan] in *; auto; fail).
  - (* float call *)
    unfold float_call, dE. destruct a as [v0| | | |]; cbn [a_float]; try discriminate.
    destruct v0; try discriminate. dall2; try discriminate. intros E; inversion E; subst.
    cbn [schema_no_nan]. cbn [arg_no_nan value_no_nan] in Hargs. bdestr. rewrite H. reflexivity.
  - (* list call *)
    unfold list_call, dE.
    assert (Ha : arg_no_nan a = true) by (bdestr; assumption).
    destruct a as [v0|t0| |l0|]; cbn [a_list]; try discriminate.
    + destruct v0 as [| | | | | | | | |l0| | | |]; try discriminate.
      dall; try discriminate. destruct (elems_loop _ _ _) as [es'| |] eqn:El; cbn [bind]; try discriminate.
      destruct (two_ells es'); [discriminate|]. intros E; inversion E; subst; clear E. nones.
      cbn [schema_no_nan]. fold (elems_nn es'). rewrite (elems_loop_nn _ _ _ _ El); [reflexivity|].
      apply (a_list_nn (AVal (VList l0))); auto.
    + dall; try discriminate. intros E; inversion E; subst; clear E. nones.
      cbn [schema_no_nan]. exact Ha.
    + dall; try discriminate. destruct (elems_loop _ _ _) as [es'| |] eqn:El; cbn [bind]; try discriminate.
      destruct (two_ells es'); [discriminate|]. intros E; inversion E; subst; clear E. nones.
      cbn [schema_no_nan]. fold (elems_nn es'). rewrite (elems_loop_nn _ _ _ _ El); [reflexivity|].
      apply (a_list_nn (AList l0)); auto.
  - (* dict *)
    unfold dict_call, dE. destruct (a_dict a) as [items|] eqn:Ea; [|discriminate].
    destruct ks as [k0|]; cbn [is_some is_none negb]; [discriminate|].
    destruct (dict_loop items []) as [l| |] eqn:El; cbn [bind]; try discriminate.
    intros E; inversion E; subst; clear E. cbn [schema_no_nan].
    apply (dict_loop_nn items [] l); auto. apply (a_dict_nn a); auto. bdestr; assumption.
  - (* any *)
    unfold any_call, dE. destruct (all_schemas [a]) as [l|] eqn:Ea; [|discriminate].
    destruct ts as [t0|]; cbn [is_some is_none negb]; [discriminate|]. intros E; inversion E; subst; clear E.
    cbn [schema_no_nan]. apply flat_map_flatten_nn.
    + apply (all_schemas_inv [a] l); auto.
    + apply (all_schemas_nn [a] l); auto.
  - unfold any_call, dE. destruct (all_schemas [a; b]) as [l|] eqn:Ea; [|discriminate].
    destruct ts as [t0|]; cbn [is_some is_none negb]; [discriminate|]. intros E; inversion E; subst; clear E.
    cbn [schema_no_nan]. apply flat_map_flatten_nn.
    + apply (all_schemas_inv [a; b] l); auto.
    + apply (all_schemas_nn [a; b] l); auto.
  - unfold any_call, dE. destruct (all_schemas (a :: b :: c :: r)) as [l|] eqn:Ea; [|discriminate].
    destruct ts as [t0|]; cbn [is_some is_none negb]; [discriminate|]. intros E; inversion E; subst; clear E.
    cbn [schema_no_nan]. apply flat_map_flatten_nn.
    + apply (all_schemas_inv (a :: b :: c :: r) l); auto.
    + apply (all_schemas_nn (a :: b :: c :: r) l); auto.
Qed.

Lemma decl_fixed_conforms_nn_lemma m s args s' :
  dsl_inv s = true -> schema_no_nan s = true -> args_inv args = true -> no_nan_args args = true ->
  decl m s args = Ok s' ->
  dsl_inv s' = true /\ schema_no_nan s' = true /\
  forall v, fixed s' = Some v -> verdict s' v = true /\ conforms s' v.
Proof.
  intros Hi Hn Ha Hna Hd.
  pose proof (decl_inv_lemma m s args s' Hi Ha Hd) as Hi'.
  pose proof (decl_no_nan_lemma m s args s' Hi Ha Hn Hna Hd) as Hn'.
  split; [exact Hi'|]. split; [exact Hn'|]. intros v Hf.
  apply fixed_conforms_lemma; auto. apply (fixed_no_nan_lemma s' Hi' Hn' v Hf).
Qed.
