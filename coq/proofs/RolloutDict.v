(* Dict-level and tree-level lemmas for C18 (association lists, flatten, sub). *)
Require Import D42.Prelude D42.Rollout D42P.RolloutStr.
From Coq Require Import Permutation.

(* ---- association lists ---- *)
Lemma rlookup_rinsert_eq k v d : rlookup k (rinsert k v d) = Some v.
Proof.
  induction d as [|[k' v'] r IH]; cbn [rinsert rlookup].
  - rewrite rkey_eqb_refl. reflexivity.
  - destruct (rkey_eqb k' k) eqn:E; cbn [rlookup]; rewrite E; [reflexivity | exact IH].
Qed.

Lemma rlookup_rinsert_neq k k' v d : k' <> k -> rlookup k' (rinsert k v d) = rlookup k' d.
Proof.
  intro Hne. induction d as [|[k0 v0] r IH]; cbn [rinsert rlookup].
  - destruct (rkey_eqb k k') eqn:E; [apply rkey_eqb_eq in E; congruence | reflexivity].
  - destruct (rkey_eqb k0 k) eqn:E; cbn [rlookup].
    + apply rkey_eqb_eq in E. subst k0.
      destruct (rkey_eqb k k') eqn:E2; [apply rkey_eqb_eq in E2; congruence | reflexivity].
    + destruct (rkey_eqb k0 k'); [reflexivity | exact IH].
Qed.

Lemma rlookup_none k d : rlookup k d = None <-> ~ In k (map fst d).
Proof.
  induction d as [|[k' v'] r IH]; cbn [rlookup map fst In].
  - tauto.
  - destruct (rkey_eqb k' k) eqn:E.
    + apply rkey_eqb_eq in E. subst. split; [discriminate | tauto].
    + apply rkey_eqb_neq in E. rewrite IH. tauto.
Qed.

Lemma rlookup_in k v d : rlookup k d = Some v -> In (k, v) d.
Proof.
  induction d as [|[k' v'] r IH]; cbn [rlookup In]; [discriminate|].
  destruct (rkey_eqb k' k) eqn:E.
  - apply rkey_eqb_eq in E. intro H. inversion H; subst. left. reflexivity.
  - intro H. right. apply IH. exact H.
Qed.

Lemma in_rlookup k v d : NoDup (map fst d) -> In (k, v) d -> rlookup k d = Some v.
Proof.
  induction d as [|[k' v'] r IH]; cbn [rlookup In map fst]; [tauto|].
  intros Hnd [H|H].
  - inversion H; subst. rewrite rkey_eqb_refl. reflexivity.
  - inversion Hnd as [|? ? Hn Hnd']; subst.
    destruct (rkey_eqb k' k) eqn:E.
    + apply rkey_eqb_eq in E. subst. exfalso. apply Hn. apply (in_map fst) in H. exact H.
    + apply IH; assumption.
Qed.

Lemma rlookup_some_key k v d : rlookup k d = Some v -> In k (map fst d).
Proof. intro H. apply rlookup_in in H. apply (in_map fst) in H. exact H. Qed.

Lemma rinsert_notin k v d : ~ In k (map fst d) -> rinsert k v d = d ++ [(k, v)].
Proof.
  induction d as [|[k' v'] r IH]; cbn [rinsert map fst In app]; intro H; [reflexivity|].
  destruct (rkey_eqb k' k) eqn:E.
  - apply rkey_eqb_eq in E. tauto.
  - f_equal. apply IH. tauto.
Qed.

Lemma keys_rinsert_in k v d : In k (map fst d) -> map fst (rinsert k v d) = map fst d.
Proof.
  induction d as [|[k' v'] r IH]; cbn [rinsert map fst In]; [tauto|].
  destruct (rkey_eqb k' k) eqn:E; cbn [map fst]; [reflexivity|].
  intros [H|H]; [apply rkey_eqb_neq in E; congruence|]. f_equal. apply IH. exact H.
Qed.

Lemma NoDup_snoc {A} (l : list A) x : NoDup l -> ~ In x l -> NoDup (l ++ [x]).
Proof.
  induction l as [|y l IH]; cbn [app]; intros Hnd Hn.
  - constructor; [tauto | constructor].
  - inversion Hnd; subst. constructor.
    + rewrite in_app_iff. cbn [In]. intros [H|[H|[]]]; [tauto | subst; apply Hn; left; reflexivity].
    + apply IH; [assumption | intro; apply Hn; right; assumption].
Qed.

Lemma NoDup_app_intro {A} (a b : list A) :
  NoDup a -> NoDup b -> (forall x, In x a -> ~ In x b) -> NoDup (a ++ b).
Proof.
  induction a as [|x a IH]; cbn [app]; intros Ha Hb Hd; [exact Hb|].
  inversion Ha; subst. constructor.
  - rewrite in_app_iff. intros [H|H]; [tauto | apply (Hd x); [left; reflexivity | exact H]].
  - apply IH; [assumption | assumption | intros y Hy; apply Hd; right; exact Hy].
Qed.

Lemma keys_rinsert_nodup k v d : NoDup (map fst d) -> NoDup (map fst (rinsert k v d)).
Proof.
  intro H. destruct (in_dec rkey_eq_dec k (map fst d)) as [Hi|Hn].
  - rewrite keys_rinsert_in by exact Hi. exact H.
  - rewrite rinsert_notin by exact Hn. rewrite map_app. cbn [map fst]. apply NoDup_snoc; assumption.
Qed.

Lemma keys_nodupb_spec (l : list rkey) : keys_nodupb l = true <-> NoDup l.
Proof.
  induction l as [|k r IH]; cbn [keys_nodupb].
  - split; [constructor | reflexivity].
  - rewrite andb_true_iff, negb_true_iff, IH. split.
    + intros [H1 H2]. constructor; [|exact H2]. intro Hin.
      assert (existsb (rkey_eqb k) r = true) as E; [|congruence].
      apply existsb_exists. exists k. split; [exact Hin | apply rkey_eqb_refl].
    + intro H. inversion H; subst. split; [|assumption].
      destruct (existsb (rkey_eqb k) r) eqn:E; [|reflexivity].
      apply existsb_exists in E as [x [Hx Ex]]. apply rkey_eqb_eq in Ex. subst. contradiction.
Qed.

Lemma NoDup_map_inj_in {A B} (f : A -> B) (l : list A) x y :
  NoDup (map f l) -> In x l -> In y l -> f x = f y -> x = y.
Proof.
  induction l as [|a l IH]; cbn [map In]; [tauto|].
  intros Hnd Hx Hy E. inversion Hnd as [|? ? Hn Hnd']; subst.
  destruct Hx as [Hx|Hx], Hy as [Hy|Hy]; subst.
  - reflexivity.
  - exfalso. apply Hn. rewrite E. apply in_map. exact Hy.
  - exfalso. apply Hn. rewrite <- E. apply in_map. exact Hx.
  - apply IH; assumption.
Qed.

(* ---- induction principle for trees ---- *)
Fixpoint tree_ind' (P : tree -> Prop)
  (HL : forall id, P (TLeaf id))
  (HN : forall cs, Forall (fun c => P (snd c)) cs -> P (TNode cs)) (t : tree) : P t :=
  match t with
  | TLeaf id => HL id
  | TNode cs =>
      HN cs ((fix go (l : list (bool * pystr * tree)) : Forall (fun c => P (snd c)) l :=
                match l with
                | [] => Forall_nil _
                | c :: r => Forall_cons c (tree_ind' P HL HN (snd c)) (go r)
                end) cs)
  end.

(* ---- well-formedness, as facts ---- *)
Definition child_ok (c : bool * pystr * tree) : Prop :=
  match snd c with
  | TLeaf _ => True
  | TNode cs' => fst (fst c) = false /\ cs' <> [] /\ wf_tmap cs' = true
  end.

Lemma wf_tmap_facts cs : wf_tmap cs = true -> NoDup (map ckey cs) /\ forall c, In c cs -> child_ok c.
Proof.
  unfold wf_tmap. rewrite andb_true_iff, keys_nodupb_spec, forallb_forall. intros [H1 H2].
  split; [exact H1|]. intros c Hc. specialize (H2 c Hc). unfold child_ok.
  destruct c as [[o k] t]. cbn [fst snd] in *. destruct t as [id|cs']; [exact I|].
  apply andb_true_iff in H2 as [Ho Hw]. apply negb_true_iff in Ho.
  cbn [wf_tree] in Hw. apply andb_true_iff in Hw as [Hw Hc3]. apply andb_true_iff in Hw as [Hne Hnd].
  split; [exact Ho|]. split.
  - destruct cs'; [discriminate | discriminate].
  - unfold wf_tmap. rewrite Hnd, Hc3. reflexivity.
Qed.

(* ---- shape of flatten ---- *)
Definition fe_ok (e : fent) : Prop :=
  match e with FE _ (_ :: _) _ => True | _ => False end.

Lemma flatten_t_node o k cs : flatten_t o k (TNode cs) = map (fcons k) (flatten_m cs).
Proof. reflexivity. Qed.

Lemma flatten_m_cons c cs :
  flatten_m (c :: cs) = flatten_t (fst (fst c)) (snd (fst c)) (snd c) ++ flatten_m cs.
Proof. reflexivity. Qed.

Lemma flatten_t_fe_ok t : forall o k, Forall fe_ok (flatten_t o k t).
Proof.
  induction t as [id|cs IH] using tree_ind'; intros o k.
  - cbn. constructor; [exact I | constructor].
  - rewrite flatten_t_node. apply Forall_forall. intros e He. apply in_map_iff in He as [e' [<- He]].
    unfold flatten_m in He. apply in_flat_map in He as [c [Hc He]].
    rewrite Forall_forall in IH. specialize (IH c Hc (fst (fst c)) (snd (fst c))).
    rewrite Forall_forall in IH. specialize (IH e' He).
    destruct e' as [|o' p id]; [destruct IH | exact I].
Qed.

Lemma flatten_m_fe_ok cs : Forall fe_ok (flatten_m cs).
Proof.
  apply Forall_forall. intros e He. unfold flatten_m in He. apply in_flat_map in He as [c [Hc He]].
  pose proof (flatten_t_fe_ok (snd c) (fst (fst c)) (snd (fst c))) as H.
  rewrite Forall_forall in H. apply H. exact He.
Qed.

Lemma FEll_notin_flatten cs : ~ In FEll (flatten_m cs).
Proof.
  intro H. pose proof (flatten_m_fe_ok cs) as F. rewrite Forall_forall in F. exact (F _ H).
Qed.

Lemma flatten_shape cs o' p id :
  In (FE o' p id) (flatten_m cs) -> (forall c, In c cs -> child_ok c) ->
  exists o k t, In (o, k, t) cs /\
    ((p = [k] /\ o' = o /\ t = TLeaf id) \/
     (exists cs' k2 r, t = TNode cs' /\ o = false /\ cs' <> [] /\ wf_tmap cs' = true /\
        p = k :: k2 :: r /\ In (FE o' (k2 :: r) id) (flatten_m cs'))).
Proof.
  intros He Hok. unfold flatten_m in He. apply in_flat_map in He as [[[o k] t] [Hc He]].
  cbn [fst snd] in He. exists o, k, t. split; [exact Hc|].
  destruct t as [id0|cs'].
  - left. cbn in He. destruct He as [He|[]]. inversion He; subst. auto.
  - right. rewrite flatten_t_node in He. apply in_map_iff in He as [e' [E He]].
    pose proof (flatten_m_fe_ok cs') as F. rewrite Forall_forall in F. specialize (F _ He).
    destruct e' as [|o2 [|k2 r] id2]; try destruct F. cbn in E. inversion E; subst.
    specialize (Hok _ Hc). unfold child_ok in Hok. cbn [fst snd] in Hok. destruct Hok as [Ho [Hne Hw]].
    exists cs', k2, r. auto 8.
Qed.

Lemma leaf_in_flatten cs o k id : In (o, k, TLeaf id) cs -> In (FE o [k] id) (flatten_m cs).
Proof.
  intro H. unfold flatten_m. apply in_flat_map. exists (o, k, TLeaf id). split; [exact H|].
  cbn. left. reflexivity.
Qed.

Lemma node_in_flatten cs o k cs' e :
  In (o, k, TNode cs') cs -> In e (flatten_m cs') -> In (fcons k e) (flatten_m cs).
Proof.
  intros H He. unfold flatten_m at 1. apply in_flat_map. exists (o, k, TNode cs'). split; [exact H|].
  cbn [fst snd]. rewrite flatten_t_node. apply in_map. exact He.
Qed.

(* ---- keys of flat entries are pairwise distinct ---- *)
Definition fkey (e : fent) : option (bool * list pystr) :=
  match e with FEll => None | FE o p _ => Some (o, p) end.

Definition kcons (k : pystr) (x : option (bool * list pystr)) : option (bool * list pystr) :=
  match x with None => None | Some (o, p) => Some (o, k :: p) end.

Lemma fkey_fcons k e : fkey (fcons k e) = kcons k (fkey e).
Proof. destruct e; reflexivity. Qed.

Lemma kcons_inj k x y : kcons k x = kcons k y -> x = y.
Proof.
  destruct x as [[o p]|], y as [[o' p']|]; cbn; intro H; try discriminate; [|reflexivity].
  inversion H; subst. reflexivity.
Qed.

Lemma NoDup_map_injective {A B} (f : A -> B) (l : list A) :
  (forall x y, f x = f y -> x = y) -> NoDup l -> NoDup (map f l).
Proof.
  intros Hinj. induction l as [|a l IH]; intro H; cbn [map]; [constructor|].
  inversion H; subst. constructor; [|apply IH; assumption].
  intro Hin. apply in_map_iff in Hin as [y [E Hy]]. apply Hinj in E. subst. contradiction.
Qed.

Lemma child_key_unique cs c1 c2 :
  NoDup (map ckey cs) -> In c1 cs -> In c2 cs -> ckey c1 = ckey c2 -> c1 = c2.
Proof. apply NoDup_map_inj_in. Qed.

Lemma nodup_flatten_aux cs :
  Forall (fun c => forall cs', snd c = TNode cs' -> wf_tmap cs' = true ->
                               NoDup (map fkey (flatten_m cs'))) cs ->
  NoDup (map ckey cs) -> (forall c, In c cs -> child_ok c) ->
  NoDup (map fkey (flatten_m cs)).
Proof.
  induction cs as [|c rest IH]; intros HF Hnd Hok; [constructor|].
  inversion HF as [|? ? Hc HFr]; subst. inversion Hnd as [|? ? Hn Hndr]; subst.
  rewrite flatten_m_cons, map_app. apply NoDup_app_intro.
  - destruct c as [[o k] t]. cbn [fst snd] in *. destruct t as [id|cs'].
    + cbn. constructor; [tauto | constructor].
    + rewrite flatten_t_node, map_map.
      erewrite map_ext; [|intro e; apply fkey_fcons]. rewrite <- map_map.
      apply NoDup_map_injective; [apply kcons_inj|].
      assert (child_ok (o, k, TNode cs')) as Hk by (apply Hok; left; reflexivity).
      unfold child_ok in Hk. cbn [fst snd] in Hk. apply (Hc cs' eq_refl). tauto.
  - apply IH; [exact HFr | exact Hndr | intros c' Hc'; apply Hok; right; exact Hc'].
  - intros x Hx1 Hx2.
    apply in_map_iff in Hx1 as [e1 [E1 He1]]. apply in_map_iff in Hx2 as [e2 [E2 He2]].
    assert (In e1 (flatten_m [c])) as He1' by (rewrite flatten_m_cons; cbn [flatten_m flat_map]; rewrite app_nil_r; exact He1).
    destruct e1 as [|o1 p1 id1]; [exact (FEll_notin_flatten _ He1')|].
    destruct e2 as [|o2 p2 id2]; [exact (FEll_notin_flatten _ He2)|].
    cbn in E1, E2. subst x. inversion E2; subst o2 p2.
    apply flatten_shape in He1' as (oa & ka & ta & Hina & Sa);
      [|intros c' [<-|[]]; apply Hok; left; reflexivity].
    destruct Hina as [Ec|[]]. subst c.
    apply flatten_shape in He2 as (ob & kb & tb & Hinb & Sb);
      [|intros c' Hc'; apply Hok; right; exact Hc'].
    apply Hn. 
    assert (ckey (oa, ka, ta) = ckey (ob, kb, tb)) as EK.
    { unfold ckey. cbn [fst snd].
      destruct Sa as [(Ep & Eo & Et)|(csa & k2a & ra & Et & Eo & _ & _ & Ep & _)];
      destruct Sb as [(Ep' & Eo' & Et')|(csb & k2b & rb & Et' & Eo' & _ & _ & Ep' & _)]; subst; try congruence.
      all: try (inversion Ep'; subst; reflexivity). }
    rewrite EK. apply in_map. exact Hinb.
Qed.

Lemma nodup_flatten_t t :
  forall cs, t = TNode cs -> wf_tmap cs = true -> NoDup (map fkey (flatten_m cs)).
Proof.
  induction t as [id|cs0 IH] using tree_ind'; intros cs E Hw; [discriminate|].
  inversion E; subst cs0. apply wf_tmap_facts in Hw as [Hnd Hok].
  apply nodup_flatten_aux; assumption.
Qed.

Lemma nodup_flatten_keys cs : wf_tmap cs = true -> NoDup (map fkey (flatten_m cs)).
Proof. intro H. exact (nodup_flatten_t (TNode cs) cs eq_refl H). Qed.

Lemma nodup_flatten cs : wf_tmap cs = true -> NoDup (flatten_m cs).
Proof. intro H. apply nodup_flatten_keys in H. apply NoDup_map_inv in H. exact H. Qed.

Lemma flatten_key_fun cs o p id id' :
  wf_tmap cs = true -> In (FE o p id) (flatten_m cs) -> In (FE o p id') (flatten_m cs) -> id = id'.
Proof.
  intros Hw H1 H2. apply nodup_flatten_keys in Hw.
  assert (FE o p id = FE o p id') as E by (eapply NoDup_map_inj_in; eauto).
  inversion E. reflexivity.
Qed.

(* ---- sub: the entries below first segment s, with that segment stripped ---- *)
Definition sub1 (s : pystr) (e : fent) : list fent :=
  match e with
  | FE o (k :: k2 :: r) id => if str_eqb k s then [FE o (k2 :: r) id] else []
  | _ => []
  end.

Definition sub (s : pystr) (L : list fent) : list fent := flat_map (sub1 s) L.

Lemma sub_app s L1 L2 : sub s (L1 ++ L2) = sub s L1 ++ sub s L2.
Proof. apply flat_map_app. Qed.

Lemma in_sub s L x :
  In x (sub s L) <-> exists o k2 r id, x = FE o (k2 :: r) id /\ In (FE o (s :: k2 :: r) id) L.
Proof.
  unfold sub. rewrite in_flat_map. split.
  - intros [e [He Hx]]. destruct e as [|o [|k [|k2 r]] id]; cbn in Hx; try tauto.
    destruct (str_eqb k s) eqn:E; [|destruct Hx]. apply str_eqb_eq in E. subst k.
    destruct Hx as [<-|[]]. exists o, k2, r, id. auto.
  - intros (o & k2 & r & id & -> & H). exists (FE o (s :: k2 :: r) id). split; [exact H|].
    cbn. rewrite str_eqb_refl. left. reflexivity.
Qed.

Lemma sub_map_fcons s k l :
  Forall fe_ok l -> sub s (map (fcons k) l) = if str_eqb k s then l else [].
Proof.
  induction l as [|e l IH]; intro H.
  - destruct (str_eqb k s); reflexivity.
  - inversion H as [|? ? He Hl]; subst. cbn [map]. unfold sub in *. cbn [flat_map]. rewrite (IH Hl).
    destruct e as [|o [|k2 r] id]; try destruct He. cbn [fcons sub1].
    destruct (str_eqb k s); reflexivity.
Qed.

Lemma sub_flatten_none s cs :
  (forall c cs', In c cs -> snd c = TNode cs' -> snd (fst c) <> s) -> sub s (flatten_m cs) = [].
Proof.
  induction cs as [|c rest IH]; intro H; [reflexivity|].
  rewrite flatten_m_cons, sub_app, IH by (intros c' cs' Hc'; apply H; right; exact Hc').
  rewrite app_nil_r. destruct c as [[o k] t]. cbn [fst snd]. destruct t as [id|cs']; [reflexivity|].
  rewrite flatten_t_node, sub_map_fcons by apply flatten_m_fe_ok.
  destruct (str_eqb k s) eqn:E; [|reflexivity]. apply str_eqb_eq in E.
  exfalso. apply (H (o, k, TNode cs') cs'); [left; reflexivity | reflexivity | exact E].
Qed.

Lemma sub_flatten s cs cs' :
  NoDup (map ckey cs) -> (forall c, In c cs -> child_ok c) ->
  In (false, s, TNode cs') cs -> sub s (flatten_m cs) = flatten_m cs'.
Proof.
  induction cs as [|c rest IH]; intros Hnd Hok Hin; [destruct Hin|].
  inversion Hnd as [|? ? Hn Hndr]; subst.
  rewrite flatten_m_cons, sub_app.
  assert (forall c2 cs2, In c2 rest -> snd c2 = TNode cs2 -> ckey c2 = RKStr false (snd (fst c2))) as Hck.
  { intros c2 cs2 Hc2 E2. assert (child_ok c2) as Hk by (apply Hok; right; exact Hc2).
    unfold child_ok in Hk. rewrite E2 in Hk. unfold ckey. destruct Hk as [-> _]. reflexivity. }
  destruct Hin as [->|Hin].
  - cbn [fst snd]. rewrite flatten_t_node, sub_map_fcons by apply flatten_m_fe_ok.
    rewrite str_eqb_refl. rewrite sub_flatten_none; [apply app_nil_r|].
    intros c2 cs2 Hc2 E2 Es. apply Hn. unfold ckey at 1. cbn [fst snd].
    rewrite <- Es, <- (Hck c2 cs2 Hc2 E2). apply in_map. exact Hc2.
  - rewrite (IH Hndr) by (try exact Hin; intros c' Hc'; apply Hok; right; exact Hc').
    replace (sub s (flatten_t (fst (fst c)) (snd (fst c)) (snd c))) with (@nil fent); [reflexivity|].
    destruct c as [[o k] t]. cbn [fst snd]. destruct t as [id|cs2]; [reflexivity|].
    rewrite flatten_t_node, sub_map_fcons by apply flatten_m_fe_ok.
    destruct (str_eqb k s) eqn:E; [|reflexivity]. apply str_eqb_eq in E. subst k.
    exfalso. apply Hn.
    assert (child_ok (o, s, TNode cs2)) as Hk by (apply Hok; left; reflexivity).
    unfold child_ok in Hk. cbn [fst snd] in Hk. destruct Hk as [-> _].
    change (ckey (false, s, TNode cs2)) with (ckey (false, s, TNode cs')).
    apply in_map. exact Hin.
Qed.

Lemma sub_perm s L1 L2 : Permutation L1 L2 -> Permutation (sub s L1) (sub s L2).
Proof. intro H. unfold sub. apply Permutation_flat_map. exact H. Qed.

Lemma wf_flatten_nonempty t :
  forall cs, t = TNode cs -> cs <> [] -> wf_tmap cs = true -> flatten_m cs <> [].
Proof.
  induction t as [id|cs0 IH] using tree_ind'; intros cs E Hne Hw; [discriminate|].
  inversion E; subst cs0. destruct cs as [|c rest]; [congruence|].
  apply wf_tmap_facts in Hw as [_ Hok]. specialize (Hok c (or_introl eq_refl)).
  inversion IH as [|? ? Hc _]; subst.
  rewrite flatten_m_cons. destruct c as [[o k] t]. cbn [fst snd] in *.
  destruct t as [id|cs'].
  - cbn. discriminate.
  - rewrite flatten_t_node. unfold child_ok in Hok. cbn [fst snd] in Hok. destruct Hok as (_ & Hne' & Hw').
    specialize (Hc cs' eq_refl Hne' Hw'). destruct (flatten_m cs'); [congruence | discriminate].
Qed.
