(* C16: a schema tree with forwarding custom types (SCustom) at arbitrary positions is
   indistinguishable from the tree with the wrappers erased: same validation errors (kind,
   path, actual value; the alternatives carried by a mismatch error compared up to
   erasure), same conformance, same substitution outcome. *)
From Coq Require Import PrimFloat.
Require Import D42.Prelude D42.PyFloat D42.Value D42.Regex D42.Schema D42.Validate D42.Conforms
               D42.CaseLib D42.FromNative D42.Substitute D42.Custom.
Require Import D42P.ListLemmas D42P.ContainerSpec D42P.ValidateSpec D42P.ValidateTotal.
Local Open Scope nat_scope.

(* ------------------------------------------------------------------ generic list facts *)
Lemma map_flat_map {A B C} (f : B -> C) (g : A -> list B) l :
  map f (flat_map g l) = flat_map (fun x => map f (g x)) l.
Proof. induction l as [|x r IH]; simpl; [reflexivity|]. rewrite map_app, IH. reflexivity. Qed.

Lemma flat_map_ext_in {A B} (f g : A -> list B) l :
  (forall x, In x l -> f x = g x) -> flat_map f l = flat_map g l.
Proof.
  induction l as [|x r IH]; intros H; simpl; [reflexivity|].
  rewrite (H x (or_introl eq_refl)), IH; [reflexivity|]. intros y Hy. apply H. right. exact Hy.
Qed.

(* relation lifted to optional elements (None = the `...` marker) *)
Definition ropt {A B} (R : A -> B -> Prop) (a : option A) (b : option B) : Prop :=
  match a, b with
  | Some x, Some y => R x y
  | None, None => True
  | _, _ => False end.

Section Shape.
  Context {A B : Type} (R : A -> B -> Prop).

  Lemma ropt_first_ell xs ys : Forall2 (ropt R) xs ys -> first_ell xs = first_ell ys.
  Proof. destruct 1 as [|x y ? ? H]; auto. destruct x, y; simpl in *; try contradiction; auto. Qed.

  Lemma ropt_last_ell xs ys : Forall2 (ropt R) xs ys -> last_ell xs = last_ell ys.
  Proof. intros H. unfold last_ell. apply Forall2_rev in H. apply ropt_first_ell in H. exact H. Qed.

  Lemma ropt_classify xs ys : Forall2 (ropt R) xs ys -> classify xs = classify ys.
  Proof.
    intros H. unfold classify.
    rewrite (Forall2_len _ _ _ H), (ropt_first_ell _ _ H), (ropt_last_ell _ _ H). reflexivity.
  Qed.

  Lemma ropt_middle xs ys : Forall2 (ropt R) xs ys -> Forall2 (ropt R) (middle xs) (middle ys).
  Proof.
    intros H. unfold middle. rewrite (ropt_classify _ _ H).
    destruct (classify ys); auto using Forall2_tl, Forall2_removelast.
  Qed.

  Lemma ropt_strip xs ys : Forall2 (ropt R) xs ys -> Forall2 R (strip xs) (strip ys).
  Proof.
    induction 1 as [|x y xs ys H _ IH]; simpl; auto.
    destruct x, y; simpl in *; try contradiction; auto.
  Qed.
End Shape.

(* ------------------------------------------------------------------ erase_err *)
Definition plain_errs (l : list verror) : Prop := Forall (fun e => erase_err e = e) l.

Lemma plain_map l : plain_errs l -> map erase_err l = l.
Proof. induction 1 as [|e r He _ IH]; simpl; [reflexivity|]. rewrite He, IH. reflexivity. Qed.

Lemma erase_err_nil l : map erase_err l = [] <-> l = [].
Proof. destruct l; simpl; split; auto; discriminate. Qed.

(* destruct the innermost match of the goal *)
Ltac dm :=
  match goal with
  | |- context [match ?x with _ => _ end] =>
      lazymatch x with
      | context [match _ with _ => _ end] => fail
      | _ => destruct x
      end
  end.
Ltac plain_solve := repeat dm; cbn; repeat constructor.

Lemma plain_v_none p v : plain_errs (v_none p v).
Proof. unfold plain_errs, v_none. plain_solve. Qed.
Lemma plain_check_value p v e : plain_errs (check_value p v e).
Proof. unfold plain_errs, check_value. plain_solve. Qed.
Lemma plain_v_bool val p v : plain_errs (v_bool val p v).
Proof. unfold plain_errs, v_bool, check_value. plain_solve. Qed.
Lemma plain_v_int val mn mx p v : plain_errs (v_int val mn mx p v).
Proof. unfold plain_errs, v_int, check_value. plain_solve. Qed.
Lemma plain_v_float val mn mx pr p v : plain_errs (v_float val mn mx pr p v).
Proof. unfold plain_errs, v_float. plain_solve. Qed.
Lemma plain_check_len p v n len mnl mxl : plain_errs (check_len p v n len mnl mxl).
Proof. unfold plain_errs, check_len. plain_solve. Qed.
Lemma plain_check_len_first p v n len mnl mxl : plain_errs (check_len_first p v n len mnl mxl).
Proof.
  unfold check_len_first. pose proof (plain_check_len p v n len mnl mxl) as H.
  destruct (check_len p v n len mnl mxl); [constructor|]. inversion H; subst. repeat constructor. assumption.
Qed.
Lemma plain_v_bytes val p v : plain_errs (v_bytes val p v).
Proof. unfold plain_errs, v_bytes, check_value. plain_solve. Qed.
Lemma plain_v_uuid val p v : plain_errs (v_uuid val p v).
Proof. unfold plain_errs, v_uuid, check_value. plain_solve. Qed.
Lemma plain_v_datetime val p v : plain_errs (v_datetime val p v).
Proof. unfold plain_errs, v_datetime, check_value. plain_solve. Qed.
Lemma plain_v_date val p v : plain_errs (v_date val p v).
Proof. unfold plain_errs, v_date, check_value. plain_solve. Qed.

Lemma plain_app a b : plain_errs a -> plain_errs b -> plain_errs (a ++ b).
Proof. intros. apply Forall_app. split; assumption. Qed.

Lemma plain_v_str val len mnl mxl al sub pat p v : plain_errs (v_str val len mnl mxl al sub pat p v).
Proof.
  unfold v_str. destruct v; try (repeat constructor).
  pose proof (fun e => plain_check_value p (VStr s) (VStr e)) as Hv.
  destruct val as [e|].
  - specialize (Hv e). destruct (check_value p (VStr s) (VStr e)) eqn:Ev; [|exact Hv].
    destruct pat as [pt|].
    + destruct (pat_search pt s); [|repeat constructor].
      apply plain_app; [apply plain_check_len|]. apply plain_app; unfold plain_errs; plain_solve.
    + apply plain_app; [apply plain_check_len|]. apply plain_app; unfold plain_errs; plain_solve.
  - destruct pat as [pt|].
    + destruct (pat_search pt s); [|repeat constructor].
      apply plain_app; [apply plain_check_len|]. apply plain_app; unfold plain_errs; plain_solve.
    + apply plain_app; [apply plain_check_len|]. apply plain_app; unfold plain_errs; plain_solve.
Qed.

(* ------------------------------------------------------------------ validate *)
(* g computes what f computes, up to erasure inside the errors *)
Definition eqv (g f : elemfn) : Prop := forall p x, g p x = map erase_err (f p x).

Lemma velems_eqv gs fs p l idx :
  Forall2 eqv gs fs -> velems gs p l idx = map erase_err (velems fs p l idx).
Proof.
  intros H. revert idx. induction H as [|g f gs fs Hgf _ IH]; intros idx; cbn [velems]; [reflexivity|].
  destruct (nth_error l idx) as [x|]; [|reflexivity].
  rewrite Hgf, IH, map_app. reflexivity.
Qed.

Lemma min_by_len_map {A B} (f : A -> B) w ws :
  min_by_len (map f w) (map (map f) ws) = map f (min_by_len w ws).
Proof.
  revert w. induction ws as [|x r IH]; intros w; cbn [min_by_len map]; [reflexivity|].
  rewrite !map_length. destruct (length x <? length w); apply IH.
Qed.

Lemma extras_plain p l n : map erase_err (extras p l n) = extras p l n.
Proof. unfold extras. rewrite map_map. reflexivity. Qed.

Lemma list_logic_eqv gs fs p l :
  Forall2 (ropt eqv) gs fs -> list_logic gs p l = map erase_err (list_logic fs p l).
Proof.
  intros H. unfold list_logic.
  pose proof (ropt_classify _ _ _ H) as Hc.
  pose proof (ropt_middle _ _ _ H) as Hm.
  pose proof (ropt_strip _ _ _ Hm) as Hs.
  rewrite Hc, (Forall2_len _ _ _ Hm), (Forall2_len _ _ _ H). cbv zeta.
  destruct (classify fs).
  - destruct l as [|x l]; [apply velems_eqv; exact Hs|].
    set (L := x :: l).
    assert (E : map (fun i => velems (strip (middle gs)) p L i) (seq 0 (length L)) =
                map (map erase_err) (map (fun i => velems (strip (middle fs)) p L i) (seq 0 (length L)))).
    { rewrite map_map. apply map_ext. intros i. apply velems_eqv. exact Hs. }
    rewrite E.
    destruct (map (fun i => velems (strip (middle fs)) p L i) (seq 0 (length L))) as [|w ws];
      [reflexivity|].
    cbn [map]. apply min_by_len_map.
  - apply velems_eqv; exact Hs.
  - apply velems_eqv; exact Hs.
  - rewrite map_app, extras_plain. f_equal. apply velems_eqv; exact Hs.
Qed.

Lemma typed_logic_eqv m g f p l :
  eqv g f -> typed_logic m g p l = map erase_err (typed_logic m f p l).
Proof.
  intros H. unfold typed_logic. rewrite map_flat_map. apply flat_map_ext_in. intros [i x] _.
  cbn [fst snd]. destruct (skip_ell m i (length l) x); [reflexivity | apply H].
Qed.

Definition eqvd (g f : key * (option elemfn * bool)) : Prop :=
  fst g = fst f /\ snd (snd g) = snd (snd f) /\ ropt eqv (fst (snd g)) (fst (snd f)).

Lemma eqvd_declared gs fs k : Forall2 eqvd gs fs -> declared k gs = declared k fs.
Proof. induction 1 as [|g f gs fs (Hk & _) _ IH]; simpl; auto. rewrite Hk, IH. reflexivity. Qed.

Lemma dict_extras_plain {A} (fs : list (key * A)) p d :
  map erase_err (dict_extras fs p d) = dict_extras fs p d.
Proof.
  unfold dict_extras. destruct (declared KEll fs); [reflexivity|].
  rewrite map_flat_map. apply flat_map_ext_in. intros kv _.
  destruct (declared (fst kv) fs); reflexivity.
Qed.

Lemma dict_logic_eqv m gs fs p d :
  Forall2 eqvd gs fs -> dict_logic m gs p d = map erase_err (dict_logic m fs p d).
Proof.
  intros H. unfold dict_logic. rewrite map_app, dict_extras_plain. f_equal.
  - unfold dict_members. induction H as [|[k [g o]] [k' [f o']] gs fs (Hk & Ho & Hr) _ IH];
      [reflexivity|].
    cbn [flat_map]. rewrite map_app, <- IH. f_equal. simpl in Hk, Ho, Hr. subst k' o'.
    destruct (is_kell k); [reflexivity|].
    destruct (assoc k d) as [x|].
    + destruct g as [g|], f as [f|]; simpl in Hr; try contradiction.
      * destruct m; [apply Hr|]. destruct x; try apply Hr. reflexivity.
      * destruct m; [reflexivity|]. destruct x; reflexivity.
    + destruct m; [|reflexivity]. destruct o; reflexivity.
  - unfold dict_extras. rewrite (eqvd_declared _ _ KEll H). destruct (declared KEll fs); [reflexivity|].
    apply flat_map_ext_in. intros kv _. rewrite (eqvd_declared _ _ (fst kv) H). reflexivity.
Qed.

Lemma any_logic_eqv ts gs fs p v :
  Forall2 eqv gs fs -> any_logic (map erase ts) gs p v = map erase_err (any_logic ts fs p v).
Proof.
  intros H. unfold any_logic.
  assert (E : existsb (fun f : elemfn => match f p v with [] => true | _ => false end) gs =
              existsb (fun f : elemfn => match f p v with [] => true | _ => false end) fs).
  { induction H as [|g f gs fs Hgf _ IH]; simpl; [reflexivity|].
    rewrite IH, Hgf. destruct (f p v); reflexivity. }
  unfold elemfn in *. rewrite E. destruct (existsb _ fs); reflexivity.
Qed.

Theorem erase_validate_lemma :
  forall m s p v, validate m (erase s) p v = map erase_err (validate m s p v).
Proof.
  intros m.
  induction s as [ | val | val mn mx | val mn mx pr | val len mnl mxl al sub pat
                 | es ty len mnl mxl IHes IHty | ks IHks | ts IHts
                 | val | val | val | val | nm t IHt | t IHt ] using schema_ind';
    intros p v.
  - symmetry. apply plain_map, plain_v_none.
  - symmetry. apply plain_map, plain_v_bool.
  - symmetry. apply plain_map, plain_v_int.
  - symmetry. apply plain_map, plain_v_float.
  - symmetry. apply plain_map, plain_v_str.
  - (* list *)
    cbn [erase validate]. destruct v; try reflexivity.
    pose proof (plain_check_len_first p (VList l) (zlen l) len mnl mxl) as Hl.
    destruct (check_len_first p (VList l) (zlen l) len mnl mxl) as [|e0 r0] eqn:EL.
    2:{ symmetry. apply plain_map. exact Hl. }
    destruct ty as [t|].
    + apply typed_logic_eqv. intros p0 x. apply (IHty t eq_refl).
    + destruct es as [es'|]; [|reflexivity].
      rewrite map_map. apply list_logic_eqv. specialize (IHes es' eq_refl).
      induction IHes as [|o r Ho _ IH]; cbn [map]; constructor; [|exact IH].
      destruct o as [sch|]; simpl; [|exact I]. intros p0 x. apply (Ho sch eq_refl).
  - (* dict *)
    cbn [erase validate]. destruct v; try reflexivity.
    destruct ks as [ents|]; [|reflexivity].
    rewrite map_map. apply dict_logic_eqv. specialize (IHks ents eq_refl).
    induction IHks as [|e r He _ IH]; cbn [map]; constructor; [|exact IH].
    unfold eqvd. cbn [fst snd de_key de_schema de_opt]. repeat split.
    destruct (de_schema e) as [sch|] eqn:Es; simpl; [|exact I].
    intros p0 x. apply (He sch). reflexivity.
  - (* any *)
    cbn [erase validate]. destruct ts as [ts'|]; [|reflexivity].
    rewrite map_map. apply any_logic_eqv. specialize (IHts ts' eq_refl).
    induction IHts as [|t r Ht _ IH]; cbn [map]; constructor; [|exact IH].
    intros p0 x. apply Ht.
  - symmetry. apply plain_map, plain_v_bytes.
  - symmetry. apply plain_map, plain_v_uuid.
  - symmetry. apply plain_map, plain_v_datetime.
  - symmetry. apply plain_map, plain_v_date.
  - cbn [erase validate]. apply IHt.
  - cbn [erase validate]. apply IHt.
Qed.

(* consequences that do not mention erase_err *)
Lemma erase_err_path e : epath (erase_err e) = epath e. Proof. reflexivity. Qed.
Lemma erase_err_actual e : eactual (erase_err e) = eactual e. Proof. reflexivity. Qed.
Corollary erase_validate_paths m s p v :
  map epath (validate m (erase s) p v) = map epath (validate m s p v) /\
  map eactual (validate m (erase s) p v) = map eactual (validate m s p v) /\
  length (validate m (erase s) p v) = length (validate m s p v).
Proof.
  rewrite erase_validate_lemma, !map_map, map_length. repeat split.
Qed.

Corollary erase_verdict m s v : verdict_m m (erase s) v = verdict_m m s v.
Proof.
  unfold verdict_m. rewrite erase_validate_lemma. destruct (validate m s [] v); reflexivity.
Qed.

(* ------------------------------------------------------------------ well-formedness *)
Definition erase_opt (o : option schema) : option schema :=
  match o with Some e => Some (erase e) | None => None end.
Definition erase_entry (e : dentry) : dentry := (de_key e, erase_opt (de_schema e), de_opt e).

Lemma erase_list_unfold es ty len mnl mxl :
  erase (SList es ty len mnl mxl) =
  SList (match es with Some l => Some (map erase_opt l) | None => None end) (erase_opt ty) len mnl mxl.
Proof. reflexivity. Qed.
Lemma erase_dict_unfold ks :
  erase (SDict ks) = SDict (match ks with Some l => Some (map erase_entry l) | None => None end).
Proof. reflexivity. Qed.
Lemma erase_any_unfold ts :
  erase (SAny ts) = SAny (match ts with Some l => Some (map erase l) | None => None end).
Proof. reflexivity. Qed.

Lemma erase_wf_lemma : forall s, wf (erase s) = wf s.
Proof.
  induction s as [ | val | val mn mx | val mn mx pr | val len mnl mxl al sub pat
                 | es ty len mnl mxl IHes IHty | ks IHks | ts IHts
                 | val | val | val | val | nm t IHt | t IHt ] using schema_ind'; try reflexivity.
  - rewrite erase_list_unfold. cbn [wf]. f_equal.
    + destruct es as [l|]; [|reflexivity]. specialize (IHes l eq_refl). f_equal.
      * change (map erase_opt l) with (map (option_map erase) l). apply elems_wf_map.
      * rewrite map_map. f_equal. induction IHes as [|o r Ho _ IH]; cbn [map]; [reflexivity|].
        rewrite IH. f_equal. destruct o as [e|]; [apply (Ho e eq_refl) | reflexivity].
    + destruct ty as [t|]; [apply (IHty t eq_refl) | reflexivity].
  - rewrite erase_dict_unfold. destruct ks as [l|]; [|reflexivity]. specialize (IHks l eq_refl).
    cbn [wf]. f_equal; [f_equal|].
    + induction l as [|e r IH]; cbn [map forallb]; [reflexivity|].
      inversion IHks; subst. rewrite (IH H2). f_equal.
      destruct e as [[k s] o]. unfold erase_entry. cbn [de_key de_schema de_opt fst snd].
      destruct k, s, o; reflexivity.
    + rewrite map_map. reflexivity.
    + rewrite map_map. f_equal. induction IHks as [|e r He _ IH]; cbn [map]; [reflexivity|].
      rewrite IH. f_equal. unfold erase_entry. cbn [de_schema fst snd].
      destruct (de_schema e) as [t|] eqn:Es; [apply (He t); reflexivity | reflexivity].
  - rewrite erase_any_unfold. destruct ts as [l|]; [|reflexivity]. specialize (IHts l eq_refl).
    cbn [wf]. rewrite map_map. f_equal.
    induction IHts as [|t r Ht _ IH]; cbn [map]; [reflexivity|]. rewrite IH, Ht. reflexivity.
  - cbn [erase wf]. exact IHt.
  - cbn [erase wf]. exact IHt.
Qed.

Lemma list_sum_zero {A} (f : A -> nat) l : Forall (fun x => f x = 0) l -> list_sum (map f l) = 0.
Proof. induction 1 as [|x r Hx _ IH]; simpl; [reflexivity|]. rewrite Hx. exact IH. Qed.

Lemma erase_customs : forall s, customs (erase s) = 0.
Proof.
  induction s as [ | val | val mn mx | val mn mx pr | val len mnl mxl al sub pat
                 | es ty len mnl mxl IHes IHty | ks IHks | ts IHts
                 | val | val | val | val | nm t IHt | t IHt ] using schema_ind'; try reflexivity.
  - rewrite erase_list_unfold. cbn [customs].
    assert (E1 : match (match es with Some l => Some (map erase_opt l) | None => None end) with
                 | Some l => list_sum (map (fun o => match o with Some e => customs e | None => 0 end) l)
                 | None => 0 end = 0).
    { destruct es as [l|]; [|reflexivity]. specialize (IHes l eq_refl). rewrite map_map.
      apply list_sum_zero. induction IHes as [|o r Ho _ IH]; constructor; [|exact IH].
      destruct o as [e|]; simpl; [apply (Ho e eq_refl) | reflexivity]. }
    rewrite E1. destruct ty as [t|]; simpl; [apply (IHty t eq_refl) | reflexivity].
  - rewrite erase_dict_unfold. destruct ks as [l|]; [|reflexivity]. specialize (IHks l eq_refl).
    cbn [customs]. rewrite map_map. apply list_sum_zero.
    induction IHks as [|e r He _ IH]; constructor; [|exact IH].
    unfold erase_entry. cbn [de_schema fst snd].
    destruct (de_schema e) as [t|] eqn:Es; simpl; [apply (He t eq_refl) | reflexivity].
  - rewrite erase_any_unfold. destruct ts as [l|]; [|reflexivity]. specialize (IHts l eq_refl).
    cbn [customs]. rewrite map_map. apply list_sum_zero. exact IHts.
  - cbn [erase customs]. exact IHt.
  - cbn [erase]. exact IHt.
Qed.

(* ------------------------------------------------------------------ conforms (no wf needed) *)
Definition peq (c' c : value -> Prop) : Prop := forall x, c' x <-> c x.

Lemma Forall2_app_ext (cs' cs : list (value -> Prop)) l :
  Forall2 peq cs' cs -> (Forall2 (fun c x => c x) cs' l <-> Forall2 (fun c x => c x) cs l).
Proof.
  intros H. revert l. induction H as [|c' c cs' cs Hc _ IH]; intros l.
  - split; intros H0; inversion H0; constructor.
  - split; intros H0; inversion H0; subst; constructor; try (apply Hc; assumption); apply IH; assumption.
Qed.

Lemma list_spec_ext cs' cs l : Forall2 (ropt peq) cs' cs -> (list_spec cs' l <-> list_spec cs l).
Proof.
  intros H. unfold list_spec.
  pose proof (ropt_classify _ _ _ H) as Hc.
  pose proof (ropt_strip _ _ _ (ropt_middle _ _ _ H)) as Hs.
  rewrite Hc. cbv zeta. destruct (classify cs).
  - split; intros (l1 & lm & l2 & E & H0); exists l1, lm, l2; (split; [exact E|]);
      apply (Forall2_app_ext _ _ lm Hs); exact H0.
  - split; intros (lm & l2 & E & H0); exists lm, l2; (split; [exact E|]);
      apply (Forall2_app_ext _ _ lm Hs); exact H0.
  - split; intros (l1 & lm & E & H0); exists l1, lm; (split; [exact E|]);
      apply (Forall2_app_ext _ _ lm Hs); exact H0.
  - apply Forall2_app_ext. exact Hs.
Qed.

Definition peqd (c' c : key * (option (value -> Prop) * bool)) : Prop :=
  fst c' = fst c /\ snd (snd c') = snd (snd c) /\ ropt peq (fst (snd c')) (fst (snd c)).

Lemma peqd_declared cs' cs k : Forall2 peqd cs' cs -> declared k cs' = declared k cs.
Proof. induction 1 as [|c' c cs' cs (Hk & _) _ IH]; simpl; auto. rewrite Hk, IH. reflexivity. Qed.

Lemma peqd_In_l cs' cs k c o :
  Forall2 peqd cs' cs -> In (k, (c, o)) cs -> exists c', In (k, (c', o)) cs' /\ ropt peq c' c.
Proof.
  induction 1 as [|[k1 [c1 o1]] [k2 [c2 o2]] cs' cs (Hk & Ho & Hr) _ IH]; intros Hin; [contradiction|].
  simpl in Hk, Ho, Hr. subst k2 o2. destruct Hin as [E|Hin].
  - inversion E; subst. exists c1. split; [left; reflexivity | exact Hr].
  - destruct (IH Hin) as (c' & H1 & H2). exists c'. split; [right; exact H1 | exact H2].
Qed.

Lemma peqd_In_r cs' cs k c' o :
  Forall2 peqd cs' cs -> In (k, (c', o)) cs' -> exists c, In (k, (c, o)) cs /\ ropt peq c' c.
Proof.
  induction 1 as [|[k1 [c1 o1]] [k2 [c2 o2]] cs' cs (Hk & Ho & Hr) _ IH]; intros Hin; [contradiction|].
  simpl in Hk, Ho, Hr. subst k2 o2. destruct Hin as [E|Hin].
  - inversion E; subst. exists c2. split; [left; reflexivity | exact Hr].
  - destruct (IH Hin) as (c & H1 & H2). exists c. split; [right; exact H1 | exact H2].
Qed.

Lemma dict_spec_ext cs' cs d : Forall2 peqd cs' cs -> (dict_spec cs' d <-> dict_spec cs d).
Proof.
  intros H. unfold dict_spec. rewrite (peqd_declared _ _ KEll H). split; intros [H1 H2]; split.
  - intros k c o Hin Hk. destruct (peqd_In_l _ _ _ _ _ H Hin) as (c' & Hin' & Hr).
    specialize (H1 k c' o Hin' Hk). destruct (assoc k d); [|exact H1].
    destruct c', c; simpl in *; try contradiction; auto. apply Hr. exact H1.
  - intros Hr k x Hin. rewrite <- (peqd_declared _ _ k H). eapply H2; eauto.
  - intros k c' o Hin Hk. destruct (peqd_In_r _ _ _ _ _ H Hin) as (c & Hin' & Hr).
    specialize (H1 k c o Hin' Hk). destruct (assoc k d); [|exact H1].
    destruct c', c; simpl in *; try contradiction; auto. apply Hr. exact H1.
  - intros Hr k x Hin. rewrite (peqd_declared _ _ k H). eapply H2; eauto.
Qed.

Theorem erase_conforms_lemma : forall s v, conforms (erase s) v <-> conforms s v.
Proof.
  induction s as [ | val | val mn mx | val mn mx pr | val len mnl mxl al sub pat
                 | es ty len mnl mxl IHes IHty | ks IHks | ts IHts
                 | val | val | val | val | nm t IHt | t IHt ] using schema_ind';
    intros v; try (cbn [erase]; tauto).
  - rewrite erase_list_unfold. cbn [conforms].
    assert (G : forall l,
      match erase_opt ty with
      | Some t => Forall (conforms t) l
      | None => match (match es with Some l0 => Some (map erase_opt l0) | None => None end) with
                | None => True
                | Some es' => list_spec (map (fun e => match e with Some sch => Some (conforms sch) | None => None end) es') l
                end end <->
      match ty with
      | Some t => Forall (conforms t) l
      | None => match es with
                | None => True
                | Some es' => list_spec (map (fun e => match e with Some sch => Some (conforms sch) | None => None end) es') l
                end end).
    { intros l. destruct ty as [t|]; cbn [erase_opt].
      - rewrite !Forall_forall. split; intros H x Hx; apply (IHty t eq_refl), H; exact Hx.
      - destruct es as [es'|]; [|tauto]. apply list_spec_ext. specialize (IHes es' eq_refl).
        rewrite map_map. induction IHes as [|o r Ho _ IH]; cbn [map]; constructor; [|exact IH].
        destruct o as [sch|]; simpl; [|exact I]. intros x. apply (Ho sch eq_refl). }
    split; intros (l & E & HL & H); exists l; (split; [exact E|]); (split; [exact HL|]); apply G; exact H.
  - rewrite erase_dict_unfold. cbn [conforms]. destruct ks as [ents|]; [|tauto].
    assert (G : forall d,
      dict_spec (map (fun e : dentry => (de_key e, (match de_schema e with Some sch => Some (conforms sch) | None => None end, de_opt e))) (map erase_entry ents)) d <->
      dict_spec (map (fun e : dentry => (de_key e, (match de_schema e with Some sch => Some (conforms sch) | None => None end, de_opt e))) ents) d).
    { intros d. apply dict_spec_ext. specialize (IHks ents eq_refl). rewrite map_map.
      induction IHks as [|e r He _ IH]; cbn [map]; constructor; [|exact IH].
      unfold peqd, erase_entry. cbn [fst snd de_key de_schema de_opt]. repeat split.
      destruct (de_schema e) as [sch|] eqn:Es; simpl; [|exact I]. intros x. apply (He sch eq_refl). }
    split; intros (d & E & H); exists d; (split; [exact E|]); apply G; exact H.
  - rewrite erase_any_unfold. cbn [conforms]. destruct ts as [ts'|]; [|tauto].
    specialize (IHts ts' eq_refl). rewrite map_map.
    induction IHts as [|t r Ht _ IH]; cbn [map fold_right]; [tauto|]. rewrite Ht, IH. tauto.
  - cbn [erase conforms]. apply IHt.
  - cbn [erase conforms]. apply IHt.
Qed.

(* ------------------------------------------------------------------ validateR *)
(* on well-formed trees, through validate_total (C08) *)
Lemma erase_validateR_wf m s p v :
  wf s = true -> validateR m (erase s) p v = rmap (map erase_err) (validateR m s p v).
Proof.
  intros Hwf.
  rewrite (validate_total_lemma m s Hwf p v).
  rewrite (validate_total_lemma m (erase s) (eq_trans (erase_wf_lemma s) Hwf) p v).
  cbn [rmap]. rewrite erase_validate_lemma. reflexivity.
Qed.

(* ------------------------------------------------------------------ values: induction principle *)
Section ValueInd.
  Variable P : value -> Prop.
  Hypothesis HList : forall l, Forall P l -> P (VList l).
  Hypothesis HDict : forall d, Forall (fun kv : key * value => P (snd kv)) d -> P (VDict d).
  Hypothesis HLeaf : forall v, match v with VList _ | VDict _ => False | _ => True end -> P v.

  Fixpoint value_ind' (v : value) : P v :=
    match v as v0 return P v0 with
    | VList l =>
        HList l ((fix go (l : list value) : Forall P l :=
                    match l with
                    | [] => Forall_nil _
                    | x :: r => Forall_cons x (value_ind' x) (go r)
                    end) l)
    | VDict d =>
        HDict d ((fix go (d : list (key * value)) : Forall (fun kv : key * value => P (snd kv)) d :=
                    match d with
                    | [] => Forall_nil _
                    | kv :: r =>
                        Forall_cons kv
                          (match kv as kv0 return P (snd kv0) with (k, x) => value_ind' x end) (go r)
                    end) d)
    | VNone => HLeaf VNone I
    | VBool b => HLeaf (VBool b) I
    | VInt z => HLeaf (VInt z) I
    | VFloat f => HLeaf (VFloat f) I
    | VStr s => HLeaf (VStr s) I
    | VBytes b => HLeaf (VBytes b) I
    | VUuid n => HLeaf (VUuid n) I
    | VDatetime a us => HLeaf (VDatetime a us) I
    | VDate o => HLeaf (VDate o) I
    | VEllipsis => HLeaf VEllipsis I
    | VNil => HLeaf VNil I
    | VOther t => HLeaf (VOther t) I
    end.
End ValueInd.

(* ------------------------------------------------------------------ result monad *)
Lemma rsequence_Forall2 {A B} (f : A -> result B) l ys :
  rsequence (map f l) = Ok ys -> Forall2 (fun x y => f x = Ok y) l ys.
Proof.
  revert ys. induction l as [|x r IH]; intros ys; cbn [map rsequence bind].
  - intros E. injection E as <-. constructor.
  - destruct (f x) as [y| |] eqn:Ex; try discriminate. cbn [bind].
    destruct (rsequence (map f r)) as [ys'| |]; try discriminate. cbn [bind].
    intros E. injection E as <-. constructor; [exact Ex | apply IH; reflexivity].
Qed.

Lemma rsequence_map2 {A A' B B'} (g : A' -> result B') (f : A -> result B) (h : B -> B') l' l :
  Forall2 (fun a' a => g a' = rmap h (f a)) l' l ->
  rsequence (map g l') = rmap (map h) (rsequence (map f l)).
Proof.
  induction 1 as [|a' a l' l Ha _ IH]; cbn [map rsequence]; [reflexivity|].
  rewrite Ha, IH. destruct (f a); cbn [rmap bind]; try reflexivity.
  destruct (rsequence (map f l)); reflexivity.
Qed.

Lemma Forall2_same {A} (R : A -> A -> Prop) l : Forall (fun a => R a a) l -> Forall2 R l l.
Proof. induction 1; constructor; assumption. Qed.

Lemma Forall2_map_l {A B C} (R : B -> C -> Prop) (f : A -> B) l l' :
  Forall2 (fun a c => R (f a) c) l l' -> Forall2 R (map f l) l'.
Proof. induction 1; constructor; assumption. Qed.

(* ------------------------------------------------------------------ from_native has no wrappers *)
Definition fixed (s : schema) : Prop := erase s = s.
Definition fixed_opt (o : option schema) : Prop := erase_opt o = o.
Definition fixed_entry (e : dentry) : Prop := erase_opt (de_schema e) = de_schema e.

Lemma fixed_opts_map l : Forall fixed_opt l -> map erase_opt l = l.
Proof. induction 1 as [|o r Ho _ IH]; cbn [map]; [reflexivity|]. rewrite Ho, IH. reflexivity. Qed.

Lemma fixed_entries_map l : Forall fixed_entry l -> map erase_entry l = l.
Proof.
  induction 1 as [|e r He _ IH]; cbn [map]; [reflexivity|]. rewrite IH. f_equal.
  unfold erase_entry. unfold fixed_entry in He. rewrite He. destruct e as [[k s] o]. reflexivity.
Qed.

Lemma from_native_fixed : forall v s, from_native v = Ok s -> fixed s.
Proof.
  induction v as [l IH | d IH | v Hv] using value_ind'; intros s.
  - cbn [from_native]. destruct (rsequence (map (fun x => from_native x) l)) as [es| |] eqn:E;
      cbn [bind]; try discriminate.
    intros H. injection H as <-. unfold fixed. rewrite erase_list_unfold. cbn [erase_opt]. f_equal. f_equal.
    apply fixed_opts_map. apply rsequence_Forall2 in E.
    clear - IH E. induction E as [|x y l es Hxy _ IH2]; cbn [map]; constructor.
    + inversion IH; subst. unfold fixed_opt. cbn [erase_opt]. f_equal. apply (H1 y Hxy).
    + apply IH2. inversion IH; assumption.
  - cbn [from_native]. destruct (existsb (fun kv => is_kell (fst kv)) d); [discriminate|].
    destruct (rsequence (map (fun kv => rmap (fun s0 => (fst kv, s0)) (from_native (snd kv))) d))
      as [ents| |] eqn:E; cbn [bind]; try discriminate.
    intros H. injection H as <-. unfold fixed, dict_of_natives. rewrite erase_dict_unfold. f_equal. f_equal.
    apply fixed_entries_map. apply rsequence_Forall2 in E.
    clear - IH E. induction E as [|kv y d ents Hxy _ IH2]; cbn [map]; constructor.
    + inversion IH; subst. unfold fixed_entry. cbn [de_schema fst snd erase_opt]. f_equal.
      destruct (from_native (snd kv)) as [s0| |] eqn:Es; cbn [rmap] in Hxy; try discriminate.
      injection Hxy as <-. cbn [snd]. apply (H1 s0 eq_refl).
    + apply IH2. inversion IH; assumption.
  - destruct v; try contradiction; cbn [from_native]; intros H; try discriminate;
      try (injection H as <-; reflexivity).
    destruct (uuid_is_v4 n); [injection H as <-; reflexivity | discriminate].
Qed.

Lemma sub_from_native_fixed v s : sub_from_native v = Ok s -> fixed s.
Proof.
  unfold sub_from_native. destruct (from_native v) as [s0|k|e] eqn:E.
  - intros H. injection H as <-. eapply from_native_fixed; eauto.
  - discriminate.
  - destruct e; discriminate.
Qed.

Lemma rmap_fixed {A} (h : A -> A) (r : result A) :
  (forall a, r = Ok a -> h a = a) -> rmap h r = r.
Proof. destruct r; intros H; cbn [rmap]; [rewrite (H a eq_refl)|..]; reflexivity. Qed.

Lemma natives_fixed l ns : natives l = Ok ns -> map erase_opt ns = ns.
Proof.
  unfold natives.
  destruct (rsequence (map sub_from_native l)) as [ss| |] eqn:E; cbn [rmap]; try discriminate.
  intros H. injection H as <-. apply fixed_opts_map. apply rsequence_Forall2 in E.
  induction E as [|x y l ss Hxy _ IH]; cbn [map]; constructor; [|exact IH].
  unfold fixed_opt. cbn [erase_opt]. f_equal. eapply sub_from_native_fixed; eauto.
Qed.

(* ------------------------------------------------------------------ substitution pieces *)
Definition seqv (g f : substfn) : Prop := forall x, g x = rmap erase (f x).

Lemma subst_run_eqv gs fs l idx :
  Forall2 (ropt seqv) gs fs -> subst_run gs l idx = rmap (map erase_opt) (subst_run fs l idx).
Proof.
  intros H. revert idx. induction H as [|g f gs fs Hgf _ IH]; intros idx; cbn [subst_run]; [reflexivity|].
  destruct (nth_error l idx) as [x|]; [|reflexivity].
  destruct g as [g|], f as [f|]; simpl in Hgf; try contradiction; [|reflexivity].
  rewrite Hgf, IH. destruct (f x); cbn [rmap bind]; try reflexivity.
  destruct (subst_run fs l (S idx)); reflexivity.
Qed.

Lemma subst_elements_eqv gs fs l start :
  Forall2 (ropt seqv) gs fs ->
  subst_elements gs l start = rmap (map erase_opt) (subst_elements fs l start).
Proof.
  intros H. unfold subst_elements. rewrite (subst_run_eqv _ _ _ _ H).
  destruct (subst_run fs l start) as [mid| |]; cbn [rmap bind]; try reflexivity.
  rewrite map_length.
  destruct (natives (skipn (start + length mid) l)) as [suffix| |] eqn:E1; cbn [rmap bind]; try reflexivity.
  destruct (natives (firstn start l)) as [prefix| |] eqn:E2; cbn [rmap bind]; try reflexivity.
  rewrite !map_app, (natives_fixed _ _ E1), (natives_fixed _ _ E2). reflexivity.
Qed.

Lemma first_window_eqv gs fs l idxs :
  Forall2 (ropt seqv) gs fs ->
  first_window gs l idxs = rmap (map erase_opt) (first_window fs l idxs).
Proof.
  intros H. induction idxs as [|i r IH]; cbn [first_window]; [reflexivity|].
  rewrite (subst_elements_eqv _ _ _ _ H).
  destruct (subst_elements fs l i) as [x|[]|e]; cbn [rmap]; try reflexivity. exact IH.
Qed.

Lemma subst_list_elements_eqv gs fs l :
  Forall2 (ropt seqv) gs fs ->
  subst_list_elements gs l = rmap (map erase_opt) (subst_list_elements fs l).
Proof.
  intros H. unfold subst_list_elements. destruct (existsb is_vell l); [reflexivity|].
  pose proof (ropt_middle _ _ _ H) as Hm.
  rewrite (ropt_classify _ _ _ H), (Forall2_len _ _ _ Hm). cbv zeta.
  destruct (classify fs).
  - apply first_window_eqv; exact Hm.
  - apply subst_elements_eqv; exact Hm.
  - apply subst_elements_eqv; exact Hm.
  - apply subst_elements_eqv; exact Hm.
Qed.

(* dict assignment on entries *)
Lemma set_entry_nil k s o : set_entry k s o [] = [(k, s, o)].
Proof. reflexivity. Qed.

Lemma back_fwd (r : list dentry) :
  map (fun e : key * (option schema * bool) => (fst e, fst (snd e), snd (snd e)))
      (map (fun e : dentry => (de_key e, (de_schema e, de_opt e))) r) = r.
Proof.
  rewrite map_map. rewrite <- (map_id r) at 2. apply map_ext. intros [[k0 s0] o0]. reflexivity.
Qed.

Lemma set_entry_cons k s o e r :
  set_entry k s o (e :: r) =
  if key_eqb k (de_key e) then (de_key e, s, o) :: r else e :: set_entry k s o r.
Proof.
  destruct e as [[k0 s0] o0]. unfold set_entry. cbn [map dict_set de_key de_schema de_opt fst snd].
  destruct (key_eqb k k0); cbn [map fst snd]; [|reflexivity].
  rewrite back_fwd. reflexivity.
Qed.

Lemma set_entry_fixed k s o d :
  fixed_opt s -> Forall fixed_entry d -> Forall fixed_entry (set_entry k s o d).
Proof.
  intros Hs. induction 1 as [|e r He Hr IH].
  - rewrite set_entry_nil. repeat constructor. exact Hs.
  - rewrite set_entry_cons. destruct (key_eqb k (de_key e)); constructor; auto.
Qed.

Lemma native_entries_fixed d : forall acc ents,
  native_entries d acc = Ok ents -> Forall fixed_entry acc -> Forall fixed_entry ents.
Proof.
  induction d as [|[k x] r IH]; intros acc ents; cbn [native_entries].
  - intros E. injection E as <-. auto.
  - destruct (is_vell x).
    + cbn [bind]. intros E Hacc. apply (IH _ _ E). apply set_entry_fixed; [destruct (is_kell k); reflexivity | exact Hacc].
    + destruct (sub_from_native x) as [s| |] eqn:Es; cbn [rmap bind]; try discriminate.
      intros E Hacc. apply (IH _ _ E). apply set_entry_fixed; [|exact Hacc].
      unfold fixed_opt. cbn [erase_opt]. f_equal. eapply sub_from_native_fixed; eauto.
Qed.

Lemma forallb_ext' {A} (f g : A -> bool) l : (forall x, f x = g x) -> forallb f l = forallb g l.
Proof. intros H. induction l as [|x r IH]; simpl; [reflexivity|]. rewrite H, IH. reflexivity. Qed.

Definition seqvd (g f : key * (option schema * option substfn * bool)) : Prop :=
  fst g = fst f /\ snd (snd g) = snd (snd f) /\
  fst (fst (snd g)) = erase_opt (fst (fst (snd f))) /\
  ropt seqv (snd (fst (snd g))) (snd (fst (snd f))).

Lemma seqvd_declared gs fs k : Forall2 seqvd gs fs -> declared k gs = declared k fs.
Proof. induction 1 as [|g f gs fs (Hk & _) _ IH]; simpl; auto. rewrite Hk, IH. reflexivity. Qed.

Lemma subst_dict_entries_eqv gs fs d :
  Forall2 seqvd gs fs ->
  subst_dict_entries gs d = rmap (map erase_entry) (subst_dict_entries fs d).
Proof.
  intros H. unfold subst_dict_entries. destruct (has_key KEll d); [reflexivity|].
  rewrite (rsequence_map2 _ (fun e : key * (option schema * option substfn * bool) =>
      let '(k, (orig, f, opt)) := e in
      match assoc k d with
      | Some x =>
          if is_vell x then Ok (k, orig, false)
          else match f with
               | None => Raise AttributeError
               | Some f => do s <- f x; Ok (k, Some s, false)
               end
      | None => Ok (k, orig, opt)
      end) erase_entry gs fs).
  - destruct (rsequence _) as [ents| |]; cbn [rmap bind]; try reflexivity.
    assert (E : forallb (fun kv : key * value => declared (fst kv) gs) d =
                forallb (fun kv : key * value => declared (fst kv) fs) d).
    { apply forallb_ext'. intros kv. apply seqvd_declared. exact H. }
    rewrite E. clear E. destruct (forallb (fun kv : key * value => declared (fst kv) fs) d); reflexivity.
  - clear - H. induction H as [|[k [[o' g] b']] [k2 [[o f] b]] gs fs (Hk & Hb & Ho & Hr) _ IH];
      constructor; [|exact IH].
    simpl in Hk, Hb, Ho, Hr. subst k2 b' o'.
    destruct (assoc k d) as [x|]; [|reflexivity].
    destruct (is_vell x); [reflexivity|].
    destruct g as [g|], f as [f|]; simpl in Hr; try contradiction; [|reflexivity].
    rewrite Hr. destruct (f x); reflexivity.
Qed.

Lemma any_subst_eqv gs fs v :
  Forall2 seqv gs fs -> any_subst gs v = rmap (map erase) (any_subst fs v).
Proof.
  induction 1 as [|g f gs fs Hgf _ IH]; cbn [any_subst]; [reflexivity|].
  rewrite Hgf, IH. destruct (f v) as [s|[]|e]; cbn [rmap bind]; try reflexivity.
  destruct (any_subst fs v); reflexivity.
Qed.

(* ------------------------------------------------------------------ substitute *)
Lemma validate_nil_erase m s p v :
  validate m (erase s) p v = [] <-> validate m s p v = [].
Proof. rewrite erase_validate_lemma. apply erase_err_nil. Qed.

Lemma relaxed_only_erase (ents : list dentry) :
  (Nat.eqb (length (map erase_entry ents)) 1 &&
   declared KEll (map (fun e : dentry => (de_key e, tt)) (map erase_entry ents))) =
  (Nat.eqb (@length (key * option schema * bool)%type ents) 1 &&
   declared KEll (map (fun e : dentry => (de_key e, tt)) ents)).
Proof. rewrite map_length, map_map. reflexivity. Qed.

Theorem erase_subst_lemma :
  forall s v, substitute (erase s) v = rmap erase (substitute s v).
Proof.
  induction s as [ | val | val mn mx | val mn mx pr | val len mnl mxl al sub pat
                 | es ty len mnl mxl IHes IHty | ks IHks | ts IHts
                 | val | val | val | val | nm t IHt | t IHt ] using schema_ind';
    intros v.
  - cbn [erase substitute]. destruct (validate Subst SNone [] v); reflexivity.
  - cbn [erase substitute]. destruct (validate Subst (SBool val) [] v); [|reflexivity].
    destruct v; reflexivity.
  - cbn [erase substitute]. destruct (validate Subst (SInt val mn mx) [] v); [|reflexivity].
    destruct (as_intv v); reflexivity.
  - cbn [erase substitute]. destruct (validate Subst (SFloat val mn mx pr) [] v); [|reflexivity].
    destruct v; try reflexivity.
  - cbn [erase substitute]. destruct (validate Subst (SStr val len mnl mxl al sub pat) [] v); [|reflexivity].
    destruct v; reflexivity.
  - (* list *)
    pose proof (erase_validate_lemma Subst (SList es ty len mnl mxl) [] v) as HV.
    rewrite erase_list_unfold in *. cbn [substitute]. rewrite HV.
    destruct (validate Subst (SList es ty len mnl mxl) [] v); [|reflexivity]. cbn [map].
    destruct v; try reflexivity.
    destruct (negb (Nat.eqb (length l) 0) && forallb is_vell l); [reflexivity|].
    destruct (existsb is_vell (removelast (tl l))); [reflexivity|].
    destruct ty as [t|]; cbn [erase_opt].
    + (* typed *)
      specialize (IHty t eq_refl).
      assert (E : rsequence (map (fun x => if is_vell x then Ok None else rmap Some (substitute (erase t) x)) l) =
                  rmap (map erase_opt)
                       (rsequence (map (fun x => if is_vell x then Ok None else rmap Some (substitute t x)) l))).
      { apply rsequence_map2. apply Forall2_same. apply Forall_forall. intros x _.
        destruct (is_vell x); [reflexivity|]. rewrite IHty. destruct (substitute t x); reflexivity. }
      destruct es as [es'|]; rewrite E;
        destruct (rsequence (map (fun x => if is_vell x then Ok None else rmap Some (substitute t x)) l));
        reflexivity.
    + destruct es as [es'|].
      * specialize (IHes es' eq_refl).
        rewrite map_map.
        rewrite (subst_list_elements_eqv
                   (map (fun x => match erase_opt x with Some sch => Some (substitute sch) | None => None end) es')
                   (map (fun e => match e with Some sch => Some (substitute sch) | None => None end) es') l).
        -- destruct (subst_list_elements _ l); reflexivity.
        -- clear - IHes. induction IHes as [|o r Ho _ IH]; cbn [map]; constructor; [|exact IH].
           destruct o as [sch|]; simpl; [|exact I]. intros x. apply (Ho sch eq_refl).
      * assert (E : rmap (map erase_opt)
                      (rsequence (map (fun x => if is_vell x then Ok None else rmap Some (sub_from_native x)) l)) =
                    rsequence (map (fun x => if is_vell x then Ok None else rmap Some (sub_from_native x)) l)).
        { apply rmap_fixed. intros els Hels. apply fixed_opts_map. apply rsequence_Forall2 in Hels.
          clear - Hels. induction Hels as [|x y l0 els Hxy _ IH]; [constructor|]. constructor; [|exact IH].
          destruct (is_vell x); [injection Hxy as <-; reflexivity|].
          destruct (sub_from_native x) as [s0| |] eqn:Es; cbn [rmap] in Hxy; try discriminate.
          injection Hxy as <-. unfold fixed_opt. cbn [erase_opt]. f_equal. eapply sub_from_native_fixed; eauto. }
        rewrite <- E at 1.
        destruct (rsequence (map (fun x => if is_vell x then Ok None else rmap Some (sub_from_native x)) l));
          reflexivity.
  - (* dict *)
    pose proof (erase_validate_lemma Subst (SDict ks) [] v) as HV.
    rewrite erase_dict_unfold in *. cbn [substitute]. rewrite HV.
    destruct (validate Subst (SDict ks) [] v); [|reflexivity]. cbn [map].
    destruct v; try reflexivity.
    destruct ks as [ents|].
    + rewrite relaxed_only_erase.
      destruct (Nat.eqb (@length (key * option schema * bool)%type ents) 1 &&
                declared KEll (map (fun e : dentry => (de_key e, tt)) ents)).
      * (* relaxed only: every member from_native *)
        destruct (native_entries d []) as [ne| |] eqn:En; cbn [bind rmap]; try reflexivity.
        f_equal. rewrite erase_dict_unfold. f_equal. f_equal. symmetry. apply fixed_entries_map.
        apply set_entry_fixed; [reflexivity|]. apply (native_entries_fixed _ _ _ En). constructor.
      * specialize (IHks ents eq_refl). rewrite map_map.
        rewrite (subst_dict_entries_eqv
                   (map (fun x : dentry => (de_key (erase_entry x),
                          (de_schema (erase_entry x),
                           match de_schema (erase_entry x) with Some sch => Some (substitute sch) | None => None end,
                           de_opt (erase_entry x)))) ents)
                   (map (fun e : dentry => (de_key e, (de_schema e,
                           match de_schema e with Some sch => Some (substitute sch) | None => None end,
                           de_opt e))) ents) d).
        -- destruct (subst_dict_entries _ d); reflexivity.
        -- clear - IHks. induction IHks as [|e r He _ IH]; cbn [map]; constructor; [|exact IH].
           unfold seqvd, erase_entry. cbn [fst snd de_key de_schema de_opt]. repeat split.
           destruct (de_schema e) as [sch|] eqn:Es; simpl; [|exact I]. intros x. apply (He sch eq_refl).
    + cbn [andb]. destruct (native_entries d []) as [ne| |] eqn:En; cbn [bind rmap]; try reflexivity.
      f_equal. rewrite erase_dict_unfold. f_equal. f_equal. symmetry. apply fixed_entries_map.
      apply (native_entries_fixed _ _ _ En). constructor.
  - (* any *)
    pose proof (erase_validate_lemma Subst (SAny ts) [] v) as HV.
    rewrite erase_any_unfold in *. cbn [substitute]. rewrite HV.
    destruct (validate Subst (SAny ts) [] v); [|reflexivity]. cbn [map].
    destruct ts as [ts'|].
    + specialize (IHts ts' eq_refl). rewrite map_map.
      rewrite (any_subst_eqv (map (fun x => substitute (erase x)) ts') (map (fun t => substitute t) ts') v).
      * destruct (any_subst (map (fun t => substitute t) ts') v) as [kept| |]; cbn [rmap bind]; try reflexivity.
        destruct kept; reflexivity.
      * clear - IHts. induction IHts as [|t r Ht _ IH]; cbn [map]; constructor; [|exact IH].
        intros x. apply Ht.
    + destruct (sub_from_native v) as [s0| |] eqn:Es; cbn [bind rmap]; try reflexivity.
      f_equal. rewrite erase_any_unfold. cbn [map]. rewrite (sub_from_native_fixed _ _ Es). reflexivity.
  - cbn [erase substitute]. destruct (validate Subst (SBytes val) [] v); [|reflexivity].
    destruct v; reflexivity.
  - cbn [erase substitute]. destruct (validate Subst (SUuid val) [] v); [|reflexivity].
    destruct v; reflexivity.
  - cbn [erase substitute]. destruct (validate Subst (SDatetime val) [] v); [|reflexivity].
    destruct v; reflexivity.
  - cbn [erase substitute]. destruct (validate Subst (SDate val) [] v); reflexivity.
  - cbn [erase substitute]. rewrite IHt. destruct (substitute t v); reflexivity.
  - cbn [erase substitute]. rewrite IHt. destruct (substitute t v); reflexivity.
Qed.

(* ------------------------------------------------------------------ verdict / conformance transfer *)
Corollary erase_verdict_plain s v : verdict (erase s) v = verdict s v.
Proof. apply (erase_verdict Plain). Qed.

(* the result of erase is a fixed point: erase is idempotent *)
Lemma erase_idem : forall s, erase (erase s) = erase s.
Proof.
  induction s as [ | val | val mn mx | val mn mx pr | val len mnl mxl al sub pat
                 | es ty len mnl mxl IHes IHty | ks IHks | ts IHts
                 | val | val | val | val | nm t IHt | t IHt ] using schema_ind'; try reflexivity.
  - rewrite !erase_list_unfold. f_equal.
    + destruct es as [l|]; [|reflexivity]. specialize (IHes l eq_refl). f_equal. rewrite map_map.
      induction IHes as [|o r Ho _ IH]; cbn [map]; [reflexivity|]. rewrite IH. f_equal.
      destruct o as [e|]; cbn [erase_opt]; [rewrite (Ho e eq_refl)|]; reflexivity.
    + destruct ty as [t|]; cbn [erase_opt]; [rewrite (IHty t eq_refl)|]; reflexivity.
  - rewrite !erase_dict_unfold. destruct ks as [l|]; [|reflexivity]. specialize (IHks l eq_refl).
    f_equal. f_equal. rewrite map_map.
    induction IHks as [|e r He _ IH]; cbn [map]; [reflexivity|]. rewrite IH. f_equal.
    unfold erase_entry. cbn [de_key de_schema de_opt fst snd].
    destruct (de_schema e) as [t|] eqn:Es; cbn [erase_opt]; [rewrite (He t eq_refl)|]; reflexivity.
  - rewrite !erase_any_unfold. destruct ts as [l|]; [|reflexivity]. specialize (IHts l eq_refl).
    f_equal. f_equal. rewrite map_map.
    induction IHts as [|t r Ht _ IH]; cbn [map]; [reflexivity|]. rewrite IH, Ht. reflexivity.
  - cbn [erase]. rewrite IHt. reflexivity.
  - cbn [erase]. exact IHt.
Qed.

(* ------------------------------------------------------------------ validateR, all trees *)
Definition eqvR (g f : elemfnR) : Prop := forall p x, g p x = rmap (map erase_err) (f p x).

Definition plainR (r : result (list verror)) : Prop :=
  match r with Ok l => plain_errs l | _ => True end.

Lemma plainR_fixed r : plainR r -> rmap (map erase_err) r = r.
Proof. destruct r; intros H; cbn [rmap]; [rewrite (plain_map _ H)|..]; reflexivity. Qed.

Lemma plainR_vr_str val len mnl mxl al sub pat p v : plainR (vr_str val len mnl mxl al sub pat p v).
Proof.
  unfold vr_str. destruct v; cbn [isinst negb]; try (repeat constructor).
  cbn [r_as_str bind].
  assert (Hv : plain_errs (match val with Some e => check_value p (VStr s) (VStr e) | None => [] end))
    by (destruct val; [apply plain_check_value | constructor]).
  destruct (match val with Some e => check_value p (VStr s) (VStr e) | None => [] end); [|exact Hv].
  assert (Hrest : plainR (
    do el <- match len, mnl, mxl with
             | None, None, None => Ok []
             | _, _, _ => Ok (check_len p (VStr s) (zlen s) len mnl mxl) end;
    do es <- match sub with
             | Some t => Ok (if infix t s then [] else [VE (ESubstr t) p (VStr s)])
             | None => Ok [] end;
    do ea <- match al with
             | Some a => Ok (if forallb (fun c => Nmem c a) s then [] else [VE (EAlphabet a) p (VStr s)])
             | None => Ok [] end;
    Ok (el ++ es ++ ea))).
  { assert (Hl : plain_errs (check_len p (VStr s) (zlen s) len mnl mxl)) by apply plain_check_len.
    destruct len, mnl, mxl, sub, al; cbn [bind plainR];
      repeat (apply plain_app); try exact Hl; unfold plain_errs; plain_solve. }
  destruct pat as [pt|]; cbn [bind].
  - destruct (searchb (snd pt) s) as [[|]|]; cbn [bind plainR]; [exact Hrest | repeat constructor | exact I].
  - exact Hrest.
Qed.

Lemma velemsR_eqv gs fs p l idx :
  Forall2 eqvR gs fs -> velemsR gs p l idx = rmap (map erase_err) (velemsR fs p l idx).
Proof.
  intros H. revert idx. induction H as [|g f gs fs Hgf _ IH]; intros idx; cbn [velemsR]; [reflexivity|].
  destruct (nth_error l idx) as [x|]; [|reflexivity].
  rewrite Hgf, IH. destruct (f (p ++ [KInt (Z.of_nat idx)]) x); cbn [rmap bind]; try reflexivity.
  destruct (velemsR fs p l (S idx)); cbn [rmap bind]; try reflexivity. rewrite map_app. reflexivity.
Qed.

Lemma of_optR_eqv gs fs : Forall2 (ropt eqvR) gs fs -> Forall2 eqvR (map of_optR gs) (map of_optR fs).
Proof.
  induction 1 as [|g f gs fs Hgf _ IH]; cbn [map]; constructor; [|exact IH].
  destruct g, f; simpl in Hgf; try contradiction; [exact Hgf|]. intros p x. reflexivity.
Qed.

Lemma list_logicR_eqv gs fs p l :
  Forall2 (ropt eqvR) gs fs -> list_logicR gs p l = rmap (map erase_err) (list_logicR fs p l).
Proof.
  intros H. unfold list_logicR.
  pose proof (ropt_middle _ _ _ H) as Hm.
  pose proof (of_optR_eqv _ _ Hm) as Hs.
  rewrite (ropt_classify _ _ _ H), (Forall2_len _ _ _ H). cbv zeta.
  assert (Hlen : length (map of_optR (middle gs)) = length (map of_optR (middle fs)))
    by (rewrite !map_length; apply (Forall2_len _ _ _ Hm)).
  destruct (classify fs).
  - destruct l as [|x l]; [apply velemsR_eqv; exact Hs|].
    set (L := x :: l).
    rewrite (rsequence_map2 (fun i => velemsR (map of_optR (middle gs)) p L i)
                            (fun i => velemsR (map of_optR (middle fs)) p L i)
                            (map erase_err) (seq 0 (length L)) (seq 0 (length L))).
    + destruct (rsequence _) as [all| |]; cbn [rmap bind]; try reflexivity.
      destruct all as [|w ws]; [reflexivity|]. cbn [map]. rewrite min_by_len_map. reflexivity.
    + apply Forall2_same. apply Forall_forall. intros i _. apply velemsR_eqv. exact Hs.
  - apply velemsR_eqv; exact Hs.
  - rewrite Hlen. apply velemsR_eqv; exact Hs.
  - rewrite (velemsR_eqv _ _ p l 0 Hs). destruct (velemsR (map of_optR (middle fs)) p l 0);
      cbn [rmap bind]; try reflexivity. rewrite map_app, extras_plain. reflexivity.
Qed.

Lemma concat_map_map {A B} (f : A -> B) ls : concat (map (map f) ls) = map f (concat ls).
Proof. induction ls as [|x r IH]; simpl; [reflexivity|]. rewrite map_app, IH. reflexivity. Qed.

Lemma typed_logicR_eqv m g f p l :
  eqvR g f -> typed_logicR m g p l = rmap (map erase_err) (typed_logicR m f p l).
Proof.
  intros H. unfold typed_logicR.
  rewrite (rsequence_map2 _ (fun ix : nat * value =>
              if skip_ell m (fst ix) (length l) (snd ix) then Ok []
              else f (p ++ [KInt (Z.of_nat (fst ix))]) (snd ix)) (map erase_err) (enumerate l) (enumerate l)).
  - destruct (rsequence _); cbn [rmap]; try reflexivity. rewrite concat_map_map. reflexivity.
  - apply Forall2_same. apply Forall_forall. intros [i x] _. cbn [fst snd].
    destruct (skip_ell m i (length l) x); [reflexivity | apply H].
Qed.

Definition eqvRd (g f : key * (option elemfnR * bool)) : Prop :=
  fst g = fst f /\ snd (snd g) = snd (snd f) /\ ropt eqvR (fst (snd g)) (fst (snd f)).

Lemma eqvRd_declared gs fs k : Forall2 eqvRd gs fs -> declared k gs = declared k fs.
Proof. induction 1 as [|g f gs fs (Hk & _) _ IH]; simpl; auto. rewrite Hk, IH. reflexivity. Qed.

Lemma dict_membersR_eqv m gs fs p d :
  Forall2 eqvRd gs fs -> dict_membersR m gs p d = rmap (map erase_err) (dict_membersR m fs p d).
Proof.
  intros H. unfold dict_membersR.
  rewrite (rsequence_map2 _ (fun e : key * (option elemfnR * bool) =>
          let '(k, (f, opt)) := e in
          if is_kell k then Ok [] else
          match assoc k d with
          | Some x =>
              match m, x with
              | Subst, VEllipsis => Ok []
              | _, _ => of_optR f (p ++ [k]) x
              end
          | None =>
              match m with
              | Plain => Ok (if opt then [] else [VE (EMissingKey k) p (VDict d)])
              | Subst => Ok [] end
          end) (map erase_err) gs fs).
  - destruct (rsequence _); cbn [rmap]; try reflexivity. rewrite concat_map_map. reflexivity.
  - clear - H. induction H as [|[k [g o]] [k' [f o']] gs fs (Hk & Ho & Hr) _ IH]; constructor; [|exact IH].
    simpl in Hk, Ho, Hr. subst k' o'.
    destruct (is_kell k); [reflexivity|].
    destruct (assoc k d) as [x|].
    + assert (Hof : of_optR g (p ++ [k]) x = rmap (map erase_err) (of_optR f (p ++ [k]) x)).
      { destruct g, f; simpl in Hr; try contradiction; [apply Hr | reflexivity]. }
      destruct m; [exact Hof|]. destruct x; try exact Hof. reflexivity.
    + destruct m; [|reflexivity]. destruct o; reflexivity.
Qed.

Lemma any_logicR_eqv ts gs fs p v :
  Forall2 eqvR gs fs ->
  any_logicR (map erase ts) gs p v = rmap (map erase_err) (any_logicR ts fs p v).
Proof.
  induction 1 as [|g f gs fs Hgf _ IH]; cbn [any_logicR]; [reflexivity|].
  rewrite Hgf. destruct (f p v) as [es| |]; cbn [rmap bind]; try reflexivity.
  destruct es; [reflexivity | exact IH].
Qed.

Theorem erase_validateR_lemma :
  forall m s p v, validateR m (erase s) p v = rmap (map erase_err) (validateR m s p v).
Proof.
  intros m.
  induction s as [ | val | val mn mx | val mn mx pr | val len mnl mxl al sub pat
                 | es ty len mnl mxl IHes IHty | ks IHks | ts IHts
                 | val | val | val | val | nm t IHt | t IHt ] using schema_ind';
    intros p v.
  - cbn [erase validateR rmap]. rewrite (plain_map _ (plain_v_none p v)). reflexivity.
  - cbn [erase validateR rmap]. rewrite (plain_map _ (plain_v_bool val p v)). reflexivity.
  - cbn [erase validateR]. rewrite vr_int_total. cbn [rmap].
    rewrite (plain_map _ (plain_v_int val mn mx p v)). reflexivity.
  - cbn [erase validateR]. rewrite vr_float_total. cbn [rmap].
    rewrite (plain_map _ (plain_v_float val mn mx pr p v)). reflexivity.
  - cbn [erase validateR]. symmetry. apply plainR_fixed, plainR_vr_str.
  - (* list *)
    rewrite erase_list_unfold. cbn [validateR].
    destruct (negb (isinst TList v)); [reflexivity|].
    destruct (r_as_list v) as [l| |]; cbn [bind rmap]; try reflexivity.
    pose proof (plain_check_len_first p v (zlen l) len mnl mxl) as Hl.
    destruct (check_len_first p v (zlen l) len mnl mxl) as [|e0 r0] eqn:EL.
    2:{ cbn [rmap]. rewrite (plain_map _ Hl). reflexivity. }
    destruct ty as [t|]; cbn [erase_opt].
    + apply typed_logicR_eqv. intros p0 x. apply (IHty t eq_refl).
    + destruct es as [es'|]; [|reflexivity].
      rewrite map_map. apply list_logicR_eqv. specialize (IHes es' eq_refl).
      induction IHes as [|o r Ho _ IH]; cbn [map]; constructor; [|exact IH].
      destruct o as [sch|]; simpl; [|exact I]. intros p0 x. apply (Ho sch eq_refl).
  - (* dict *)
    rewrite erase_dict_unfold. cbn [validateR].
    destruct (negb (isinst TDict v)); [reflexivity|].
    destruct (r_as_dict v) as [d| |]; cbn [bind rmap]; try reflexivity.
    destruct ks as [ents|]; [|reflexivity].
    specialize (IHks ents eq_refl). rewrite map_map.
    assert (HF : Forall2 eqvRd
      (map (fun x : dentry => (de_key (erase_entry x),
              (match de_schema (erase_entry x) with Some sch => Some (validateR m sch) | None => None end,
               de_opt (erase_entry x)))) ents)
      (map (fun e : dentry => (de_key e,
              (match de_schema e with Some sch => Some (validateR m sch) | None => None end, de_opt e))) ents)).
    { clear - IHks. induction IHks as [|e r He _ IH]; cbn [map]; constructor; [|exact IH].
      unfold eqvRd, erase_entry. cbn [fst snd de_key de_schema de_opt]. repeat split.
      destruct (de_schema e) as [sch|] eqn:Es; simpl; [|exact I]. intros p0 x. apply (He sch eq_refl). }
    rewrite (dict_membersR_eqv m _ _ p d HF).
    destruct (dict_membersR m _ p d) as [e1| |]; cbn [rmap bind]; try reflexivity.
    rewrite map_app, dict_extras_plain. f_equal. f_equal.
    apply dict_extras_ext. intros k. apply (eqvRd_declared _ _ k HF).
  - (* any *)
    rewrite erase_any_unfold. cbn [validateR]. destruct ts as [ts'|]; [|reflexivity].
    rewrite map_map. apply any_logicR_eqv. specialize (IHts ts' eq_refl).
    induction IHts as [|t r Ht _ IH]; cbn [map]; constructor; [|exact IH].
    intros p0 x. apply Ht.
  - cbn [erase validateR rmap]. rewrite (plain_map _ (plain_v_bytes val p v)). reflexivity.
  - cbn [erase validateR]. rewrite vr_uuid_total. cbn [rmap].
    rewrite (plain_map _ (plain_v_uuid val p v)). reflexivity.
  - cbn [erase validateR rmap]. rewrite (plain_map _ (plain_v_datetime val p v)). reflexivity.
  - cbn [erase validateR rmap]. rewrite (plain_map _ (plain_v_date val p v)). reflexivity.
  - cbn [erase validateR]. apply IHt.
  - cbn [erase validateR]. apply IHt.
Qed.

(* ------------------------------------------------------------------ FOR THE INTEGRATOR *)
(* Generation (theories/Generate.v) and representation (theories/Represent.v) are written by
   colleagues; once they exist, the two remaining C16 statements are (names fixed here):

   erase_gen :
     forall w s tape, gen w (erase s) tape = gen w s tape
     (Generator.visit forwards **kwargs unchanged; same world, same tape => same value and
      same remaining tape; the SCustom case of [gen] must be [gen w inner tape]).

   erase_represent :
     forall s indent, represent (erase s) indent = represent s indent
     (Representor.visit forwards indent and **kwargs; the SCustom case of [represent] must be
      [represent inner indent]; nested indentation is the point: dict values / list elements
      are rendered at indent + 4).

   Both are plain inductions with schema_ind' exactly like [erase_validate_lemma]; the
   harness (harness/props/c16.py) already compares both on the real code. *)
