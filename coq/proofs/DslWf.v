(* Bridge between C10 and the properties stated for well-formed schemas: everything the
   declaration DSL builds ([dsl_inv], proofs/DeclareInv.v) is well-formed ([wf]), provided the
   regexes it carries are in the modelled fragment ([pats_modelled], theories/DslWf.v). *)
Require Import D42.Prelude D42.PyFloat D42.Value D42.Regex D42.Schema D42.Validate D42.Conforms
               D42.Declare D42.DslWf.
Require Import D42P.DeclareInv.

(* ---- `...` first/last only, not [..., ...]  ==>  the middle has no `...` ---- *)

(* past the first position, an admissible element list is all-concrete up to its last element *)
Lemma ell_positions_tail {A} (r : list (option A)) : forall n idx,
  (1 <= idx)%nat -> n = (idx + length r)%nat -> ell_positions_ok n idx r = true ->
  r = [] \/ exists m z, r = m ++ [z] /\ forallb is_some m = true.
Proof.
  induction r as [|e r IH]; intros n idx Hidx Hn Hp; [left; reflexivity|right].
  cbn [ell_positions_ok] in Hp. apply andb_true_iff in Hp as [He Hr].
  destruct r as [|e' r'].
  - exists [], e. split; reflexivity.
  - destruct (IH n (S idx)) as [E|(m & z & E & Hm)];
      [lia | cbn [length] in *; lia | exact Hr | discriminate E |].
    exists (e :: m), z. split; [rewrite E; reflexivity|].
    cbn [forallb]. rewrite Hm, andb_true_r.
    apply orb_true_iff in He as [He|He]; [apply orb_true_iff in He as [He|He]|].
    + exact He.
    + apply Nat.eqb_eq in He. lia.
    + apply Nat.eqb_eq in He. cbn [length] in Hn. lia.
Qed.

Lemma last_ell_snoc {A} (l : list (option A)) z : last_ell (l ++ [z]) = is_none z.
Proof. unfold last_ell. rewrite rev_app_distr. cbn [rev app]. destruct z; reflexivity. Qed.

Lemma elems_ok_wf {A} (l : list (option A)) : elems_ok l = true -> elems_wf l = true.
Proof.
  unfold elems_ok. intros H. apply andb_true_iff in H as [Hp Ht].
  destruct l as [|a r]; [reflexivity|].
  cbn [ell_positions_ok] in Hp. apply andb_true_iff in Hp as [_ Hp].
  destruct (ell_positions_tail r (length (a :: r)) 1) as [E|(m & z & E & Hm)];
    [lia | reflexivity | exact Hp | |]; subst r.
  - destruct a; reflexivity.
  - unfold elems_wf, middle, classify.
    rewrite app_comm_cons, last_ell_snoc, <- app_comm_cons.
    destruct m as [|m0 m'].
    + destruct a, z; try reflexivity. discriminate Ht.
    + assert (L : length (a :: (m0 :: m') ++ [z]) = S (S (S (length m')))).
      { cbn [length app]. rewrite app_length. cbn [length]. lia. }
      rewrite L. cbn [Nat.ltb Nat.leb andb first_ell].
      destruct a, z; cbn [is_none andb tl].
      * cbn [forallb is_some is_none negb andb]. rewrite forallb_app, Hm. reflexivity.
      * rewrite app_comm_cons, removelast_last. cbn [forallb is_some is_none negb andb]. exact Hm.
      * rewrite forallb_app, Hm. reflexivity.
      * rewrite removelast_last. exact Hm.
Qed.

(* ---- the hereditary part ---- *)
Lemma forallb_map_imp3 {A} (f g h : A -> bool) l :
  Forall (fun a => f a = true -> g a = true -> h a = true) l ->
  forallb (fun x => x) (map f l) = true -> forallb (fun x => x) (map g l) = true ->
  forallb (fun x => x) (map h l) = true.
Proof.
  induction 1 as [|a r Ha _ IH]; intros Hf Hg; [reflexivity|].
  cbn [map forallb] in *. apply andb_true_iff in Hf as [Hf1 Hf2]. apply andb_true_iff in Hg as [Hg1 Hg2].
  rewrite (Ha Hf1 Hg1), (IH Hf2 Hg2). reflexivity.
Qed.

Lemma dsl_inv_wf_lemma : forall s, dsl_inv s = true -> pats_modelled s = true -> wf s = true.
Proof.
  induction s as [ | val | val mn mx | val mn mx pr | val len mnl mxl al sub pat
                 | es ty len mnl mxl IHes IHty | ks IHks | ts IHts
                 | val | val | val | val | nm t IHt | t IHt ] using schema_ind';
    intros Hi Hp; try reflexivity.
  - (* str *) exact Hp.
  - (* list *)
    cbn [dsl_inv] in Hi. cbn [pats_modelled] in Hp. cbn [wf].
    apply andb_true_iff in Hi as [Hi Hit]. apply andb_true_iff in Hi as [_ Hie].
    apply andb_true_iff in Hp as [Hpe Hpt].
    apply andb_true_iff. split.
    + destruct es as [l|]; [|reflexivity].
      apply andb_true_iff in Hie as [Hie Hih]. apply andb_true_iff in Hie as [Hok _].
      apply andb_true_iff. split; [apply elems_ok_wf; exact Hok|].
      eapply forallb_map_imp3; [|exact Hih|exact Hpe].
      eapply Forall_impl; [|exact (IHes l eq_refl)].
      intros [e|] He; [apply (He e eq_refl)|reflexivity].
    + destruct ty as [t|]; [|reflexivity]. apply (IHty t eq_refl); assumption.
  - (* dict *)
    destruct ks as [l|]; [|reflexivity].
    cbn [dsl_inv] in Hi. cbn [pats_modelled] in Hp. cbn [wf].
    apply andb_true_iff in Hi as [Hsh Hih]. rewrite Hsh. cbn [andb].
    eapply forallb_map_imp3; [|exact Hih|exact Hp].
    eapply Forall_impl; [|exact (IHks l eq_refl)].
    intros e He. cbv beta in He |- *. destruct (de_schema e) as [t|] eqn:Et; [apply (He t eq_refl)|reflexivity].
  - (* any *)
    destruct ts as [l|]; [|reflexivity].
    cbn [dsl_inv] in Hi. cbn [pats_modelled] in Hp. cbn [wf].
    apply andb_true_iff in Hi as [_ Hih].
    eapply forallb_map_imp3; [|exact Hih|exact Hp]. exact (IHts l eq_refl).
  - (* alias *) apply IHt; assumption.
  - (* custom *) apply IHt; assumption.
Qed.

(* every schema obtained from a bare type by a chain of successful DSL calls whose schema
   arguments were themselves DSL-built is well-formed, up to the regex fragment *)
Lemma run_wf_lemma : forall k ops s,
  Forall (fun o : op => args_inv (snd o) = true) ops ->
  run ops (bare k) = Ok s -> pats_modelled s = true -> wf s = true.
Proof.
  intros k ops s Ha Hr Hp. apply dsl_inv_wf_lemma; [|exact Hp].
  exact (run_inv_lemma ops (bare k) s (bare_inv k) Ha Hr).
Qed.
