(* C06 reachability: the invariant [dsl_inv] assumed by the round-trip theorem also holds for
   the results of  d1 + d2  and  make_required(d, keys)  (model: theories/Combinators.v). *)
Require Import D42.Prelude D42.Value D42.Regex D42.Schema D42.Validate D42.Declare D42.Combinators.
Require Import D42P.DeclareSpec D42P.DeclareInv.

Lemma dset_upsert e d : dset e d = upsert (de_key e) (de_schema e) (de_opt e) d.
Proof.
  induction d as [|e' r IH]; cbn [dset upsert]; [destruct e as [[k s] o]; reflexivity|].
  destruct (key_eqb (de_key e) (de_key e')); [reflexivity|]. rewrite IH. reflexivity.
Qed.

Lemma dents_ok_entry e l :
  dents_ok (e :: l) = true ->
  entry_shape_ok (de_key e, de_schema e, de_opt e) = true /\
  match de_schema e with Some t => dsl_inv t | None => true end = true /\ dents_ok l = true.
Proof.
  unfold dents_ok. cbn [forallb map nodup_keys]. intros H. bdestr.
  destruct e as [[k s] o]. cbn [de_key de_schema de_opt fst snd] in *.
  repeat split; auto. bsplit; auto.
Qed.

Lemma merge_ok b : forall a, dents_ok a = true -> dents_ok b = true -> dents_ok (merge_entries a b) = true.
Proof.
  unfold merge_entries. induction b as [|e r IH]; intros a Ha Hb; cbn [fold_left]; [exact Ha|].
  destruct (dents_ok_entry _ _ Hb) as (Hs & Hi & Hr).
  apply IH; [|exact Hr]. rewrite dset_upsert. apply upsert_ok; assumption.
Qed.

Lemma dents_ok_entries ks : dsl_inv (SDict ks) = true -> dents_ok (entries_of ks) = true.
Proof. destruct ks as [l|]; cbn [dsl_inv entries_of]; [unfold dents_ok; auto | reflexivity]. Qed.

Lemma dict_add_inv_lemma a b c :
  dsl_inv a = true -> dsl_inv b = true -> dict_add a b = Ok c -> dsl_inv c = true.
Proof.
  intros Ha Hb. unfold dict_add. destruct a; try discriminate. destruct b; try discriminate.
  intros E. inversion E. subst. clear E.
  pose proof (merge_ok _ _ (dents_ok_entries _ Ha) (dents_ok_entries _ Hb)) as H.
  unfold dents_ok in H. cbn [dsl_inv]. exact H.
Qed.

Lemma make_required_inv_lemma s ks s' :
  dsl_inv s = true -> make_required s ks = Ok s' -> dsl_inv s' = true.
Proof.
  intros Hs. unfold make_required. destruct s; try discriminate.
  destruct (negb _); [discriminate|]. destruct ks0 as [l|].
  - match goal with |- context[existsb (key_eqb _) ?r] => generalize r end.
    intros req E. inversion E. subst. clear E. cbn [dsl_inv] in *. bdestr.
    bsplit.
    + clear - H. induction l as [|e r IH]; cbn [map forallb] in *; [reflexivity|]. bdestr.
      rewrite (IH H0), andb_true_r. destruct e as [[k o] b]. cbn [de_key de_schema de_opt fst snd].
      destruct k; destruct o; cbn in *; try reflexivity; try discriminate;
        destruct b; try discriminate; destruct (existsb _ req); reflexivity.
    + rewrite map_map. cbn [de_key fst]. exact H1.
    + rewrite map_map. cbn [de_schema fst snd]. exact H0.
  - intros E. inversion E. reflexivity.
Qed.

(* ------------------------------------------------------------------------------------ *)
(* alias/custom freedom is preserved as well                                             *)
(* ------------------------------------------------------------------------------------ *)
Require Import D42.Represent.

Definition elems_acf (es : list (option schema)) : bool :=
  forallb (fun x => x) (map (fun o => match o with Some e => alias_custom_free e | None => true end) es).
Definition dents_acf (l : list dentry) : bool :=
  forallb (fun x => x) (map (fun e => match de_schema e with Some t => alias_custom_free t | None => true end) l).
Definition schemas_acf (l : list schema) : bool :=
  forallb (fun x => x) (map (fun t => alias_custom_free t) l).

Lemma elems_loop_acf n l : forall idx es,
  elems_loop n idx l = Ok es -> forallb arg_acf l = true -> elems_acf es = true.
Proof.
  induction l as [|a r IH]; intros idx es; cbn [elems_loop].
  - intros E _. inversion E. reflexivity.
  - destruct (elem_of_arg a) as [e|] eqn:Ea; [|discriminate].
    destruct (is_none e && _ && _); [discriminate|].
    destruct (elems_loop n (S idx) r) as [es'| |] eqn:Er; cbn [bind]; try discriminate.
    intros E H. inversion E. subst. clear E. cbn [forallb] in H. apply andb_true_iff in H as [Ha Hr].
    unfold elems_acf in *. cbn [map forallb]. rewrite (IH _ _ Er Hr), andb_true_r.
    destruct a as [v|s| | |]; cbn [elem_of_arg] in Ea; try discriminate.
    + destruct v; try discriminate. inversion Ea. reflexivity.
    + inversion Ea. subst. exact Ha.
Qed.

Lemma a_list_acf a l : arg_acf a = true -> a_list a = Some l -> forallb arg_acf l = true.
Proof.
  destruct a as [v| | |l0|]; cbn [a_list]; try discriminate.
  - destruct v; try discriminate. intros _ E. inversion E. subst. clear E.
    induction l0 as [|x r IH]; cbn [map forallb]; auto.
  - cbn [arg_acf]. intros H E. inversion E. subst. rewrite forallb_id_map' in H. exact H.
Qed.

Lemma upsert_acf k s o l :
  dents_acf l = true -> match s with Some t => alias_custom_free t | None => true end = true ->
  dents_acf (upsert k s o l) = true.
Proof.
  unfold dents_acf. intros Hl Hs. induction l as [|e r IH]; cbn [upsert map forallb de_schema fst snd].
  - rewrite Hs. reflexivity.
  - cbn [map forallb] in Hl. apply andb_true_iff in Hl as [He Hr].
    destruct (key_eqb k (de_key e)); cbn [map forallb de_schema fst snd].
    + rewrite Hs. exact Hr.
    + rewrite He. apply IH. exact Hr.
Qed.

Lemma dict_loop_acf items : forall acc l,
  dents_acf acc = true -> forallb (fun kx : dkey * arg => arg_acf (snd kx)) items = true ->
  dict_loop items acc = Ok l -> dents_acf l = true.
Proof.
  induction items as [|[k a] r IH]; intros acc l Hacc Hit; cbn [dict_loop].
  - intros E. inversion E. subst. exact Hacc.
  - cbn [forallb snd] in Hit. apply andb_true_iff in Hit as [Ha Hr].
    destruct (dkey_ell k || a_ell a).
    + destruct (negb (dkey_ell k)); [discriminate|]. destruct (negb (a_ell a)); [discriminate|].
      apply IH; [|exact Hr]. apply upsert_acf; auto.
    + destruct a as [v|s| | |]; try discriminate.
      apply IH; [|exact Hr]. apply upsert_acf; auto.
Qed.

Lemma a_dict_acf a items :
  arg_acf a = true -> a_dict a = Some items ->
  forallb (fun kx : dkey * arg => arg_acf (snd kx)) items = true.
Proof.
  destruct a as [v| | | |d]; cbn [a_dict]; try discriminate.
  - destruct v; try discriminate. intros _ E. inversion E. subst. clear E.
    induction d as [|[k x] r IH]; cbn [map forallb fst snd]; auto.
  - cbn [arg_acf]. intros H E. inversion E. subst. rewrite forallb_id_map' in H. exact H.
Qed.

Lemma flat_map_flatten_acf l :
  forallb (fun x => x) (map (fun t => dsl_inv t) l) = true -> schemas_acf l = true ->
  schemas_acf (flat_map Declare.flatten1 l) = true.
Proof.
  unfold schemas_acf. induction l as [|s r IH]; cbn [map forallb flat_map]; [reflexivity|].
  intros Hi Hn. apply andb_true_iff in Hi as [His Hir]. apply andb_true_iff in Hn as [Hns Hnr].
  rewrite map_app, forallb_app, (IH Hir Hnr), andb_true_r.
  destruct (is_any_some s) eqn:E.
  - destruct s as [| | | | | | |[ts|]| | | | | |]; try discriminate E.
    cbn [dsl_inv] in His. apply andb_true_iff in His as [His _]. apply andb_true_iff in His as [_ Hflat].
    cbn [Declare.flatten1]. rewrite (flat_map_flatten_flat _ Hflat). exact Hns.
  - rewrite (flatten1_not_any _ E). cbn [map forallb]. rewrite Hns. reflexivity.
Qed.

Lemma all_schemas_acf args l :
  args_acf args = true -> all_schemas args = Some l -> schemas_acf l = true.
Proof.
  revert l. induction args as [|a r IH]; intros l H E; cbn [all_schemas] in E.
  - inversion E. reflexivity.
  - destruct a as [|s| | |]; try discriminate.
    destruct (all_schemas r) as [r'|] eqn:Er; [|discriminate]. inversion E. subst. clear E.
    unfold args_acf in H. cbn [forallb arg_acf] in H. apply andb_true_iff in H as [Hs Hr].
    unfold schemas_acf in *. cbn [map forallb]. rewrite Hs, (IH r' Hr eq_refl). reflexivity.
Qed.

Lemma decl_acf_lemma m s args s' :
  dsl_inv s = true -> args_inv args = true ->
  alias_custom_free s = true -> args_acf args = true -> decl m s args = Ok s' ->
  alias_custom_free s' = true.
Proof.
  intros Hinv Hai Hnn Hargs.
  destruct s; destruct m; cbn [decl]; try discriminate;
    unfold with1, with_len, len_args;
    destruct args as [|a [|b [|c r]]]; try discriminate.
  all: unfold args_acf in Hargs; cbn [forallb] in Hargs.
  all: try (unfold bool_call, int_call, float_call, str_call, bytes_call,
            uuid_call, datetime_call, date_call; unfold_decl; unfold bind, option_map; dall2;
            try discriminate; intros E; inversion E; subst; clear E; cbn [alias_custom_free] in *; auto; fail).
  - (* list call *)
    unfold list_call, dE.
    assert (Ha : arg_acf a = true) by (bdestr; assumption).
    destruct a as [v0|t0| |l0|]; cbn [a_list]; try discriminate.
    + destruct v0 as [| | | | | | | | |l0| | | |]; try discriminate.
      dall; try discriminate. destruct (elems_loop _ _ _) as [es'| |] eqn:El; cbn [bind]; try discriminate.
      destruct (two_ells es'); [discriminate|]. intros E; inversion E; subst; clear E. nones.
      cbn [alias_custom_free]. fold (elems_acf es'). rewrite (elems_loop_acf _ _ _ _ El); [reflexivity|].
      apply (a_list_acf (AVal (VList l0))); auto.
    + dall; try discriminate. intros E; inversion E; subst; clear E. nones.
      cbn [alias_custom_free]. exact Ha.
    + dall; try discriminate. destruct (elems_loop _ _ _) as [es'| |] eqn:El; cbn [bind]; try discriminate.
      destruct (two_ells es'); [discriminate|]. intros E; inversion E; subst; clear E. nones.
      cbn [alias_custom_free]. fold (elems_acf es'). rewrite (elems_loop_acf _ _ _ _ El); [reflexivity|].
      apply (a_list_acf (AList l0)); auto.
  - (* dict *)
    unfold dict_call, dE. destruct (a_dict a) as [items|] eqn:Ea; [|discriminate].
    destruct ks as [k0|]; cbn [is_some is_none negb]; [discriminate|].
    destruct (dict_loop items []) as [l| |] eqn:El; cbn [bind]; try discriminate.
    intros E; inversion E; subst; clear E. cbn [alias_custom_free].
    apply (dict_loop_acf items [] l); auto. apply (a_dict_acf a); auto. bdestr; assumption.
  - (* any *)
    unfold Declare.any_call, dE. destruct (all_schemas [a]) as [l|] eqn:Ea; [|discriminate].
    destruct ts as [t0|]; cbn [is_some is_none negb]; [discriminate|]. intros E; inversion E; subst; clear E.
    cbn [alias_custom_free]. apply flat_map_flatten_acf.
    + apply (all_schemas_inv [a] l); auto.
    + apply (all_schemas_acf [a] l); auto.
  - unfold Declare.any_call, dE. destruct (all_schemas [a; b]) as [l|] eqn:Ea; [|discriminate].
    destruct ts as [t0|]; cbn [is_some is_none negb]; [discriminate|]. intros E; inversion E; subst; clear E.
    cbn [alias_custom_free]. apply flat_map_flatten_acf.
    + apply (all_schemas_inv [a; b] l); auto.
    + apply (all_schemas_acf [a; b] l); auto.
  - unfold Declare.any_call, dE. destruct (all_schemas (a :: b :: c :: r)) as [l|] eqn:Ea; [|discriminate].
    destruct ts as [t0|]; cbn [is_some is_none negb]; [discriminate|]. intros E; inversion E; subst; clear E.
    cbn [alias_custom_free]. apply flat_map_flatten_acf.
    + apply (all_schemas_inv (a :: b :: c :: r) l); auto.
    + apply (all_schemas_acf (a :: b :: c :: r) l); auto.
Qed.

Lemma bare_acf k : k <> KdAlias -> k <> KdCustom -> alias_custom_free (bare k) = true.
Proof. destruct k; intros H1 H2; try reflexivity; contradiction. Qed.

Lemma merge_acf b : forall a, dents_acf a = true -> dents_acf b = true -> dents_acf (merge_entries a b) = true.
Proof.
  unfold merge_entries. induction b as [|e r IH]; intros a Ha Hb; cbn [fold_left]; [exact Ha|].
  unfold dents_acf in Hb. cbn [map forallb] in Hb. apply andb_true_iff in Hb as [He Hr].
  apply IH; [|exact Hr]. rewrite dset_upsert. apply upsert_acf; assumption.
Qed.

Lemma dict_add_acf_lemma a b c :
  alias_custom_free a = true -> alias_custom_free b = true -> dict_add a b = Ok c ->
  alias_custom_free c = true.
Proof.
  intros Ha Hb. unfold dict_add. destruct a; try discriminate. destruct b; try discriminate.
  intros E. inversion E. subst. clear E. cbn [alias_custom_free].
  apply merge_acf; [destruct ks | destruct ks0]; cbn [entries_of]; auto.
Qed.

Lemma make_required_acf_lemma s ks s' :
  alias_custom_free s = true -> make_required s ks = Ok s' -> alias_custom_free s' = true.
Proof.
  intros Hs. unfold make_required. destruct s; try discriminate.
  destruct (negb _); [discriminate|]. destruct ks0 as [l|].
  - intros E. inversion E. subst. clear E. cbn [alias_custom_free] in *.
    rewrite map_map. cbn [de_schema fst snd]. exact Hs.
  - intros E. inversion E. reflexivity.
Qed.
